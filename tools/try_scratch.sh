#!/bin/bash
# try_scratch.sh <ABSOLUTE patch.diff> <tier> <Cxx> [Cyy ...]
# Like try_mutant.sh but never touches /repo: the patch is applied to a scratch worktree (/tmp/tryenv/repo) and a copy of
# the harness (path dependencies rewritten) is built in /tmp/tryenv/target.  Evidence/replay files still go to /verif.
# Remove with: git -C /repo worktree remove --force /tmp/tryenv/repo; rm -rf /tmp/tryenv
P=$1; TIER=$2; shift; shift
E=/tmp/tryenv
mkdir -p $E
if [ ! -d $E/repo ]; then git -C /repo worktree add --detach $E/repo HEAD >/dev/null 2>&1 || exit 2; fi
cd $E/repo || exit 2
git checkout -q --detach $(git -C /repo rev-parse HEAD) 2>/dev/null
git checkout -- . && git clean -fdq -- insim insim_core insim_pth insim_smx
if [ -n "$P" ] && [ "$P" != "none" ]; then git apply "$P" || exit 2; fi
rsync -a --delete --exclude target ${HARNESS_SRC:-/verif/harness}/ $E/harness/; rsync -a --delete /verif/spec/ $E/spec/
sed -i "s#/repo/#$E/repo/#g" $E/harness/Cargo.toml $E/harness/build.rs
cd $E/harness || exit 2
if ! CARGO_NET_OFFLINE=true CARGO_TARGET_DIR=$E/target cargo build --release --offline >$E/build.log 2>&1; then echo "build failed"; tail -30 $E/build.log; exit 2; fi
rsync -a --delete --exclude target /verif/deepbin/ $E/deepbin/; sed -i "s#/repo/#$E/repo/#g" $E/deepbin/Cargo.toml
if ! (cd $E/deepbin && CARGO_NET_OFFLINE=true CARGO_TARGET_DIR=$E/target-deep cargo build --offline >$E/build-deep.log 2>&1); then echo "deepbin build failed"; tail -20 $E/build-deep.log; exit 2; fi
export VERIF_DEEP_BIN=$E/target-deep/debug/deep
cd /verif
for c in "$@"; do
  out=$($E/target/release/mc $c --tier $TIER 2>&1); code=$?
  echo "== $c exit=$code"; echo "$out" | grep -E "^VIOLATION|signature|MACHINERY|KNOWN" | head -8
done
cd $E/repo && git checkout -- .
