#!/bin/bash
# run the repository's suite (guard off) and commit /repo's working tree if it is green
cd /repo || exit 2
out=$(cargo test --workspace --no-fail-fast --offline 2>&1)
passed=$(echo "$out" | grep -E "^test result: ok" | sed -E 's/.*ok\. ([0-9]+) passed.*/\1/' | paste -sd+ | bc)
if echo "$out" | grep -qE "^test result: FAILED|^error"; then echo "$out" | grep -E "FAILED|failed|panicked|^error" -A5 | head -40; echo "SUITE RED"; exit 1; fi
echo "suite green: $passed passed"
git commit -qam "$1" && git log --oneline | head -1
