#!/bin/bash
# try_mutant.sh <patch.diff> <tier> <Cxx> [Cyy ...] : apply to /repo, run checks, undo.
P=$1; TIER=$2; shift; shift
cd /repo || exit 2
if [ -n "$(git status --porcelain)" ]; then echo "/repo is dirty"; exit 2; fi
git apply "$P" || exit 2
for c in "$@"; do
  out=$(/verif/check $c $TIER 2>&1); code=$?
  echo "== $c exit=$code"; echo "$out" | grep -E "^VIOLATION|signature|MACHINERY|KNOWN" | head -8
done
git -C /repo checkout -- .
# rebuild the harness against the restored tree so that no stale binary is left behind
(cd /verif/harness && CARGO_NET_OFFLINE=true CARGO_TARGET_DIR=/verif/target cargo build --release --offline >/dev/null 2>&1)
