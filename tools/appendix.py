#!/usr/bin/env python3
"""Regenerates 'Appendix B' of DESIGN.md from the evidence files (sites of the E1 checks) and from
harness/src/props/e2props.rs (instance families of the E2 checks)."""
import json,glob,re
src=open('/verif/harness/src/props/e2props.rs').read()
def fams(start,end):
    seg=src[src.index(start):src.index(end)]
    return sorted(set(re.findall(r'Instance::new\(&format!\("([a-z0-9-]+)#', seg)) | set(re.findall(r'drop_write_instances\(c, "([a-z-]+)"', seg)))
e2={'C05':fams('pub fn c05_instances','pub fn c05('),'C06':fams('pub fn c06_instances','pub fn c06('),'C07':fams('pub fn c07_instances','pub fn c07('),'C09':fams('pub fn c09_instances','pub fn c09('),'C19':fams('pub fn c19_instances','pub fn c19(')}
extra={'C05':['long-session','builder-tcp','scripted-reads'],'C06':['many-keep-alives-and-writes','dribble-writes','scripted-acceptance','stall-mid-frame','long-writes (thorough)'],'C07':['many-keep-alives-and-writes','reply-write-fault'],'C09':['builder-gate'],'C19':[]}
rows=[]
for f in sorted(glob.glob('/verif/evidence/C*.json')):
    e=json.load(open(f)); c=e['coverage']; pid=e['property_id']
    sites=c.get('sites')
    if sites:
        for s in sites: rows.append((pid, s.get('site'), s.get('cases'), (s.get('domain') or '')[:170]))
    elif pid in e2:
        rows.append((pid, ', '.join(e2[pid]), c.get('instances','-'), 'instance families of the explicit-state search (states %s, transitions %s in the quick tier)' % (c.get('states'), c.get('transitions'))))
        if extra[pid]: rows.append((pid, ', '.join(extra[pid]), '-', 'single executions run before the search (what state merging cannot reach: per-call and learned state, session length, real sockets)'))
    else:
        rows.append((pid, '(state search over the real objects + side sites)', c.get('states','-'), (c.get('rule') or '')[:170]))
out=["", "## Appendix B. Sites and families as built (generated from the quick-tier evidence files)", "",
     "One line per enumeration site (E1 checks: index-addressable, `--replay` takes site + index) and one or two per E2 check (instance families; single executions).",
     "Counts are quick-tier cases; the thorough tier widens the same sites.  Regenerate with `python3 tools/appendix.py`.", "",
     "| check | site / family | cases (quick) | what is enumerated |", "|---|---|---|---|"]
for r in rows: out.append(f"| {r[0]} | `{r[1]}` | {r[2]} | {str(r[3]).replace('|','/')} |")
p='/verif/DESIGN.md'
s=open(p).read()
marker="\n## Appendix B. Sites and families as built"
if marker in s: s=s[:s.index(marker)]
s=s.rstrip("\n")+"\n"+"\n".join(out)+"\n"
open(p,'w').write(s)
print(len(rows),"rows")
