#!/usr/bin/env python3
"""mk_task.py <wid> <crate> <hints> <different>  - writes /tmp/mut/<wid>.task.md from /tmp/mut/TEMPLATE.md.
The task file holds only the property text (title, statement, quantification), never anything from /verif."""
import json, sys

wid, crate, hints, different = sys.argv[1:5]
pid = wid[:3]
prop = None
for l in open("/verif/properties.jsonl"):
    j = json.loads(l)
    if j["id"] == pid:
        prop = j
t = open("/tmp/mut/TEMPLATE.md").read()
quant = prop["quantifier"]["text"]
out = (t.replace("{wid}", wid).replace("{title}", prop["title"]).replace("{statement}", prop["statement"])
        .replace("{quant}", quant).replace("{different}", different).replace("{crate}", crate).replace("{hints}", hints))
open(f"/tmp/mut/{wid}.task.md", "w").write(out)
print("wrote", f"/tmp/mut/{wid}.task.md", len(out))
