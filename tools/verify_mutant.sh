#!/bin/bash
# verify_mutant.sh <worktree> <crate: insim|insim_core|insim_pth|insim_smx>
# Confirms in the scratch worktree: suite green with the change; demo fails with it, passes without.
W=$1; CRATE=$2
export CARGO_TARGET_DIR=$W/target CARGO_NET_OFFLINE=true
cd $W || exit 2
rm -f $W/*/tests/seeded_demo.rs
git checkout -q -- . ; git apply SEEDED/patch.diff || exit 2
echo "== suite with the change"
cargo test --workspace --no-fail-fast --offline 2>&1 | grep -E "^test result" | awk '{p+=$4; f+=$6} END {print "passed="p" failed="f}'
mkdir -p $CRATE/tests; cp SEEDED/demo.rs $CRATE/tests/seeded_demo.rs
echo "== demo with the change"
cargo test -p $CRATE --test seeded_demo --offline 2>&1 | grep -E "^test result|error\[" | head -3
git apply -R SEEDED/patch.diff
echo "== demo without the change"
cargo test -p $CRATE --test seeded_demo --offline 2>&1 | grep -E "^test result|error\[" | head -3
git apply SEEDED/patch.diff
rm -f $CRATE/tests/seeded_demo.rs
