#!/bin/bash
# save_mutant.sh <id> <name> <crate> <needs> <caught>
id=$1; name=$2; crate=$3; needs=$4; caught=$5; d=/verif/seeded/$name; mkdir -p $d
cp /tmp/mut/$id/SEEDED/patch.diff $d/patch.diff; cp /tmp/mut/$id/SEEDED/demo.* $d/ 2>/dev/null; cp /tmp/mut/$id/SEEDED/notes.md $d/notes.md 2>/dev/null
python3 - "$id" "$name" "$crate" "$needs" "$caught" <<'PY'
import json,sys
id,name,crate,needs,caught=sys.argv[1:6]
pid=name[:3]
json.dump({"property":pid,"name":name,"breaks":pid,"needs_to_manifest":needs,
 "origin":"independent sub-agent given only the property text and a scratch worktree",
 "confirmed":{"existing_suite_with_change":"58 passed, 0 failed (cargo test --workspace --no-fail-fast --offline in the scratch worktree)",
              "demo_with_change":"fails","demo_without_change":"passes","demo_location":f"{crate}/tests/seeded_demo.rs (copy demo.rs there)"},
 "ran":[f"tools/verify_mutant.sh /tmp/mut/{id} {crate}", f"tools/try_mutant.sh seeded/{name}/patch.diff quick {pid}"],
 "detected_by":caught}, open(f"/verif/seeded/{name}/meta.json","w"), indent=1)
PY
