#!/usr/bin/env python3
"""Generates /verif/MANIFEST.json from the table below (single source of truth)."""
import json, subprocess

HOOK_COMMITS = ["57c9cc3"]

# id -> (level category, technique, level text, level note, design ref, engine)
CHECKS = {
 "C01": ("exploration", "bounded-exhaustive enumeration of packet values (per-field whole domains over two baselines) through the real encoder and decoder, both directions",
         "Every Gen case (73 kinds x B0/B1 x every field's bounded domain: all 8-bit values, 16-bit boundary sets in quick / whole 16-bit domains in thorough, 32-bit boundary + byte-lane sets, every enumerant, flag subsets, all nibble pairs, counts 0..max, list-element value sweeps at the first and at the last position, MAL/IPB element values, text) x both size modes is encoded, decoded and re-encoded: typed->wire->typed equality (Debug) and wire->typed->wire byte identity on every frame the encoder produced. Decoder-independent typed values cover the hand-written reader/writer pairs (ConInfo nibbles, SmallType durations, CimMode, RaceLaps, Fuel, Vehicle, allowed cars, multi-codepage MSO; ObjectInfo in UCO / JRR / AXM with every flags byte x documented object indices x every action), every kind's packet body through readers and writers of 1..7 bytes per call, every counted kind at 0, 1, 2 and the maximum number of elements in both modes, in-width multi-codepage text in all 30 text fields, and MSO with name / text / TextStart across code pages and user types.",
         "Beyond one-field sweeps, all pairs of fields (top level and inside one list element) are explored over boundary values, every enumerant and flag bit (thorough: whole bytes); triples of top-level fields as well (narrower value sets in kinds with more than 9 fields: both ends, top bit, every enumerant and flag bit, the values the protocol documents as special); typed values of the Gen site come from decoding in-domain specification frames.", "DESIGN.md §4 C01", "E1"),
 "C02": ("model_checking",
         "bounded-exhaustive enumeration of an explicit layout model (spec table) with full conformance replay through the real codec",
         "Model = an independent transcription of the InSim v9 / relay layouts (spec/insim_v9.spec) with a table-driven reference encoder. Every value of every field's specification domain (every enumerant, flag bit / subset, boundary integers, whole 8/16-bit domains in the thorough tier, text, counts 0..max) x 2 baselines x 2 size modes is replayed through Codec::decode and Codec::encode and compared field by field and byte by byte. A deviation shared by reader and writer, which round-trips and passes every unit test, is caught because the oracle is independent of the Rust declarations.",
         "Trusts the transcription in spec/insim_v9.spec (IP octet order and signedness of byte-identical fields deliberately not judged); typed values observed through serde rendering; text ASCII only here.",
         "DESIGN.md §4 C02", "E1+spec"),
 "C03": ("exploration", "bounded-exhaustive enumeration of encoder inputs (counts 0..255, texts 0..2N, decoded corpus) with a well-formedness oracle",
         "Every encoder output is checked to be exactly one well-formed frame (multiple of 4, within the mode limit, right size byte, right count byte, decodes completely to the same kind, leaves a successor intact). Inputs: all Gen packets obtained by decoding specification frames, element counts 0..=255 for the seven counted kinds (legal ones must succeed with the specification length, oversize ones must be refused, never wrapped), texts of every length 0..=2N in all 30 text fields, every decoder-accepted 1-byte mutation of every reference frame, MSO frames with every TextStart and high-byte fill, and a marker / double-byte corpus of MSO messages with every TextStart (re-encode must not abort); every ordered pair of encodes on one thread, encodes after a refused encode, histories of 2-3 encodes spread over two threads.",
         "Refusal may be Err or panic for hand-built packets; only panics on decoder-produced packets are violations.", "DESIGN.md §4 C03", "E1"),
 "C04": ("exploration", "deviation-bounded exhaustive enumeration of byte buffers against a reference framing model",
         "All 65536 (size,type) headers x fills x lengths, every 1-byte mutation (all 256 values) of every reference frame of every kind, 2-byte mutations of structure bytes (all values) and of any two of the first 12 bytes (alphabet, thorough), adjacent-pair mutations over all 65536 values (inside every string-valued field in quick, everywhere in thorough), every text field filled with repeated markers / resets / double-byte units to its end (text storms; also in 600- and 1020-byte compressed frames beyond the legal text size), every ordered pair of corpus frames through one codec (no memory between calls), every history of 2-3 decodes spread over two threads, protocol tokens (car codes, track codes, version text, markers, special object indices) written over every position of every frame, every truncation, all short buffers over a 16-symbol alphabet, in both modes: no panic, need-more leaves the buffer untouched, exactly the announced frame (>= 4 bytes) is removed, verdict independent of following bytes, successor frame intact.",
         "Byte strings at mutation distance > 2 from valid frames and longer than 8 bytes over the full byte alphabet are outside the bound.", "DESIGN.md §4 C04", "E1"),
 "C10": ("model_checking", "exhaustive exploration of the code-page automaton (all state x character transitions, all table cells, all short strings) against reference tables",
         "The encoder/decoder are automata over the current code page. All (state, character) transitions over the union repertoire of the ten Windows pages (reference tables from CPython's codecs) plus characters in no page, every single-byte table cell, agreement ratios of every double-byte table against every reference, every double-byte character with trail byte 0x5E followed by every marker, every repertoire character followed by every page switch / reserved character in every state, all strings <= 5/6 over class representatives (incl. double-byte characters with caret-like and lead-like trail bytes, '8', 'L'), all byte strings <= 4/5 over 22 decoder-relevant symbols (BOM shapes, markers, lead/trail bytes), all sequences of <= 5 / 6 tokens over 18 markers and bytes, units repeated up to 5000 times and around 2^15, 2^16, 2^17 on both the decode and the encode side (long strings), every unencodable astral character in front of its 16-bit alias, every ordered pair of conversions on one thread and every history of 2-3 conversions spread over two threads, and all ASCII strings <= 3 are checked.",
         "Reference tables are CPython's cp125x/cp932/cp936/cp949/cp950; DBCS tables compared by agreement ratio; private-use mappings excluded.", "DESIGN.md §4 C10", "E1"),
 "C11": ("exploration", "bounded-exhaustive enumeration of strings (lengths 0..2N, six families) in every text field, located by specification offsets",
         "For all 30 text-bearing fields: fixed fields occupy exactly N bytes = truncate-then-NUL-pad of the encoded text; variable fields are NUL-padded multiples of 4 within the maximum; MST/MSX/MSL/MTC end in NUL for every string; decoding stops at the first NUL (also for 16 hand-built field contents - NUL first, NUL caption NUL text NUL, half a double-byte character, half a marker - on both baselines, i.e. with every other field of the packet zero and non-zero); both size modes; the SMX track field.",
         "Content expectation uses the implementation's own code-page encoding (judged by C10).", "DESIGN.md §4 C11", "E1"),
 "C12": ("exploration", "exhaustive enumeration of all strings to a length bound over a class alphabet",
         "All strings of length <= 5 (quick) / <= 7 (thorough) over 16 class representatives (caret, digits, escape letters, reserved characters, code-page letters, Latin-1/E/J characters) all strings <= 3 over every reserved character and escape letter, every character of the ten pages' repertoire right behind a caret / an escaped caret / in front of a colour code, 10 units repeated around every power of two up to 2^17 and 100 000 / 196 610 times, every history of 2-3 calls spread over two threads: unescape(escape(s)) = s, no raw reserved character, escape -> encode -> decode -> unescape = s, strip = reference stripper and idempotent.",
         "Strings longer than the bound or mixing other characters are outside the bound.", "DESIGN.md §4 C12", "E1"),
 "C13": ("exploration", "complete enumeration of the 2^32 input domain",
         "Thorough: all 2^32 four-byte values against the InSim v9 car-id rule written independently (decode class, exact re-encode, display name, is_mod/is_builtin). Quick: all 2^24 values with byte 3 = 0 plus all alphanumeric triples x 256. Both: the same rule inside every packet that carries a car name (also with skin-like / mod-like names in every text field of that packet), every composition of short reads / interrupted reads / slow writers, every history of 2-3 decodes spread over two threads.",
         "none beyond the rule transcription", "DESIGN.md §4 C13", "E1"),
 "C14": ("exploration", "exhaustive enumeration of all enum variants and all shaped 6-byte strings",
         "All variants of enum Track (list extracted from the source at build time): wire form = code NUL-padded, decodes back, display = code, reverse/open flags from the code suffix, open => no distance, licence constant per area; 281 M shaped 6-byte strings (upper/lower case, junk in padding), every code at every offset between fill bytes, every 1-byte and alphabet 2-byte mutation of every wire form decode only if they are exactly a variant's wire form; every composition of short reads; every ordered pair of decodes on one thread and every history of 2-3 decodes spread over two threads.",
         "6-byte values outside the shaped space are not enumerated.", "DESIGN.md §4 C14", "E1"),
 "C15": ("exploration", "exhaustive enumeration of 8/16-bit wire domains and boundary sets of 32-bit fields, both directions",
         "All 256 race-length bytes, Laps(0..=2000), Hours(0..=300); all 23 time fields: every 16-bit wire value and 32-bit boundary/byte-lane sets through the full packet codec in both modes over both baselines (meaning = w x resolution, exact re-encode), encode side floors to the resolution, out-of-range durations (up to Duration::MAX, incl. aliases of in-range values) are refused; the public conversion helpers over their complete 16- and (thorough) 32-bit wire domains; every kind's packet body through Packet's public BinRead / BinWrite with readers and writers of 1..7 bytes per call; the ISI interval through handshake() of both implementations (10 intervals x 5 flag sets x 2 modes: exact on the wire or refused with nothing written).",
         "32-bit fields are covered on boundary sets, not completely.", "DESIGN.md §4 C15", "E1"),
 "C16": ("exploration", "exhaustive enumeration of strings to a length bound and of all pairs/triples of parsed versions",
         "All strings <= 6/7 over a 13-symbol alphabet (no panic, watchdog for non-termination, print-reparse equality, letter case-insensitivity), runs of 0..=200 of one symbol (incl. multi-byte numerals) in four frames, a grid of two run lengths (fraction zeros 0..=64 x revision digits 0..=24) in well-formed texts, histories of 2-3 parses spread over two threads, every non-negative finite f32 as the number (thorough: all 2^31; quick: every 2048th) printed and re-parsed, all 8-byte wire forms of LFS's shape through the VER codec, all ordered pairs of parsed versions (antisymmetry, consistency with ==, number-letter-revision rule) and all triples of a stratified subset (transitivity).",
         "A 20 s per-case watchdog stands in for a step budget.", "DESIGN.md §4 C16", "E1"),
 "C17": ("fault_enumeration", "exhaustive enumeration of truncation points, single-byte substitutions and hostile count values over generated and shipped files",
         "Generated PTH/SMX files with all count combinations 0..=2 and NaN/extreme payloads, every count 0..=8192 (quick) / 40000 (thorough) in each count field on its own, a power-of-two and a byte-size ladder (tables of 64 KiB..32 MiB around every power of two), a grid of four counts at once (7 x 41 x 41 x 3), objects of different sizes in one file (either side of 64 KiB), every composition of short reads / short writes, reader and writer at stream offsets 0..=7, histories of 2-3 parses spread over two threads, plus the shipped files: byte-exact write(parse(f)), stable re-parse; every strict prefix rejected; every single-byte substitution of files < 200 B parses without panic and within an allocation bound (counting allocator); every count field x 7 hostile values in a child process under RLIMIT_AS; from_file/from_pathbuf agree with read.",
         "Truncation of the 926 kB shipped SMX is exhaustive only at both ends (quadratic cost).", "DESIGN.md §4 C17", "E1"),
}


E2_CHECKS = {
 "C05": ("model_checking", "explicit-state search (stateright BFS) whose transition function re-executes the real connection over a scripted transport; all partitions of the stream via state merging",
         "Every partition of every short inbound stream (all sequences <= 3/4 over 6-8 frame kinds, both modes, both implementations) into transport reads is covered by merging states on (receive buffer, spare capacity, stream position, budgets); injected transient read errors (4 kinds, budget 1-2), EOF at every point and a 30 s clock step at any suspension (tokio); sessions longer than the 6120-byte buffer, including a repeating pattern of every short frame kind shifted through every alignment with the last byte of the allocation and delivered as much at a time as the connection takes; frames whose parser wants more or less than they announce (short SMALL, MSO without NUL, over-running MCI) sharing reads with their successors; 40 sessions over real loopback TCP through connections made by the public Builder (blocking / tokio x mode x nodelay x 5 ways the peer writes); sessions delivered 1, 2 and 7 bytes per read for megabytes; and one connection per implementation and mode that receives 2^32 + 2^20 bytes (thorough; 2^24 + 2^16 in quick) of whole frames, with reads as large as asked and of 7 bytes (library built with overflow checks). On every transition the results so far must equal the reference read loop's (one result per frame, in order, errors do not disturb successors, nothing lost after a transient error, Disconnected after EOF).",
         "Per-frame content expectation = the real codec on that frame alone. Long sessions use boundary-relative chunk sizes, not every k.", "DESIGN.md §4 C05", "E2"),
 "C06": ("model_checking", "explicit-state search over all transport acceptance patterns of the real write path",
         "For packet sequences over {4, 8, 12, 68, 228-byte frames}, every acceptance count at every transport write call, every kind's B1 packet and the largest frames (252..1016 bytes) through a transport that takes 1 / 2 / 3 / 7 bytes per call all the way (one execution each), 105 000 writes on one connection, packets the codec refuses part-way among the writes (the refusal is reported, the wire never hears of it, the neighbours go out whole), 'not ready' (Pending for tokio, Interrupted for blocking; once, twice and 300 times in a row) and 30 s clock steps while a tokio write is suspended are explored on both implementations and modes; on every transition the accumulated bytes are a prefix of the concatenated frames and complete when write() returns Ok.",
         "Acceptance counts for frames > 12 bytes are {1,2,3,4,n/2,n-1,n}.", "DESIGN.md §4 C06", "E2"),
 "C07": ("model_checking", "explicit-state search over received-packet histories, segmentations and reply-side acceptance patterns",
         "Every single TINY (sub-type byte x request id), every kind's frame between two keep-alives, all sequences <= 3/4 over 5 frame kinds with every partition, the reply split/delayed on the write side, and sequences over {keep-alive, VER 9, VER 8, SMALL} with the version gate on, the caller's own reads and writes dropped around a keep-alive (the packet written being a SMALL, an ISI, a reply-shaped TINY, every TINY sub-type incl. Close, every kind's B1 packet), a write or handshake the codec refuses part-way before the reads, 70 000 keep-alives on one connection, and any number of 30 s clock steps while a reply waits for a transport that is not ready: outbound bytes are exactly one pong per keep-alive handed over, accepted before the hand-over, and nothing for anything else.",
         "quick tier samples request ids for non-zero sub-types (all 256 for sub-type 0); thorough covers all.", "DESIGN.md §4 C07", "E2"),
 "C09": ("model_checking", "explicit-state search over version values x gate setting x position x implementation",
         "All 256 InSim version values x verify on/off x {blocking, tokio} x 4 positions x 2 modes, whole and byte-by-byte delivery, pairs of VER packets (the gate applies to every one, not the first), the gate as set through the public builder (tcp and udp), a handshake (default and all-fields-changed ISI) or one written packet of every kind in front of the reads, VER-shaped frames announcing 24, 28 and 80 bytes delivered byte by byte, 300 VERs on one connection, every request id a VER can carry x 5 handshakes (none, ISI request id 0 / 1 / 7 / 255), plus every other kind with the gate on: delivered iff (gate off or version 9), otherwise IncompatibleVersion(v); later packets unaffected.",
         "none", "DESIGN.md §4 C09", "E2"),
 "C19": ("model_checking", "explicit-state search over readiness scripts and cancellation points of the real async read future (polled by hand under a paused clock)",
         "For sequences over {keep-alive, SMALL, MSO}: at every suspension point the environment may deliver any k bytes / stay pending / accept any k reply bytes, and the caller may drop the read() future and start a new one (budget 2/4), or drop it and call write() instead (and drop that write too); 30 s clock steps below the 90 s timeout; the same drops anywhere in 9-16 kB sessions (buffer nearly full, reclaim): the packets returned by all completed reads equal the uninterrupted session's and the outbound bytes are always a whole number of pongs plus a prefix of the one in progress.",
         "Cancellation of write() is outside the property.", "DESIGN.md §4 C19", "E2"),
}
CHECKS.update(E2_CHECKS)
HOOK_COMMITS.append("1b683f3")

CHECKS["C08"] = ("model_checking", "explicit-state search over (receive buffer, spare capacity, adaptor buffer) with every transition executed on real loopback UDP sockets in lock-step",
         "States are the connection's buffer/spare-capacity/adaptor-buffer triples reached by datagram histories (both adaptors, both modes); actions are datagrams of 6-16 compositions (1..255 packets, 4..1020 bytes) bursts of 2-3 datagrams queued before the connection reads, and a transient socket error (port unreachable) in any state; every spare-capacity value (multiples of 4 from 6120 down to 0 and across the reclaim) is reached and every composition is tried in it; oracle: the packets read equal the frames of the datagram just sent; every kind's packet (both modes, up to the largest counted frames) leaves as exactly one datagram holding its frame; every composition again through connections made by the public Builder (blocking / tokio x mode x with / without a local address).",
         "Loopback UDP, one datagram or one burst in flight; 400 ms search watchdog, witnesses re-confirmed with a 2 s watchdog.", "DESIGN.md §4 C08", "E2")

CHECKS["C18"] = ("model_checking", "explicit-state search over all reachable states of the real Builder (setter histories replayed on fresh objects) against a reference builder, plus loopback connects",
         "All builder states reachable with a 34-setter (quick) / 47-setter (thorough) alphabet - each flag helper on/off, wholesale flag replacement (incl. unnamed bits), prefix / interval / name / password / request id present or absent, tcp, udp without a local address and with 3 / 6 (remote, local) address pairs across both IP families, compressed, uncompressed, relay - are explored; on every transition isi() must not panic and must equal the reference builder's ISI (documented defaults, later calls override earlier ones). 480 connects (tcp / udp without / with local address - IPv4, IPv6 wildcard towards an IPv4 peer, IPv6 loopback - x mode x blocking/tokio x 12 ISI configurations x mode chosen first / last) check that the peer receives exactly the encoded ISI and nothing else.",
         "Setter arguments are limited to 2-3 representatives each.", "DESIGN.md §4 C18", "E2")
CHECKS["C20"] = ("model_checking", "exhaustive enumeration of message schedules (partitions, interleavings, read sizes) executed on real loopback WebSocket connections",
         "Adaptor level: every partition of an 8/12-byte stream into binary messages x 8 caller read sizes, text / ping / empty-binary messages inserted at every boundary, 300 non-binary messages in a row, messages larger than the 1020-byte adaptor buffer (up to 200 000 bytes), 70 000 messages on one connection: bytes read = concatenated binary payloads, close = 0-byte read. Connection level: frame sequences x message partitions give exactly the TCP reference results and Disconnected on close; every kind's packet (both modes, up to the largest counted frames), sequences of writes and writes against a peer that does not read until the writer stalls leave as exactly one binary message per packet holding its frame; while the application's writes are blocked, a packet behind {nothing, a ping, a text, a pong, an empty binary message, three pings, ping + text + ping} is still delivered.",
         "Loopback TCP with a tungstenite server inside the harness; 2 s watchdog on every await.", "DESIGN.md §4 C20", "E2")

NOT_BUILT = {}

def main():
    checks = []
    for pid, (cat, tech, text, note, ref, engine) in sorted(CHECKS.items()):
        checks.append({
            "property_id": pid,
            "quick_cmd": f"./check {pid} quick",
            "thorough_cmd": f"./check {pid} thorough",
            "evidence_file": f"/verif/evidence/{pid}.json",
            "replay_cmd_template": f"./check {pid} quick --replay {{path}}",
            "engine": engine,
            "level_claimed": {"category": cat, "text": text, "design_ref": ref},
            "level_note": note,
            "technique": tech,
        })
    props = [json.loads(l)["id"] for l in open("/verif/properties.jsonl")]
    na = []
    for p in props:
        if p not in CHECKS:
            na.append({"property_id": p, "reason": NOT_BUILT.get(p, "check not built yet in this round (planned, see DESIGN.md §4); not claimed until it runs")})
    m = {
        "version": 1,
        "setup_cmd": "./setup.sh",
        "hooks": {
            "guard": "cargo feature verif_hooks on crate insim (default off)",
            "enable": "the harness crate /verif/harness depends on /repo/insim by path with features = [\"verif_hooks\", \"serde\", \"pth\", \"smx\"]; ./check rebuilds it from /repo's working tree",
            "baseline_off_cmd": "cd /repo && cargo test --workspace --no-fail-fast --offline",
            "source_commits": HOOK_COMMITS,
            "add_only": True,
        },
        "engines": [
            {"name": "E1", "path": "/verif/harness/src/report.rs", "serves_properties": [p for p in CHECKS if CHECKS[p][5].startswith("E1")], "kind_free_text": "bounded-exhaustive, index-addressable, sharded enumeration of input spaces against reference models (violations collected by witness signature)"},
            {"name": "E2", "path": "/verif/harness/src/e2", "serves_properties": [p for p in CHECKS if CHECKS[p][5].startswith("E2")], "kind_free_text": "explicit-state search (stateright BFS) whose transition function re-executes the real connection code over scripted transports / loopback sockets"},
        ],
        "checks": checks,
        "not_applicable": na,
        "notes": "exit 0 held / 1 VIOLATION / >=2 machinery failure. known_findings.json lists recorded findings and fixed defects.",
    }
    json.dump(m, open("/verif/MANIFEST.json", "w"), indent=1)
    print("wrote MANIFEST.json with", len(checks), "checks;", len(na), "not claimed")

main()
