#!/usr/bin/env python3
"""Generates /verif/MANIFEST.json from the table below (single source of truth)."""
import json, subprocess

HOOK_COMMITS = ["57c9cc3"]

# id -> (level category, technique, level text, level note, design ref, engine)
CHECKS = {
 "C02": ("model_checking",
         "bounded-exhaustive enumeration of an explicit layout model (spec table) with full conformance replay through the real codec",
         "Model = an independent transcription of the InSim v9 / relay layouts (spec/insim_v9.spec) with a table-driven reference encoder. Every value of every field's specification domain (every enumerant, flag bit / subset, boundary integers, whole 8/16-bit domains in the thorough tier, text, counts 0..max) x 2 baselines x 2 size modes is replayed through Codec::decode and Codec::encode and compared field by field and byte by byte. A deviation shared by reader and writer, which round-trips and passes every unit test, is caught because the oracle is independent of the Rust declarations.",
         "Trusts the transcription in spec/insim_v9.spec (IP octet order and signedness of byte-identical fields deliberately not judged); typed values observed through serde rendering; text ASCII only here.",
         "DESIGN.md §4 C02", "E1+spec"),
}

NOT_BUILT = {}

def main():
    checks = []
    for pid, (cat, tech, text, note, ref, engine) in sorted(CHECKS.items()):
        checks.append({
            "property_id": pid,
            "quick_cmd": f"./check {pid} quick",
            "thorough_cmd": f"./check {pid} thorough",
            "evidence_file": f"/verif/evidence/{pid}.json",
            "replay_cmd_template": f"./check {pid} quick --replay {{path}}",
            "engine": engine,
            "level_claimed": {"category": cat, "text": text, "design_ref": ref},
            "level_note": note,
            "technique": tech,
        })
    props = [json.loads(l)["id"] for l in open("/verif/properties.jsonl")]
    na = []
    for p in props:
        if p not in CHECKS:
            na.append({"property_id": p, "reason": NOT_BUILT.get(p, "check not built yet in this round (planned, see DESIGN.md §4); not claimed until it runs")})
    m = {
        "version": 1,
        "setup_cmd": "./setup.sh",
        "hooks": {
            "guard": "cargo feature verif_hooks on crate insim (default off)",
            "enable": "the harness crate /verif/harness depends on /repo/insim by path with features = [\"verif_hooks\", \"serde\", \"pth\", \"smx\"]; ./check rebuilds it from /repo's working tree",
            "baseline_off_cmd": "cd /repo && cargo test --workspace --no-fail-fast --offline",
            "source_commits": HOOK_COMMITS,
            "add_only": True,
        },
        "engines": [
            {"name": "E1", "path": "/verif/harness/src/report.rs", "serves_properties": [p for p in CHECKS if CHECKS[p][5].startswith("E1")], "kind_free_text": "bounded-exhaustive, index-addressable, sharded enumeration of input spaces against reference models (violations collected by witness signature)"},
            {"name": "E2", "path": "/verif/harness/src/e2", "serves_properties": [p for p in CHECKS if CHECKS[p][5].startswith("E2")], "kind_free_text": "explicit-state search (stateright BFS) whose transition function re-executes the real connection code over scripted transports / loopback sockets"},
        ],
        "checks": checks,
        "not_applicable": na,
        "notes": "exit 0 held / 1 VIOLATION / >=2 machinery failure. known_findings.json lists recorded findings and fixed defects.",
    }
    json.dump(m, open("/verif/MANIFEST.json", "w"), indent=1)
    print("wrote MANIFEST.json with", len(checks), "checks;", len(na), "not claimed")

main()
