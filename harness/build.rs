// Extracts the variant list of `pub enum Track` from the repository source so that a new
// variant is covered without editing the harness (C14).
use std::{env, fs, path::Path};

fn main() {
    let src = "/repo/insim_core/src/track.rs";
    println!("cargo:rerun-if-changed={src}");
    let text = fs::read_to_string(src).expect("track.rs");
    let start = text.find("pub enum Track {").expect("enum Track");
    let body = &text[start + "pub enum Track {".len()..];
    let end = body.find("\n}").expect("end of enum");
    let mut variants = vec![];
    for line in body[..end].lines() {
        let l = line.trim();
        if l.is_empty() || l.starts_with('#') || l.starts_with("//") {
            continue;
        }
        let name = l.trim_end_matches(',').trim();
        if name.chars().all(|c| c.is_ascii_alphanumeric()) && !name.is_empty() {
            variants.push(name.to_string());
        }
    }
    let mut out = String::from("pub fn all_tracks() -> Vec<(&'static str, insim::core::track::Track)> {\n    vec![\n");
    for v in &variants {
        out.push_str(&format!("        (\"{v}\", insim::core::track::Track::{v}),\n"));
    }
    out.push_str("    ]\n}\n");
    let dest = Path::new(&env::var("OUT_DIR").unwrap()).join("tracks.rs");
    fs::write(dest, out).unwrap();
}
