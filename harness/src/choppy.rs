//! A reader whose `read` returns short counts: the environment answer "fewer bytes than asked for".
//! `mask` bit j set = a read never crosses the gap behind byte j (counted from the start of the
//! data); past bit 63, or with mask 0, reads are capped at `chunk` bytes.

use std::io::{Read, Result, Seek, SeekFrom};

#[derive(Debug, Clone)]
pub struct Choppy {
    data: Vec<u8>,
    pos: usize,
    mask: u64,
    chunk: usize,
    pub reads: usize,
    /// every n-th read call fails with ErrorKind::Interrupted first (0 = never): std's contract says retry
    pub interrupt_every: usize,
    /// bit k set = the k-th read call (counted from 0, first 64 calls) fails with ErrorKind::Interrupted
    pub interrupt_calls: u64,
}

impl Choppy {
    pub fn new(data: Vec<u8>, mask: u64, chunk: usize) -> Choppy {
        Choppy { data, pos: 0, mask, chunk: chunk.max(1), reads: 0, interrupt_every: 0, interrupt_calls: 0 }
    }
    pub fn position(&self) -> usize {
        self.pos
    }
}

impl Read for Choppy {
    fn read(&mut self, buf: &mut [u8]) -> Result<usize> {
        self.reads += 1;
        if self.interrupt_every > 0 && self.reads % self.interrupt_every == 0 {
            return Err(std::io::Error::new(std::io::ErrorKind::Interrupted, "verif: interrupted"));
        }
        if self.reads <= 64 && self.interrupt_calls & (1u64 << (self.reads - 1)) != 0 {
            return Err(std::io::Error::new(std::io::ErrorKind::Interrupted, "verif: interrupted"));
        }
        let left = self.data.len().saturating_sub(self.pos);
        let mut n = buf.len().min(left).min(self.chunk);
        if n == 0 {
            return Ok(0);
        }
        // stop at the first cut inside [pos, pos + n)
        for j in self.pos..(self.pos + n).saturating_sub(1) {
            if j < 64 && self.mask & (1u64 << j) != 0 {
                n = j + 1 - self.pos;
                break;
            }
        }
        buf[..n].copy_from_slice(&self.data[self.pos..self.pos + n]);
        self.pos += n;
        Ok(n)
    }
}

impl Seek for Choppy {
    fn seek(&mut self, to: SeekFrom) -> Result<u64> {
        let np: i64 = match to {
            SeekFrom::Start(x) => x as i64,
            SeekFrom::Current(d) => self.pos as i64 + d,
            SeekFrom::End(d) => self.data.len() as i64 + d,
        };
        if np < 0 {
            return Err(std::io::Error::new(std::io::ErrorKind::InvalidInput, "seek before start"));
        }
        self.pos = np as usize;
        Ok(self.pos as u64)
    }
}

/// A writer that accepts at most `chunk` bytes per `write` call (and may be interrupted).
#[derive(Debug, Clone)]
pub struct ChoppyWriter {
    pub data: Vec<u8>,
    pos: usize,
    chunk: usize,
    calls: usize,
    pub interrupt_every: usize,
}

impl ChoppyWriter {
    pub fn new(chunk: usize, interrupt_every: usize) -> ChoppyWriter {
        ChoppyWriter { data: vec![], pos: 0, chunk: chunk.max(1), calls: 0, interrupt_every }
    }
}

impl std::io::Write for ChoppyWriter {
    fn write(&mut self, buf: &[u8]) -> Result<usize> {
        self.calls += 1;
        if self.interrupt_every > 0 && self.calls % self.interrupt_every == 0 {
            return Err(std::io::Error::new(std::io::ErrorKind::Interrupted, "verif: interrupted"));
        }
        let n = buf.len().min(self.chunk);
        if self.pos + n > self.data.len() {
            self.data.resize(self.pos + n, 0);
        }
        self.data[self.pos..self.pos + n].copy_from_slice(&buf[..n]);
        self.pos += n;
        Ok(n)
    }
    fn flush(&mut self) -> Result<()> {
        Ok(())
    }
}

impl Seek for ChoppyWriter {
    fn seek(&mut self, to: SeekFrom) -> Result<u64> {
        let np: i64 = match to {
            SeekFrom::Start(x) => x as i64,
            SeekFrom::Current(d) => self.pos as i64 + d,
            SeekFrom::End(d) => self.data.len() as i64 + d,
        };
        if np < 0 {
            return Err(std::io::Error::new(std::io::ErrorKind::InvalidInput, "seek before start"));
        }
        self.pos = np as usize;
        Ok(self.pos as u64)
    }
}
