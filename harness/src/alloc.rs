//! Counting global allocator: per-thread current / peak bytes, used by C17 to bound what a parse
//! may allocate relative to its input.
use std::{alloc::{GlobalAlloc, Layout, System}, cell::Cell};

pub struct Counting;

thread_local! {
    static CUR: Cell<usize> = const { Cell::new(0) };
    static PEAK: Cell<usize> = const { Cell::new(0) };
    static LARGEST: Cell<usize> = const { Cell::new(0) };
}

unsafe impl GlobalAlloc for Counting {
    unsafe fn alloc(&self, layout: Layout) -> *mut u8 {
        let _ = CUR.try_with(|c| {
            let v = c.get().saturating_add(layout.size());
            c.set(v);
            let _ = PEAK.try_with(|p| if v > p.get() { p.set(v) });
            let _ = LARGEST.try_with(|l| if layout.size() > l.get() { l.set(layout.size()) });
        });
        System.alloc(layout)
    }
    unsafe fn dealloc(&self, ptr: *mut u8, layout: Layout) {
        let _ = CUR.try_with(|c| c.set(c.get().saturating_sub(layout.size())));
        System.dealloc(ptr, layout)
    }
    unsafe fn realloc(&self, ptr: *mut u8, layout: Layout, new_size: usize) -> *mut u8 {
        let _ = CUR.try_with(|c| {
            let v = c.get().saturating_sub(layout.size()).saturating_add(new_size);
            c.set(v);
            let _ = PEAK.try_with(|p| if v > p.get() { p.set(v) });
            let _ = LARGEST.try_with(|l| if new_size > l.get() { l.set(new_size) });
        });
        System.realloc(ptr, layout, new_size)
    }
}

/// Run f and return (result, peak bytes allocated above the level at entry, largest single request).
pub fn measure<T>(f: impl FnOnce() -> T) -> (T, usize, usize) {
    let base = CUR.with(|c| c.get());
    PEAK.with(|p| p.set(base));
    LARGEST.with(|l| l.set(0));
    let r = f();
    let peak = PEAK.with(|p| p.get());
    (r, peak.saturating_sub(base), LARGEST.with(|l| l.get()))
}
