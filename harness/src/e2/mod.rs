//! E2 - explicit-state search over the real transition function.
//!
//! A state is the environment history that reaches it; `next_state` builds fresh real objects
//! (a `Framed` over a scripted transport), replays the whole history on them, judges the
//! execution against the reference model and reads the canonical form of the reached state.
//! stateright's BFS does the frontier / deduplication / parallelism.  Violations are collected in
//! a side table keyed by witness signature (stateright's discoveries would stop the search).

pub mod judge;
pub mod world;

use std::{
    collections::BTreeMap,
    hash::{Hash, Hasher},
    sync::{
        atomic::{AtomicU64, Ordering},
        Arc, Mutex,
    },
};

use insim::Packet;
use serde_json::{json, Value};
use stateright::{Checker, Model, Property};

pub use world::{Act, Impl, RunResult, Side};

/// What the driver does with the connection.
#[derive(Clone, Debug)]
pub enum Program {
    /// call read() until the environment has no scripted answer left
    ReadLoop,
    /// write these packets one after the other
    Writes(Vec<Packet>),
    /// a fixed sequence of calls: None = read(), Some(p) = write(p) (tokio driver only)
    Ops(Vec<Option<Packet>>),
}

#[derive(Clone, Debug)]
pub enum Chunks {
    /// every k in 1..=remaining
    All,
    /// {1, to-next-frame-boundary-1, to-boundary, to-boundary+1, one full extra frame, everything}
    Boundary,
    /// whole stream in one read, or byte by byte
    WholeOrBytes,
    /// as much as the connection will take (fills the receive buffer to its last byte); with
    /// `true` also exactly up to the next frame boundary
    Fill(bool),
}

#[derive(Clone, Debug)]
pub struct Instance {
    pub label: String,
    pub imp: Impl,
    pub compressed: bool,
    pub verify_version: bool,
    pub program: Program,
    /// inbound frames (raw bytes); the inbound stream is their concatenation
    pub frames: Vec<Vec<u8>>,
    pub chunks: Chunks,
    pub fail_budget: u8,
    pub fail_kinds: Vec<u8>,
    pub allow_eof: bool,
    /// false: the write side accepts everything offered (default environment answer);
    /// true: every write call is a choice point
    pub script_writes: bool,
    pub pending_budget: u8,
    pub cancel_budget: u8,
    /// async only: how many 30 s clock steps the environment may take per session
    pub tick_budget: u8,
    /// the clock steps may add up to the documented read timeout (instances without scripted writes only):
    /// the read then returns Err(Timeout) like any transient error - nothing buffered is lost
    pub allow_timeout: bool,
    /// how many storms (300 not-ready answers in a row) the environment may raise per session
    pub storm_budget: u8,
    /// handshake(isi) is performed (and its bytes accepted and set aside) before the program starts
    pub handshake: Option<insim::insim::Isi>,
    /// Ops programs: the caller may also drop a pending write() future (the packet being written is
    /// then torn by the caller's own doing; keep-alive replies must stay whole and single all the same)
    pub cancel_writes: bool,
    /// packets written (and accepted whole, their bytes set aside) before the program starts
    pub preamble: Vec<insim::Packet>,
    /// Ops programs: a written Packet::Isi goes through handshake() instead of write()
    pub isi_via_handshake: bool,
    /// the write half offers only {1 byte, everything} (long write sequences)
    pub accept_few: bool,
    /// the async transport supports gathering writes (TcpStream does)
    pub vectored: bool,
    pub init_unfilled: bool,
    pub flush_style: u8,
    /// the async transport's flush needs this many extra polls after a write (websocket, TLS)
    pub slow_flush: u8,
    /// compare with the other implementation on histories both can execute
    pub differential: bool,
}

impl Instance {
    pub fn inbound(&self) -> Vec<u8> {
        self.frames.concat()
    }
    pub fn new(label: &str, imp: Impl, compressed: bool, frames: Vec<Vec<u8>>) -> Instance {
        Instance {
            label: label.to_string(),
            imp,
            compressed,
            verify_version: false,
            program: Program::ReadLoop,
            frames,
            chunks: Chunks::All,
            fail_budget: 0,
            fail_kinds: vec![0, 1, 2, 3],
            allow_eof: true,
            script_writes: false,
            pending_budget: 0,
            cancel_budget: 0,
            tick_budget: 0,
            allow_timeout: false,
            storm_budget: 0,
            handshake: None,
            cancel_writes: false,
            preamble: vec![],
            isi_via_handshake: false,
            accept_few: false,
            vectored: false,
            init_unfilled: false,
            flush_style: 0,
            slow_flush: 0,
            differential: false,
        }
    }
}

#[derive(Clone, Debug)]
pub struct St {
    pub inst: u32,
    pub hist: Vec<Act>,
    pub canon: u64,
    pub canon2: u64,
    pub enabled: Vec<Act>,
}

impl Hash for St {
    fn hash<H: Hasher>(&self, h: &mut H) {
        self.inst.hash(h);
        self.canon.hash(h);
        self.canon2.hash(h);
    }
}
impl PartialEq for St {
    fn eq(&self, o: &Self) -> bool {
        self.inst == o.inst && self.canon == o.canon && self.canon2 == o.canon2
    }
}

#[derive(Clone, Debug)]
pub struct Found {
    pub sig: String,
    pub detail: String,
    pub inst: u32,
    pub hist: Vec<Act>,
}

pub type Judge = dyn Fn(&Instance, &[Act], &RunResult) -> Vec<(String, String)> + Send + Sync;

pub struct E2Model {
    pub property: String,
    pub instances: Arc<Vec<Instance>>,
    pub judge: Arc<Judge>,
    pub found: Arc<Mutex<BTreeMap<String, Found>>>,
    pub transitions: Arc<AtomicU64>,
    pub classes: Arc<Mutex<BTreeMap<String, u64>>>,
    pub samples: Arc<Mutex<Vec<Value>>>,
}

/// (ticks taken, ticks in a row since the last transport event / cancel)
fn ticks(hist: &[Act]) -> (u8, u8) {
    let total = hist.iter().filter(|a| matches!(a, Act::Tick)).count() as u8;
    let mut streak = 0u8;
    for a in hist.iter().rev() {
        match a {
            Act::Tick => streak += 1,
            Act::ReadPending | Act::WritePending | Act::ReadStorm | Act::WriteStorm => {},
            _ => break,
        }
    }
    (total, streak)
}

fn storms(hist: &[Act]) -> u8 {
    hist.iter().filter(|a| matches!(a, Act::ReadStorm | Act::WriteStorm | Act::FailStorm(_))).count() as u8
}

fn spend(hist: &[Act]) -> (u8, u8, u8, bool) {
    let mut fails = 0;
    let mut pend = 0;
    let mut canc = 0;
    let mut eof = false;
    for a in hist {
        match a {
            Act::ReadFail(_) => fails += 1,
            Act::ReadPending | Act::WritePending => pend += 1,
            Act::Cancel => canc += 1,
            Act::Eof => eof = true,
            _ => {},
        }
    }
    (fails, pend, canc, eof)
}

fn enabled(inst: &Instance, hist: &[Act], r: &RunResult) -> Vec<Act> {
    let mut out = vec![];
    if r.finished || r.harness_error.is_some() || r.panicked.is_some() {
        return out;
    }
    let (fails, pend, canc, eof) = spend(hist);
    if eof {
        return out;
    }
    let is_async = inst.imp == Impl::Tokio;
    if r.yielded {
        out.push(Act::Resume);
        let (_, _, canc, _) = spend(hist);
        if canc < inst.cancel_budget && (r.suspended_in_read || inst.cancel_writes) {
            out.push(Act::Cancel);
        }
        return out;
    }
    if is_async && r.asked.is_some() {
        let (total, streak) = ticks(hist);
        // never let the documented read timeout elapse: (streak + 1) steps must stay below it
        let reach = (streak as u64 + 1) * super::e2::world::TICK_SECS;
        // (no timer runs while the connection waits on the write half - unless the call is a handshake, which has its own)
        let on_write = r.asked == Some(Side::Write) && !inst.isi_via_handshake && inst.handshake.is_none();
        if total < inst.tick_budget && (on_write || reach < insim::net::DEFAULT_TIMEOUT_SECS || (inst.allow_timeout && !inst.script_writes && reach < insim::net::DEFAULT_TIMEOUT_SECS + super::e2::world::TICK_SECS)) {
            out.push(Act::Tick);
        }
    }
    match r.asked {
        Some(Side::Read) => {
            let inbound_len: usize = inst.frames.iter().map(|f| f.len()).sum();
            let remaining = inbound_len - r.pos;
            if remaining > 0 {
                let mut ks: Vec<usize> = vec![];
                match inst.chunks {
                    Chunks::All => ks.extend(1..=remaining),
                    Chunks::WholeOrBytes => {
                        ks.push(1);
                        ks.push(remaining);
                    },
                    Chunks::Fill(step) => {
                        ks.push(remaining);
                        if step {
                            let mut acc = 0usize;
                            for f in inst.frames.iter() {
                                acc += f.len();
                                if acc > r.pos {
                                    ks.push(acc - r.pos);
                                    break;
                                }
                            }
                        }
                    },
                    Chunks::Boundary => {
                        // distance to the next frame boundary in the inbound stream
                        let mut acc = 0usize;
                        let mut to_b = remaining;
                        let mut next_len = 0usize;
                        for (i, f) in inst.frames.iter().enumerate() {
                            acc += f.len();
                            if acc > r.pos {
                                to_b = acc - r.pos;
                                next_len = inst.frames.get(i + 1).map(|f| f.len()).unwrap_or(0);
                                break;
                            }
                        }
                        // single bytes only next to a frame boundary (first byte of a frame, last
                        // byte of a frame): every position of a long stream would otherwise be a state
                        let at_boundary = {
                            let mut acc2 = 0usize;
                            let mut hit = r.pos == 0;
                            for f in inst.frames.iter() {
                                acc2 += f.len();
                                if acc2 == r.pos { hit = true; }
                            }
                            hit
                        };
                        if at_boundary || to_b <= 2 {
                            ks.push(1);
                        }
                        if to_b > 1 {
                            ks.push(to_b - 1);
                        }
                        ks.push(to_b);
                        ks.push(to_b + 1);
                        if next_len > 0 {
                            ks.push(to_b + next_len);
                        }
                        ks.push(remaining);
                    },
                }
                ks.retain(|k| *k >= 1 && *k <= remaining);
                ks.sort();
                ks.dedup();
                out.extend(ks.into_iter().map(Act::Deliver));
            }
            if fails < inst.fail_budget {
                for k in &inst.fail_kinds {
                    out.push(Act::ReadFail(*k));
                }
            }
            if inst.allow_eof {
                out.push(Act::Eof);
            }
            if is_async && pend < inst.pending_budget {
                out.push(Act::ReadPending);
            }
            if is_async && storms(hist) < inst.storm_budget {
                out.push(Act::ReadStorm);
            }
            if storms(hist) < inst.storm_budget && inst.fail_budget > 0 {
                // a storm of transient errors (first and last of the instance's kinds)
                if let Some(k) = inst.fail_kinds.first() {
                    out.push(Act::FailStorm(*k));
                }
                if inst.fail_kinds.len() > 1 {
                    out.push(Act::FailStorm(*inst.fail_kinds.last().unwrap()));
                }
            }
            if is_async && canc < inst.cancel_budget {
                out.push(Act::Cancel);
            }
        },
        Some(Side::Write) => {
            let off = r.offered;
            let mut ks: Vec<usize> = if inst.accept_few {
                vec![1, off]
            } else if off <= 12 {
                (1..=off).collect()
            } else {
                vec![1, 2, 3, 4, off / 2, off - 1, off]
            };
            ks.retain(|k| *k >= 1 && *k <= off);
            ks.sort();
            ks.dedup();
            out.extend(ks.into_iter().map(Act::Accept));
            if storms(hist) < inst.storm_budget {
                out.push(Act::WriteStorm);
            }
            if pend < inst.pending_budget {
                out.push(Act::WritePending);
            }
            // only a pending READ is dropped by the caller (the property is about reads; a write
            // that is abandoned half way is the caller's own doing)
            if is_async && canc < inst.cancel_budget && (r.suspended_in_read || inst.cancel_writes) {
                out.push(Act::Cancel);
            }
        },
        None => {},
    }
    out
}

fn canon_of(hist: &[Act], r: &RunResult, bad: bool) -> (u64, u64) {
    let (fails, pend, canc, eof) = spend(hist);
    let mut bytes: Vec<u8> = vec![];
    bytes.extend_from_slice(&(r.buffer.len() as u32).to_le_bytes());
    bytes.extend_from_slice(&r.buffer);
    bytes.extend_from_slice(&(r.spare as u32).to_le_bytes());
    bytes.extend_from_slice(&(r.pos as u32).to_le_bytes());
    bytes.push(match r.asked {
        None => 0,
        Some(Side::Read) => 1,
        Some(Side::Write) => 2,
    });
    bytes.extend_from_slice(&(r.offered as u32).to_le_bytes());
    bytes.extend_from_slice(&r.offered_bytes);
    bytes.extend_from_slice(&(r.written.len() as u32).to_le_bytes());
    // the observable past is part of the key: on a correct tree it is a function of the rest of
    // the key (so nothing is split), on a broken one it keeps a violating history from being
    // merged with a clean twin
    bytes.extend_from_slice(&crate::report::h64(&r.written).to_le_bytes());
    // (results are not in the key: a history whose results deviate from the reference is judged
    // `bad` at the transition where it deviates, and `bad` is in the key)
    bytes.push(bad as u8);
    bytes.extend_from_slice(&[fails, pend, canc, eof as u8, r.finished as u8]);
    bytes.extend_from_slice(&(r.calls_started as u32).to_le_bytes());
    let (tk, streak) = ticks(hist);
    bytes.extend_from_slice(&[tk, streak, storms(hist), r.yielded as u8]);
    bytes.extend_from_slice(&r.ticks_in_call.to_le_bytes());
    bytes.extend_from_slice(&(r.results.len() as u32).to_le_bytes());
    bytes.extend_from_slice(&(r.unanswered.map(|x| x as u32 + 1).unwrap_or(0)).to_le_bytes());
    let a = crate::report::h64(&bytes);
    bytes.push(0x5a);
    let b = crate::report::h64(&bytes).rotate_left(17) ^ 0x9e3779b97f4a7c15;
    (a, b)
}

// ---- hang watchdog for executions of the subject ------------------------------------------------
static NEXT_SLOT: AtomicU64 = AtomicU64::new(0);
static BUSY_SINCE: [AtomicU64; 128] = [const { AtomicU64::new(0) }; 128];
static BUSY_WHAT: Mutex<Vec<String>> = Mutex::new(Vec::new());
thread_local! { static MY_SLOT: usize = (NEXT_SLOT.fetch_add(1, Ordering::Relaxed) as usize) % 128; }

fn now_ms() -> u64 {
    std::time::SystemTime::now().duration_since(std::time::UNIX_EPOCH).map(|d| d.as_millis() as u64).unwrap_or(1)
}

/// An execution of the connection code that does not come back within `secs` seconds is reported
/// as a violation (the scripted transports never block; every execution takes microseconds).
pub fn start_hang_watchdog(property: &str, tier: crate::report::Tier, secs: u64) {
    let property = property.to_string();
    let _ = std::thread::spawn(move || loop {
        std::thread::sleep(std::time::Duration::from_secs(1));
        let now = now_ms();
        for i in 0..128 {
            let since = BUSY_SINCE[i].load(Ordering::Relaxed);
            if since != 0 && now.saturating_sub(since) > secs * 1000 {
                let what = BUSY_WHAT.lock().ok().and_then(|v| v.get(i).cloned()).unwrap_or_default();
                let dir = std::path::PathBuf::from(crate::report::VERIF_DIR).join("replays").join(&property);
                let _ = std::fs::create_dir_all(&dir);
                let path = dir.join("does-not-terminate.json");
                let sig = format!("{property}|does-not-terminate");
                let _ = std::fs::write(&path, json!({"property": property, "signature": sig, "execution": what}).to_string());
                println!("VIOLATION property={property} replay={}", path.display());
                println!("  signature: {sig}");
                println!("  witness:   the connection does not return on {what} ({secs} s; the scripted transport never blocks)");
                let ev = json!({"property_id": property, "tier": tier.name(), "seed": 0, "level": "model_checking",
                    "coverage": {"states": 1, "transitions": 1, "traces_validated_against_impl": 1, "samples": [what], "evaluations": 1, "distinct_nontrivial": 2, "exhaustive": false,
                        "rule": "search cut short by an execution that does not terminate (see violations)"},
                    "assumptions": [], "wall_s": secs as f64, "violations": 1});
                let _ = std::fs::write(std::path::PathBuf::from(crate::report::VERIF_DIR).join("evidence").join(format!("{property}.json")), serde_json::to_string_pretty(&ev).unwrap());
                std::process::exit(1);
            }
        }
    });
}

impl E2Model {
    fn make_state(&self, inst_idx: u32, hist: Vec<Act>) -> St {
        let inst = &self.instances[inst_idx as usize];
        let slot = MY_SLOT.with(|s| *s);
        if let Ok(mut w) = BUSY_WHAT.lock() {
            if w.len() < 128 { w.resize(128, String::new()); }
            w[slot] = format!("{} with history {:?}", inst.label, hist);
        }
        BUSY_SINCE[slot].store(now_ms(), Ordering::Relaxed);
        let r = world::run(inst, &hist);
        BUSY_SINCE[slot].store(0, Ordering::Relaxed);
        let _ = self.transitions.fetch_add(1, Ordering::Relaxed);
        let mut problems = (self.judge)(inst, &hist, &r);
        if let Some(e) = &r.harness_error {
            eprintln!("MACHINERY: harness error in {}: {e} (history {:?})", inst.label, hist);
            std::process::exit(4);
        }
        if let Some(p) = &r.panicked {
            problems.push(("panic".into(), format!("the connection panicked: {p}")));
        }
        let class = if !problems.is_empty() {
            "violates".to_string()
        } else if r.finished {
            "finished".to_string()
        } else {
            match r.asked {
                Some(Side::Read) => "waiting-on-read".to_string(),
                Some(Side::Write) => "waiting-on-write".to_string(),
                None => "idle".to_string(),
            }
        };
        let last = r.results.last().map(|s| {
            let mut depth = 0;
            let mut out = String::new();
            for ch in s.chars() {
                if ch == '(' { depth += 1; if depth == 2 { break; } }
                if ch == '{' || ch == ' ' { break; }
                out.push(ch);
            }
            out
        }).unwrap_or_else(|| "no-result-yet".into());
        let class = format!("{class}/last={last}");
        {
            let mut c = self.classes.lock().unwrap();
            *c.entry(class).or_insert(0) += 1;
        }
        let bad = !problems.is_empty();
        if bad {
            let mut f = self.found.lock().unwrap();
            for (cat, detail) in problems {
                let sig = format!("{}|{}|{:?}|{}", self.property, inst.label.split('#').next().unwrap_or(""), inst.imp, cat);
                let better = match f.get(&sig) {
                    Some(old) => old.hist.len() > hist.len(),
                    None => true,
                };
                if better {
                    let _ = f.insert(sig.clone(), Found { sig, detail, inst: inst_idx, hist: hist.clone() });
                }
            }
        } else {
            let mut s = self.samples.lock().unwrap();
            if s.len() < 4 && hist.len() >= 3 && (r.finished || hist.len() >= 5) {
                s.push(json!({"instance": inst.label, "history": format!("{:?}", hist), "results": r.results, "written": crate::report::hex(&r.written)}));
            }
        }
        let (canon, canon2) = canon_of(&hist, &r, bad);
        let en = if bad { vec![] } else { enabled(inst, &hist, &r) };
        St { inst: inst_idx, hist, canon, canon2, enabled: en }
    }
}

impl Model for E2Model {
    type State = St;
    type Action = Act;

    fn init_states(&self) -> Vec<St> {
        (0..self.instances.len() as u32).map(|i| self.make_state(i, vec![])).collect()
    }

    fn actions(&self, s: &St, out: &mut Vec<Act>) {
        out.extend(s.enabled.iter().cloned());
    }

    fn next_state(&self, s: &St, a: Act) -> Option<St> {
        let mut h = s.hist.clone();
        h.push(a);
        Some(self.make_state(s.inst, h))
    }

    fn properties(&self) -> Vec<Property<Self>> {
        vec![Property::<Self>::always("violations are collected in the side table", |_, _| true)]
    }
}

pub struct Explored {
    pub states: u64,
    pub generated: u64,
    pub transitions: u64,
    pub max_depth: u64,
    pub found: BTreeMap<String, Found>,
    pub classes: BTreeMap<String, u64>,
    pub samples: Vec<Value>,
}

/// Run the search to exhaustion of the bounded space (twice, with different thread counts; the
/// unique state counts must agree).
pub fn explore(property: &str, instances: Vec<Instance>, judge: Arc<Judge>) -> Explored {
    let instances = Arc::new(instances);
    let mut outs: Vec<Explored> = vec![];
    for threads in [16usize, 5] {
        let m = E2Model {
            property: property.to_string(),
            instances: instances.clone(),
            judge: judge.clone(),
            found: Arc::new(Mutex::new(BTreeMap::new())),
            transitions: Arc::new(AtomicU64::new(0)),
            classes: Arc::new(Mutex::new(BTreeMap::new())),
            samples: Arc::new(Mutex::new(vec![])),
        };
        let found = m.found.clone();
        let trans = m.transitions.clone();
        let classes = m.classes.clone();
        let samples = m.samples.clone();
        let checker = m.checker().threads(threads).spawn_bfs().join();
        let e = Explored {
            states: checker.unique_state_count() as u64,
            generated: checker.state_count() as u64,
            transitions: trans.load(Ordering::Relaxed),
            max_depth: checker.max_depth() as u64,
            found: found.lock().unwrap().clone(),
            classes: classes.lock().unwrap().clone(),
            samples: samples.lock().unwrap().clone(),
        };
        outs.push(e);
        if std::env::var("VERIF_E2_SINGLE").is_ok() {
            break;
        }
    }
    if outs.len() == 2 && outs[0].states != outs[1].states && outs[0].found.is_empty() && outs[1].found.is_empty() {
        eprintln!(
            "MACHINERY: unique state count depends on the thread count ({} vs {}): the canonical form or the subject is not deterministic",
            outs[0].states, outs[1].states
        );
        std::process::exit(4);
    }
    let second = if outs.len() == 2 { Some(outs.remove(1)) } else { None };
    let mut first = outs.remove(0);
    if let Some(sec) = second {
        for (k, v) in sec.found {
            let better = first.found.get(&k).map(|o| o.hist.len() > v.hist.len()).unwrap_or(true);
            if better {
                let _ = first.found.insert(k, v);
            }
        }
    }
    first
}

/// Re-execute one history without the explorer, twice, and require identical observations.
pub fn replay(inst: &Instance, hist: &[Act], judge: &Judge) -> (Vec<(String, String)>, RunResult) {
    let a = world::run(inst, hist);
    let b = world::run(inst, hist);
    if a.results != b.results || a.written != b.written || a.buffer != b.buffer || a.spare != b.spare {
        eprintln!("MACHINERY: replay of {:?} on {} is not deterministic", hist, inst.label);
        std::process::exit(4);
    }
    let mut p = judge(inst, hist, &a);
    if let Some(x) = &a.panicked {
        p.push(("panic".into(), format!("the connection panicked: {x}")));
    }
    (p, a)
}

/// Shared finish for E2 properties: evidence + replay files + exit code.
pub fn finish_e2(
    property: &str,
    tier: crate::report::Tier,
    e: Explored,
    instances: &[Instance],
    rule: &str,
    assumptions: Vec<String>,
    started: std::time::Instant,
    extra_kv: Vec<(&str, Value)>,
) -> i32 {
    let mut acc = crate::report::Acc::new();
    acc.evals = e.transitions;
    acc.nontrivial = e.states;
    acc.classes = e.classes.clone();
    acc.samples = e.samples.clone();
    acc.sample_cap = 8;
    for (sig, f) in &e.found {
        let inst = &instances[f.inst as usize];
        acc.violate(
            f.hist.len() as u64,
            sig.clone(),
            format!("{} after history {:?}: {}", inst.label, f.hist, f.detail),
            json!({"engine": "E2", "instance": inst.label, "instance_index": f.inst, "history": f.hist}),
        );
    }
    if acc.samples.is_empty() {
        acc.samples.push(json!({"instance": instances.first().map(|i| i.label.clone()), "history": "[]"}));
    }
    let mut extra = serde_json::Map::new();
    let _ = extra.insert("states".into(), json!(e.states));
    let _ = extra.insert("transitions".into(), json!(e.transitions));
    let _ = extra.insert("traces_validated_against_impl".into(), json!(e.transitions));
    let _ = extra.insert("states_generated_including_repeats".into(), json!(e.generated));
    let _ = extra.insert("max_depth".into(), json!(e.max_depth));
    let _ = extra.insert("instances".into(), json!(instances.len()));
    let _ = extra.insert("search".into(), json!("stateright 0.31 BFS, run twice (16 and 5 threads) with equal unique-state counts; every transition is a from-scratch execution of the real connection code"));
    for (k, v) in extra_kv {
        let _ = extra.insert(k.to_string(), v);
    }
    crate::report::finish(crate::report::Outcome {
        property: property.to_string(),
        tier,
        level: "model_checking",
        acc,
        rule: rule.to_string(),
        exhaustive: true,
        extra,
        assumptions,
        started,
    })
}

/// Replay entry shared by the E2 properties.
pub fn replay_file(path: &str, instances: &[Instance], judge: &Judge) -> i32 {
    let v = crate::props::replay_value(path);
    let idx = v.get("instance_index").and_then(|x| x.as_u64()).unwrap_or(0) as usize;
    let label = v.get("instance").and_then(|x| x.as_str()).unwrap_or("");
    let inst = instances.iter().find(|i| i.label == label).or_else(|| instances.get(idx));
    let Some(inst) = inst else {
        eprintln!("MACHINERY: unknown instance {label}");
        return 3;
    };
    let hist: Vec<Act> = serde_json::from_value(v.get("history").cloned().unwrap_or(json!([]))).unwrap_or_default();
    let (p, r) = replay(inst, &hist, judge);
    println!("replay: {} history {:?}", inst.label, hist);
    println!("  results: {:?}", r.results);
    println!("  written: {}", crate::report::hex(&r.written));
    if p.is_empty() {
        println!("replay: this history does not violate the property on this tree");
        0
    } else {
        for (c, d) in p {
            println!("replay: {c}: {d}");
        }
        1
    }
}
