//! The reference models for the connection objects and the per-transition oracle.

use bytes::BytesMut;
use insim::{net::Codec, Packet};

use super::{world::render, Act, Impl, Instance, Program, RunResult};
use crate::{props::c02::mode_of, report::guard};

pub fn pong(compressed: bool) -> [u8; 4] {
    [if compressed { 1 } else { 4 }, 3, 0, 0]
}

/// Expected result of one complete inbound frame (content expectation = the real codec applied to
/// that frame alone; the codec itself is judged by C01-C04), plus whether a pong is due.
fn frame_result(inst: &Instance, frame: &[u8]) -> (String, bool) {
    let codec = Codec::new(mode_of(inst.compressed));
    let mut buf = BytesMut::from(frame);
    match guard(|| codec.decode(&mut buf)) {
        Ok(Ok(Some(p))) => {
            if inst.verify_version {
                if let Packet::Ver(v) = &p {
                    if v.insimver != 9 {
                        return (format!("Err(IncompatibleVersion({}))", v.insimver), false);
                    }
                }
            }
            let ka = matches!(&p, Packet::Tiny(t) if t.reqi.0 == 0 && t.subt == insim::insim::TinyType::None);
            (render(&Ok(p)), ka)
        },
        Ok(Ok(None)) => ("harness: frame incomplete".into(), false),
        Ok(Err(e)) => (render(&Err(e)), false),
        Err(_) => ("harness: codec panicked".into(), false),
    }
}

/// Reference read loop over the read-side answers of a history. Returns (results, pongs due,
/// index of the results that are keep-alives, cancelled reads do not change anything).
pub fn reference_reads(inst: &Instance, hist: &[Act], delivered: &[usize]) -> (Vec<String>, Vec<usize>) {
    let mut di = 0usize;
    let inbound = inst.inbound();
    let mut results = vec![];
    let mut keepalive_results = vec![];
    let mut buffered = 0usize; // bytes delivered
    let mut consumed = 0usize; // bytes belonging to frames already returned
    let mut frame_idx = 0usize;
    let mut eof = false;
    let drain = |buffered: usize, consumed: &mut usize, frame_idx: &mut usize, results: &mut Vec<String>, ka: &mut Vec<usize>| {
        while *frame_idx < inst.frames.len() {
            let f = &inst.frames[*frame_idx];
            if buffered - *consumed >= f.len() {
                let (r, is_ka) = frame_result(inst, f);
                if is_ka {
                    ka.push(results.len());
                }
                results.push(r);
                *consumed += f.len();
                *frame_idx += 1;
            } else {
                break;
            }
        }
    };
    // clock steps in a row while the read waits (only modelled without scripted writes: every suspension
    // is then on the read half): when they add up to the documented timeout the read returns Err(Timeout)
    let mut waited: u64 = 0;
    for a in hist {
        match a {
            Act::Tick => {
                waited += super::world::TICK_SECS;
                if inst.allow_timeout && !inst.script_writes && waited >= insim::net::DEFAULT_TIMEOUT_SECS {
                    results.push("Err(Timeout)".to_string());
                    waited = 0;
                }
                continue;
            },
            Act::ReadPending | Act::WritePending | Act::ReadStorm | Act::WriteStorm | Act::Resume => continue,
            _ => waited = 0,
        }
        match a {
            Act::Deliver(k) => {
                // a transport may hand over fewer bytes than it has (the offered buffer clips it)
                let n = delivered.get(di).copied().unwrap_or((*k).min(inbound.len() - buffered));
                di += 1;
                buffered += n;
                drain(buffered, &mut consumed, &mut frame_idx, &mut results, &mut keepalive_results);
            },
            Act::ReadFail(k) => results.push(format!("Err(IO({:?}))", super::world::fail_kind(*k))),
            Act::FailStorm(k) => {
                for _ in 0..super::world::STORM {
                    results.push(format!("Err(IO({:?}))", super::world::fail_kind(*k)));
                }
            },
            Act::Eof => {
                results.push("Err(Disconnected)".into());
                eof = true;
            },
            _ => {},
        }
        if eof {
            break;
        }
    }
    (results, keepalive_results)
}

/// The oracle evaluated on every transition.
pub fn judge(inst: &Instance, hist: &[Act], r: &RunResult) -> Vec<(String, String)> {
    let mut out = vec![];
    if r.panicked.is_some() || r.harness_error.is_some() {
        return out;
    }
    if let Some(f) = &r.preamble_fault {
        out.push(("refused-packet-not-refused-cleanly".into(), f.clone()));
        return out;
    }
    match &inst.program {
        Program::ReadLoop => {
            let (want, ka) = reference_reads(inst, hist, &r.delivered);
            // results completed so far must be a prefix of the reference (the reference may be
            // ahead by the result the suspended call is still working on)
            let n = r.results.len();
            if n > want.len() || r.results[..] != want[..n] {
                let i = r.results.iter().zip(&want).position(|(a, b)| a != b).unwrap_or(n.min(want.len()));
                let cancels = hist.iter().filter(|a| matches!(a, Act::Cancel)).count();
                let cat = if cancels > 0 { "results-differ-after-cancel" } else if hist.iter().any(|a| matches!(a, Act::ReadFail(_) | Act::FailStorm(_))) { "results-differ-after-transient-error" } else { "results-differ" };
                out.push((cat.into(), format!("read results {:?} but the frames delivered so far give {:?} (first difference at result {i})", brief(&r.results), brief(&want))));
                return out;
            }
            // a suspended or finished run may lag behind the reference only by what the suspended call will still return
            // before the connection asks the transport for more bytes (or ends) it must have handed
            // over every complete frame it holds; while it is suspended in the keep-alive reply the
            // frames behind that keep-alive are legitimately still buffered
            let waiting_on_write = r.asked == Some(super::Side::Write);
            if want.len() > n && !waiting_on_write && (r.asked.is_some() || r.finished) {
                out.push(("result-missing".into(), format!("{} result(s) returned, {} due from the frames delivered: {:?} vs {:?}", n, want.len(), brief(&r.results), brief(&want))));
                return out;
            }
            // keep-alive replies: exactly one pong per keep-alive handed over (or being handed over), nothing else
            let pg = pong(inst.compressed);
            let handed: Vec<usize> = ka.iter().copied().filter(|i| *i < n).collect();
            let in_progress = ka.iter().any(|i| *i == n) && waiting_on_write;
            let full = handed.len();
            let mut expect: Vec<u8> = vec![];
            for _ in 0..full {
                expect.extend_from_slice(&pg);
            }
            if in_progress {
                // a partial reply may be on the wire
                let extra = r.written.len().saturating_sub(expect.len()).min(4);
                expect.extend_from_slice(&pg[..extra]);
                if r.written.len() > full * 4 + 4 {
                    expect.clear();
                }
            }
            if r.written != expect {
                let cancels = hist.iter().filter(|a| matches!(a, Act::Cancel)).count();
                let cat = if r.written.len() < expect.len() { if cancels > 0 { "reply-torn-or-lost-after-cancel" } else { "keep-alive-not-answered" } } else if cancels > 0 { "reply-torn-or-duplicated-after-cancel" } else { "unsolicited-or-duplicate-reply" };
                out.push((cat.into(), format!("{} keep-alive(s) handed to the caller, outbound bytes {} (expected {})", full, crate::report::hex(&r.written), crate::report::hex(&expect))));
                return out;
            }
            // ordering: keep-alive number j is handed over only after j complete replies were accepted
            for (j, idx) in handed.iter().enumerate() {
                if r.written_at.get(*idx).copied().unwrap_or(0) < (j + 1) * 4 {
                    out.push(("reply-after-hand-over".into(), format!("keep-alive #{} was returned when only {} reply byte(s) had been accepted", j + 1, r.written_at[*idx])));
                    return out;
                }
            }
        },
        Program::Ops(ops) => {
            // reads and writes mixed, with cancelled reads in between: the read results are a
            // prefix of the reference, and the outbound side is always a sequence of WHOLE frames
            // (pongs and the user's frames in call order) plus at most a prefix of one frame
            let codec = Codec::new(mode_of(inst.compressed));
            let (want, ka) = reference_reads(inst, hist, &r.delivered);
            let reads: Vec<&String> = r.results.iter().zip(&r.kinds).filter(|(_, k)| **k).map(|(s, _)| s).collect();
            let writes_ok = r.results.iter().zip(&r.kinds).filter(|(s, k)| !**k && *s == "Ok(())").count();
            // a read that was cancelled while the keep-alive reply was pending hands that keep-alive to a later read:
            // so the reads are a subsequence-prefix: compare in order
            if reads.len() > want.len() || reads.iter().zip(&want).any(|(a, b)| *a != b) {
                out.push(("results-differ-after-cancel".into(), format!("read results {:?}, the frames delivered give {:?}", brief(&reads.iter().map(|s| (*s).clone()).collect::<Vec<_>>()), brief(&want))));
                return out;
            }
            if let Some(bad) = r.results.iter().zip(&r.kinds).find(|(s, k)| !**k && *s != "Ok(())") {
                out.push(("write-failed".into(), format!("write returned {}", bad.0)));
                return out;
            }
            let user: Vec<Vec<u8>> = ops.iter().flatten().filter_map(|p| codec.encode(p).ok().map(|b| b.to_vec())).collect();
            let pg = pong(inst.compressed);
            // write calls the caller dropped: (index among the writes, index among all calls)
            let mut dropped_writes: Vec<(usize, u32)> = vec![];
            {
                let mut wn = 0usize;
                for (ci, (is_read, cancelled)) in r.call_log.iter().enumerate() {
                    if !*is_read {
                        if *cancelled {
                            dropped_writes.push((wn, ci as u32));
                        }
                        wn += 1;
                    }
                }
            }
            if user.iter().any(|f| f[..] == pg[..]) {
                // the application's own packet is byte for byte a keep-alive reply: frames cannot be told apart, so
                // they are counted - whole frames of that shape only (plus a proper prefix of one at the end), at
                // least one per keep-alive handed over and per write that returned, at most one per keep-alive
                // received and per write started
                let whole = r.written.len() / pg.len();
                let tail = &r.written[whole * pg.len()..];
                let shape_ok = r.written.chunks(pg.len()).take(whole).all(|c| c == &pg[..]) && pg[..tail.len()] == *tail;
                let handed = ka.iter().filter(|i| **i < reads.len()).count();
                let started = r.call_log.iter().filter(|(is_read, _)| !*is_read).count();
                if !shape_ok {
                    out.push(("torn-or-foreign-frame-on-the-wire".into(), format!("outbound bytes {} are not a run of keep-alive-shaped frames", crate::report::hex(&r.written))));
                } else if whole < handed + writes_ok {
                    out.push(("write-returned-before-frame-complete".into(), format!("{handed} keep-alive(s) handed over and {writes_ok} write(s) of a reply-shaped packet returned, but only {whole} such frame(s) on the wire")));
                } else if whole + (!tail.is_empty()) as usize > ka.len() + started {
                    out.push(("unsolicited-or-duplicate-reply".into(), format!("{} keep-alive(s) received and {started} write(s) started, {whole} reply-shaped frame(s) (+ partial: {}) on the wire", ka.len(), !tail.is_empty())));
                }
                return out;
            }
            let mut o = 0usize;
            let mut u = 0usize;
            let mut pongs = 0usize;
            let mut partial_pong = false;
            let mut complete_ok = 0usize;
            while o < r.written.len() {
                // a packet whose write() the caller dropped: what reached the wire of it is whatever
                // was accepted during that call from here on (a prefix of its frame, possibly empty)
                if let Some((_, ci)) = dropped_writes.iter().find(|(wn, _)| *wn == u) {
                    if u < user.len() && r.written[o] == user[u][0] && r.written[o] != pg[0] {
                        let mut k = 0usize;
                        while o + k < r.written.len() && r.stamps.get(o + k) == Some(ci) && k < user[u].len() {
                            k += 1;
                        }
                        if r.written[o..o + k] != user[u][..k] {
                            out.push(("torn-or-foreign-frame-on-the-wire".into(), format!("outbound bytes {}: the {k} byte(s) accepted during the dropped write are not a prefix of its frame", crate::report::hex(&r.written))));
                            return out;
                        }
                        o += k;
                        u += 1;
                        continue;
                    }
                    if r.written[o] == pg[0] && !r.stamps[o..].iter().any(|st| st == ci) {
                        // nothing of the dropped packet reached the wire
                        u += 1;
                        continue;
                    }
                }
                let n = if inst.compressed { r.written[o] as usize * 4 } else { r.written[o] as usize };
                let rest = &r.written[o..];
                if n >= 4 && rest.len() >= n {
                    let f = &rest[..n];
                    if f == pg {
                        pongs += 1;
                    } else if u < user.len() && f == &user[u][..] {
                        if !dropped_writes.iter().any(|(wn, _)| *wn == u) {
                            complete_ok += 1;
                        }
                        u += 1;
                    } else {
                        out.push(("torn-or-foreign-frame-on-the-wire".into(), format!("outbound bytes {} contain {} at offset {o}, which is neither a keep-alive reply nor the next packet written ({})", crate::report::hex(&r.written), crate::report::hex(f), user.get(u).map(|x| crate::report::hex(x)).unwrap_or_default())));
                        return out;
                    }
                    o += n;
                } else {
                    let is_pong_prefix = rest.len() < 4 && pg[..rest.len()] == *rest;
                    let is_user_prefix = u < user.len() && rest.len() < user[u].len() && user[u][..rest.len()] == *rest;
                    if !(is_pong_prefix || is_user_prefix) {
                        out.push(("torn-or-foreign-frame-on-the-wire".into(), format!("outbound bytes {} end in {} which is not the beginning of a keep-alive reply or of the next packet written", crate::report::hex(&r.written), crate::report::hex(rest))));
                        return out;
                    }
                    partial_pong = is_pong_prefix && !is_user_prefix;
                    break;
                }
            }
            let handed = ka.iter().filter(|i| **i < reads.len()).count();
            if pongs < handed {
                out.push(("keep-alive-handed-over-unanswered".into(), format!("{handed} keep-alive(s) handed to the caller, {pongs} complete repl(ies) on the wire")));
                return out;
            }
            if pongs + partial_pong as usize > ka.len() {
                out.push(("unsolicited-or-duplicate-reply".into(), format!("{} keep-alive(s) received, {pongs} complete repl(ies) (+ partial: {partial_pong}) on the wire", ka.len())));
                return out;
            }
            if complete_ok < writes_ok {
                out.push(("write-returned-before-frame-complete".into(), format!("{writes_ok} write(s) returned Ok, {complete_ok} complete frame(s) of them on the wire")));
                return out;
            }
        },
        Program::Writes(ps) => {
            let codec = Codec::new(mode_of(inst.compressed));
            let mut expect_all: Vec<u8> = vec![];
            let mut ends = vec![];
            let mut refused = vec![];
            for p in ps {
                match codec.encode(p) {
                    Ok(b) => { expect_all.extend_from_slice(&b); refused.push(false); },
                    // a packet the codec refuses on its own: write() reports the refusal and the wire never hears of it
                    Err(_) => refused.push(true),
                }
                ends.push(expect_all.len());
            }
            if r.written.len() > expect_all.len() || r.written[..] != expect_all[..r.written.len()] {
                out.push(("outbound-bytes-not-a-prefix".into(), format!("transport received {} which is not a prefix of the frames {}", crate::report::hex(&r.written), crate::report::hex(&expect_all))));
                return out;
            }
            for (i, res) in r.results.iter().enumerate() {
                if refused[i] {
                    if res == "Ok(())" || r.written_at[i] != ends[i] {
                        out.push(("refused-packet-not-refused-cleanly".into(), format!("write #{i} of a packet the codec refuses returned {res} with {} byte(s) on the wire where {} are due", r.written_at[i], ends[i])));
                        return out;
                    }
                    continue;
                }
                if res == "Ok(())" && r.written_at[i] != ends[i] {
                    let cat = if inst.imp == Impl::Blocking { "write-returned-before-frame-complete" } else { "write-returned-before-frame-complete" };
                    out.push((cat.into(), format!("write #{i} returned Ok after {} of {} byte(s) had reached the transport", r.written_at[i] - if i > 0 { ends[i - 1] } else { 0 }, ends[i] - if i > 0 { ends[i - 1] } else { 0 })));
                    return out;
                }
                if res != "Ok(())" {
                    out.push(("write-failed".into(), format!("write #{i} returned {res} although the transport never failed")));
                    return out;
                }
            }
        },
    }
    out
}

fn brief(v: &[String]) -> Vec<String> {
    v.iter().map(|s| s.chars().take(48).collect()).collect()
}
