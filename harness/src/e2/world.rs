//! Scripted transports ("the world") and the driver that replays a history on a fresh connection.

use std::{
    collections::VecDeque,
    io::{self, Read, Write},
    pin::Pin,
    sync::{Arc, Mutex},
    task::{Context, Poll},
};

use insim::{
    net::{blocking_impl, tokio_impl, Codec},
    Packet,
};
use serde::{Deserialize, Serialize};
use tokio::io::{AsyncRead, AsyncWrite, ReadBuf};

use super::{Instance, Program};
use crate::{props::c02::mode_of, report::guard};

#[derive(Clone, Copy, Debug, PartialEq, Eq, Hash, Serialize, Deserialize)]
pub enum Impl {
    Blocking,
    Tokio,
}

#[derive(Clone, Copy, Debug, PartialEq, Eq, Hash)]
pub enum Side {
    Read,
    Write,
}

/// One environment answer (or, for Cancel, one caller decision).
#[derive(Clone, Debug, PartialEq, Eq, Hash, Serialize, Deserialize)]
pub enum Act {
    /// transport read returns the next k inbound bytes (clipped to the offered buffer)
    Deliver(usize),
    /// transport read fails: 0 WouldBlock, 1 TimedOut, 2 Interrupted, 3 Other (ConnectionReset)
    ReadFail(u8),
    /// transport read returns 0 bytes
    Eof,
    /// transport write accepts k of the offered bytes
    Accept(usize),
    /// the write half is not ready (async: Pending; blocking: ErrorKind::Interrupted)
    WritePending,
    /// async only: the read half is not ready (one extra poll)
    ReadPending,
    /// async only: the caller drops the pending read() future and calls read() again
    Cancel,
    /// the write half reports "not ready" STORM times in a row (tokio: Pending, blocking:
    /// Interrupted) - "however often it reports that it is not ready"
    WriteStorm,
    /// async only: the read half stays Pending for STORM polls in a row
    ReadStorm,
    /// STORM transient read errors of this kind in a row (each is a result of its own)
    FailStorm(u8),
    /// async only: the future returned Pending although the transport was not asked for anything and no
    /// scripted "not ready" answer was given (a yield point of its own): poll it again
    Resume,
    /// async only: 30 s pass on the (paused) clock while the connection is suspended; never more
    /// than 60 s in a row without a transport event, so that the documented 90 s read timeout
    /// cannot fire and the expected effect is: none
    Tick,
}

impl Act {
    pub fn side(&self) -> Option<Side> {
        match self {
            Act::Deliver(_) | Act::ReadFail(_) | Act::Eof | Act::ReadPending | Act::ReadStorm | Act::FailStorm(_) => Some(Side::Read),
            Act::Accept(_) | Act::WritePending | Act::WriteStorm => Some(Side::Write),
            Act::Cancel | Act::Tick | Act::Resume => None,
        }
    }
}

pub fn fail_kind(k: u8) -> io::ErrorKind {
    match k {
        0 => io::ErrorKind::WouldBlock,
        1 => io::ErrorKind::TimedOut,
        2 => io::ErrorKind::Interrupted,
        _ => io::ErrorKind::ConnectionReset,
    }
}

const SENTINEL: &str = "verif: script exhausted";

#[derive(Debug, Default)]
pub struct Inner {
    pub inbound: Vec<u8>,
    pub pos: usize,
    pub queue: VecDeque<Act>,
    pub asked: Option<Side>,
    pub tainted: bool,
    pub written: Vec<u8>,
    /// index of the driver call in progress when each byte was accepted
    pub stamps: Vec<u32>,
    pub cur_call: u32,
    pub offered: usize,
    pub offered_bytes: Vec<u8>,
    pub read_caps: Vec<usize>,
    pub script_writes: bool,
    pub harness_error: Option<String>,
    pub eof_delivered: bool,
    /// bytes actually handed over by each Deliver answer (clipped to the offered buffer)
    pub delivered: Vec<usize>,
    /// not-ready answers still owed by the storm in progress (read side, write side)
    pub storm_left: (u32, u32),
    /// transient read errors still owed by the error storm in progress, and their kind
    pub fail_storm_left: (u32, u8),
    /// a scripted "not ready" answer was given since the flag was last cleared
    pub scripted_pending: bool,
    /// the async transport announces gathering writes (is_write_vectored) and takes them
    pub vectored: bool,
    /// the async transport prepares the caller's whole buffer before it reads into it (`initialize_unfilled`, then
    /// `advance(n)`), as TLS streams and std::io bridges do: more of the ReadBuf is initialised than filled
    pub init_unfilled: bool,
    /// what flush does: 0 = done at once (after a slow write: a few polls); 1 = fails (a sink that is closed for
    /// flushing); 2 = not ready the first time it is asked, every time (a transport with housekeeping of its own)
    pub flush_style: u8,
    pub flush_asked: bool,
    /// poll_flush stays Pending for this many polls after every accepted write (async only)
    pub slow_flush: u8,
    pub flush_owed: u8,
}

impl Inner {
    fn read_answer(&mut self, buf_len: usize) -> Option<Result<Vec<u8>, io::Error>> {
        // Some(Ok(bytes)) / Some(Err) / None = nothing scripted
        self.read_caps.push(buf_len);
        if self.storm_left.0 > 0 {
            self.storm_left.0 -= 1;
            self.scripted_pending = true;
            return Some(Err(io::Error::new(io::ErrorKind::Other, "verif: pending")));
        }
        if self.fail_storm_left.0 > 0 {
            self.fail_storm_left.0 -= 1;
            return Some(Err(io::Error::new(fail_kind(self.fail_storm_left.1), "verif: injected transient error")));
        }
        match self.queue.front() {
            None => None,
            Some(a) if a.side() != Some(Side::Read) => {
                self.harness_error = Some(format!("connection reads while the script holds {a:?}"));
                None
            },
            Some(_) => match self.queue.pop_front().unwrap() {
                Act::Deliver(k) => {
                    let n = k.min(buf_len).min(self.inbound.len() - self.pos);
                    let out = self.inbound[self.pos..self.pos + n].to_vec();
                    self.pos += n;
                    self.delivered.push(n);
                    Some(Ok(out))
                },
                Act::ReadFail(k) => Some(Err(io::Error::new(fail_kind(k), "verif: injected transient error"))),
                Act::Eof => {
                    self.eof_delivered = true;
                    Some(Ok(vec![]))
                },
                Act::ReadPending => {
                    self.scripted_pending = true;
                    Some(Err(io::Error::new(io::ErrorKind::Other, "verif: pending")))
                },
                Act::FailStorm(k) => {
                    self.fail_storm_left = (STORM - 1, k);
                    Some(Err(io::Error::new(fail_kind(k), "verif: injected transient error")))
                },
                Act::ReadStorm => {
                    self.scripted_pending = true;
                    self.storm_left.0 = STORM - 1;
                    Some(Err(io::Error::new(io::ErrorKind::Other, "verif: pending")))
                },
                _ => unreachable!(),
            },
        }
    }

    fn write_answer(&mut self, buf: &[u8]) -> Option<Result<usize, io::Error>> {
        self.offered = buf.len();
        self.offered_bytes = buf.to_vec();
        if !self.script_writes {
            self.accept(buf, buf.len());
            return Some(Ok(buf.len()));
        }
        if self.storm_left.1 > 0 {
            self.storm_left.1 -= 1;
            self.scripted_pending = true;
            return Some(Err(io::Error::new(io::ErrorKind::Other, "verif: pending")));
        }
        match self.queue.front() {
            None => None,
            Some(a) if a.side() != Some(Side::Write) => {
                self.harness_error = Some(format!("connection writes while the script holds {a:?}"));
                None
            },
            Some(_) => match self.queue.pop_front().unwrap() {
                Act::Accept(k) => {
                    let n = k.min(buf.len());
                    self.accept(buf, n);
                    Some(Ok(n))
                },
                Act::WritePending => {
                    self.scripted_pending = true;
                    Some(Err(io::Error::new(io::ErrorKind::Other, "verif: pending")))
                },
                Act::WriteStorm => {
                    self.scripted_pending = true;
                    self.storm_left.1 = STORM - 1;
                    Some(Err(io::Error::new(io::ErrorKind::Other, "verif: pending")))
                },
                _ => unreachable!(),
            },
        }
    }

    fn accept(&mut self, buf: &[u8], n: usize) {
        self.flush_owed = self.slow_flush;
        self.written.extend_from_slice(&buf[..n]);
        for _ in 0..n {
            self.stamps.push(self.cur_call);
        }
    }
}

#[derive(Debug, Clone)]
pub struct World(pub Arc<Mutex<Inner>>);

impl Read for World {
    fn read(&mut self, buf: &mut [u8]) -> io::Result<usize> {
        let mut w = self.0.lock().unwrap();
        if w.tainted {
            return Err(io::Error::new(io::ErrorKind::Other, SENTINEL));
        }
        match w.read_answer(buf.len()) {
            None => {
                w.asked = Some(Side::Read);
                w.tainted = true;
                Err(io::Error::new(io::ErrorKind::Other, SENTINEL))
            },
            Some(Ok(bytes)) => {
                buf[..bytes.len()].copy_from_slice(&bytes);
                Ok(bytes.len())
            },
            Some(Err(e)) => Err(e),
        }
    }
}

impl Write for World {
    fn write(&mut self, buf: &[u8]) -> io::Result<usize> {
        let mut w = self.0.lock().unwrap();
        if w.tainted {
            return Err(io::Error::new(io::ErrorKind::Other, SENTINEL));
        }
        match w.write_answer(buf) {
            None => {
                w.asked = Some(Side::Write);
                w.tainted = true;
                Err(io::Error::new(io::ErrorKind::Other, SENTINEL))
            },
            // "not ready" for a blocking transport is EINTR: std's contract says retry
            Some(Err(e)) if e.to_string() == "verif: pending" => {
                Err(io::Error::new(io::ErrorKind::Interrupted, "verif: interrupted, retry"))
            },
            Some(r) => r,
        }
    }
    fn flush(&mut self) -> io::Result<()> {
        if self.0.lock().unwrap().flush_style == 1 { return Err(io::Error::new(io::ErrorKind::NotConnected, "verif: flush refused")); }
        Ok(())
    }
}

impl AsyncRead for World {
    fn poll_read(self: Pin<&mut Self>, _cx: &mut Context<'_>, buf: &mut ReadBuf<'_>) -> Poll<io::Result<()>> {
        let mut w = self.0.lock().unwrap();
        match w.read_answer(buf.remaining()) {
            None => {
                w.asked = Some(Side::Read);
                Poll::Pending
            },
            Some(Ok(bytes)) => {
                if w.init_unfilled {
                    let dst = buf.initialize_unfilled();
                    for b in dst.iter_mut() { *b = 0; }
                    dst[..bytes.len()].copy_from_slice(&bytes);
                    buf.advance(bytes.len());
                } else {
                    buf.put_slice(&bytes);
                }
                Poll::Ready(Ok(()))
            },
            Some(Err(e)) if e.to_string() == "verif: pending" => Poll::Pending,
            Some(Err(e)) => Poll::Ready(Err(e)),
        }
    }
}

impl AsyncWrite for World {
    fn poll_write(self: Pin<&mut Self>, _cx: &mut Context<'_>, buf: &[u8]) -> Poll<io::Result<usize>> {
        let mut w = self.0.lock().unwrap();
        match w.write_answer(buf) {
            None => {
                w.asked = Some(Side::Write);
                Poll::Pending
            },
            Some(Err(e)) if e.to_string() == "verif: pending" => Poll::Pending,
            Some(r) => Poll::Ready(r),
        }
    }
    fn poll_flush(self: Pin<&mut Self>, _cx: &mut Context<'_>) -> Poll<io::Result<()>> {
        // a transport that buffers (websocket, TLS): the flush after a write takes a few polls
        let mut w = self.0.lock().unwrap();
        if w.flush_style == 1 { return Poll::Ready(Err(io::Error::new(io::ErrorKind::NotConnected, "verif: flush refused"))); }
        if w.flush_style == 2 {
            if !w.flush_asked { w.flush_asked = true; return Poll::Pending; }
            w.flush_asked = false;
        }
        if w.flush_owed > 0 {
            w.flush_owed -= 1;
            return Poll::Pending;
        }
        Poll::Ready(Ok(()))
    }
    fn is_write_vectored(&self) -> bool {
        self.0.lock().unwrap().vectored
    }
    fn poll_write_vectored(self: Pin<&mut Self>, cx: &mut Context<'_>, bufs: &[io::IoSlice<'_>]) -> Poll<io::Result<usize>> {
        // a gathering write is one offer of the concatenation: the transport may take any k bytes of it
        let all: Vec<u8> = bufs.iter().flat_map(|b| b.iter().copied()).collect();
        self.poll_write(cx, &all)
    }
    fn poll_shutdown(self: Pin<&mut Self>, _cx: &mut Context<'_>) -> Poll<io::Result<()>> {
        Poll::Ready(Ok(()))
    }
}

#[derive(Debug, Clone, Default)]
pub struct RunResult {
    /// one entry per completed driver call: rendering of the result
    pub results: Vec<String>,
    /// len(written) at the moment each call completed
    pub written_at: Vec<usize>,
    /// index (into results) of reads that were cancelled before them - count of cancels so far
    pub cancels: usize,
    pub written: Vec<u8>,
    pub stamps: Vec<u32>,
    pub buffer: Vec<u8>,
    pub spare: usize,
    pub asked: Option<Side>,
    pub offered: usize,
    pub offered_bytes: Vec<u8>,
    pub pos: usize,
    pub finished: bool,
    pub calls_started: usize,
    /// the run stopped at a yield point of the future's own (no transport request pending)
    pub yielded: bool,
    /// one entry per started driver call: (is_read, cancelled)
    pub call_log: Vec<(bool, bool)>,
    /// Tick answers consumed by the driver call in progress
    pub ticks_in_call: u32,
    pub read_caps: Vec<usize>,
    pub delivered: Vec<usize>,
    /// per completed call: true = read, false = write
    pub kinds: Vec<bool>,
    /// the suspended call (if any) is a read()
    pub suspended_in_read: bool,
    /// tokio: remaining bytes of a keep-alive reply held by the connection (hook)
    pub unanswered: Option<usize>,
    pub harness_error: Option<String>,
    /// a packet written before the program proper (handshake / preamble) that the codec refuses on its own was
    /// not refused by the connection, or left bytes on the wire
    pub preamble_fault: Option<String>,
    pub panicked: Option<String>,
}

pub fn render(r: &Result<Packet, insim::Error>) -> String {
    match r {
        Ok(p) => format!("Ok({p:?})"),
        Err(insim::Error::Disconnected) => "Err(Disconnected)".into(),
        Err(insim::Error::IncompatibleVersion(v)) => format!("Err(IncompatibleVersion({v}))"),
        Err(insim::Error::IO { kind, .. }) => format!("Err(IO({kind:?}))"),
        Err(insim::Error::BinRw(_)) => "Err(Decode)".into(),
        Err(insim::Error::Timeout(_)) => "Err(Timeout)".into(),
        Err(e) => format!("Err({e:?})"),
    }
}

fn render_unit(r: &Result<(), insim::Error>) -> String {
    match r {
        Ok(()) => "Ok(())".into(),
        Err(insim::Error::IO { kind, .. }) => format!("Err(IO({kind:?}))"),
        Err(e) => format!("Err({e:?})"),
    }
}

pub const TICK_SECS: u64 = 30;
/// not-ready answers in one storm
pub const STORM: u32 = 300;

thread_local! {
    static RT: tokio::runtime::Runtime = tokio::runtime::Builder::new_current_thread()
        .enable_time()
        .start_paused(true)
        .build()
        .expect("runtime");
}

pub fn run(inst: &Instance, hist: &[Act]) -> RunResult {
    let inner = Arc::new(Mutex::new(Inner {
        inbound: inst.inbound(),
        script_writes: inst.script_writes,
        vectored: inst.vectored,
        init_unfilled: inst.init_unfilled,
        flush_style: inst.flush_style,
        flush_asked: false,
        slow_flush: inst.slow_flush,
        ..Default::default()
    }));
    let r = match inst.imp {
        Impl::Blocking => guard(|| run_blocking(inst, hist, inner.clone())),
        Impl::Tokio => guard(|| RT.with(|rt| {
            let _g = rt.enter();
            run_tokio(inst, hist, inner.clone())
        })),
    };
    let mut out = match r {
        Ok(o) => o,
        Err(p) => RunResult {
            panicked: Some(p),
            ..Default::default()
        },
    };
    let w = inner.lock().unwrap();
    out.written = w.written.clone();
    out.stamps = w.stamps.clone();
    out.asked = w.asked;
    out.offered = w.offered;
    out.offered_bytes = if w.asked == Some(Side::Write) { w.offered_bytes.clone() } else { vec![] };
    if w.asked != Some(Side::Write) {
        out.offered = 0;
    }
    out.pos = w.pos;
    out.read_caps = w.read_caps.clone();
    out.delivered = w.delivered.clone();
    if out.harness_error.is_none() {
        out.harness_error = w.harness_error.clone();
    }
    out
}

fn run_blocking(inst: &Instance, hist: &[Act], inner: Arc<Mutex<Inner>>) -> RunResult {
    let mut out = RunResult::default();
    {
        let mut w = inner.lock().unwrap();
        for a in hist {
            if matches!(a, Act::Cancel | Act::ReadPending | Act::ReadStorm | Act::Tick | Act::Resume) {
                out.harness_error = Some(format!("{a:?} is not a blocking answer"));
                return out;
            }
            w.queue.push_back(a.clone());
        }
    }
    let mut framed = blocking_impl::Framed::new(Box::new(World(inner.clone())), Codec::new(mode_of(inst.compressed)));
    framed.verify_version(inst.verify_version);
    if let Some(isi) = &inst.handshake {
        let was = std::mem::replace(&mut inner.lock().unwrap().script_writes, false);
        let refused = Codec::new(mode_of(inst.compressed)).encode(&Packet::Isi(isi.clone())).is_err();
        let r = framed.handshake(isi.clone());
        let mut w = inner.lock().unwrap();
        if refused {
            if r.is_ok() || !w.written.is_empty() {
                out.preamble_fault = Some(format!("handshake with an ISI the codec refuses returned {:?} and put {} byte(s) on the wire", r.map_err(|e| e.to_string()), w.written.len()));
            }
        } else if r.is_err() {
            w.harness_error = Some(format!("handshake failed: {r:?}"));
        }
        w.script_writes = was;
        w.written.clear();
        w.stamps.clear();
        w.offered = 0;
        w.offered_bytes.clear();
    }
    if !inst.preamble.is_empty() {
        let was = std::mem::replace(&mut inner.lock().unwrap().script_writes, false);
        for p in &inst.preamble {
            let refused = Codec::new(mode_of(inst.compressed)).encode(p).is_err();
            let before = inner.lock().unwrap().written.len();
            let r = framed.write(p.clone());
            let after = inner.lock().unwrap().written.len();
            if refused {
                if r.is_ok() || after != before {
                    out.preamble_fault = Some(format!("write of a packet the codec refuses returned {:?} and put {} byte(s) on the wire", r.map_err(|e| e.to_string()), after - before));
                }
            } else if let Err(e) = r {
                inner.lock().unwrap().harness_error = Some(format!("preamble write failed: {e}"));
            }
        }
        let mut w = inner.lock().unwrap();
        w.script_writes = was;
        w.written.clear();
        w.stamps.clear();
        w.offered = 0;
        w.offered_bytes.clear();
    }
    match &inst.program {
        Program::ReadLoop => loop {
            {
                let mut w = inner.lock().unwrap();
                w.cur_call = out.calls_started as u32;
            }
            out.calls_started += 1;
            let r = framed.read();
            let w = inner.lock().unwrap();
            if w.tainted {
                // the call ran out of scripted answers: it is suspended here, its result is an artefact
                break;
            }
            out.results.push(render(&r));
            out.written_at.push(w.written.len());
            if w.eof_delivered {
                out.finished = true;
                break;
            }
            // a connection that keeps returning results without asking the transport again has
            // produced more results than any history can justify: stop and let the oracle judge
            if out.results.len() > inst.frames.len() + hist.len() + 2 + STORM as usize * hist.iter().filter(|a| matches!(a, Act::FailStorm(_))).count() {
                break;
            }
        },
        Program::Ops(_) => {
            out.harness_error = Some("Ops programs are driven on the tokio implementation only".into());
        },
        Program::Writes(ps) => {
            for p in ps {
                {
                    let mut w = inner.lock().unwrap();
                    w.cur_call = out.calls_started as u32;
                }
                out.calls_started += 1;
                let r = framed.write(p.clone());
                let w = inner.lock().unwrap();
                if w.tainted {
                    break;
                }
                out.results.push(render_unit(&r));
                out.written_at.push(w.written.len());
            }
            let w = inner.lock().unwrap();
            if !w.tainted && out.results.len() == ps.len() {
                out.finished = true;
            }
        },
    }
    let (b, s) = framed.verif_buffer();
    out.buffer = b.to_vec();
    out.spare = s;
    out
}

fn run_tokio(inst: &Instance, hist: &[Act], inner: Arc<Mutex<Inner>>) -> RunResult {
    let mut out = RunResult::default();
    let mut framed = tokio_impl::Framed::new(Box::new(World(inner.clone())), Codec::new(mode_of(inst.compressed)));
    framed.verify_version(inst.verify_version);
    if let Some(isi) = &inst.handshake {
        let was = std::mem::replace(&mut inner.lock().unwrap().script_writes, false);
        let r = {
            let mut t = tokio_test::task::spawn(framed.handshake(isi.clone(), std::time::Duration::from_secs(5)));
            t.poll()
        };
        let refused = Codec::new(mode_of(inst.compressed)).encode(&Packet::Isi(isi.clone())).is_err();
        let mut w = inner.lock().unwrap();
        if refused {
            if !matches!(r, Poll::Ready(Err(_))) || !w.written.is_empty() {
                out.preamble_fault = Some(format!("handshake with an ISI the codec refuses returned {:?} and put {} byte(s) on the wire", r.map(|x| x.map_err(|e| e.to_string())), w.written.len()));
            }
        } else if !matches!(r, Poll::Ready(Ok(()))) {
            w.harness_error = Some(format!("handshake did not complete at once: {r:?}"));
        }
        w.script_writes = was;
        w.written.clear();
        w.stamps.clear();
        w.offered = 0;
        w.offered_bytes.clear();
    }
    if !inst.preamble.is_empty() {
        let was = std::mem::replace(&mut inner.lock().unwrap().script_writes, false);
        for p in &inst.preamble {
            let refused = Codec::new(mode_of(inst.compressed)).encode(p).is_err();
            let before = inner.lock().unwrap().written.len();
            let r = {
                let mut t = tokio_test::task::spawn(framed.write(p.clone()));
                t.poll()
            };
            let after = inner.lock().unwrap().written.len();
            if refused {
                if !matches!(r, Poll::Ready(Err(_))) || after != before {
                    out.preamble_fault = Some(format!("write of a packet the codec refuses returned {:?} and put {} byte(s) on the wire", r.map(|x| x.map_err(|e| e.to_string())), after - before));
                }
            } else if !matches!(r, Poll::Ready(Ok(()))) {
                inner.lock().unwrap().harness_error = Some(format!("preamble write did not complete at once: {r:?}"));
            }
        }
        let mut w = inner.lock().unwrap();
        w.script_writes = was;
        w.written.clear();
        w.stamps.clear();
        w.offered = 0;
        w.offered_bytes.clear();
    }
    let mut next = 0usize; // next history item to feed
    // ops: None = read(), Some(p) = write(p); ReadLoop = reads for ever
    let ops: Option<Vec<Option<Packet>>> = match &inst.program {
        Program::Writes(ps) => Some(ps.iter().cloned().map(Some).collect()),
        Program::Ops(o) => Some(o.clone()),
        Program::ReadLoop => None,
    };
    let writes: Vec<Packet> = ops.as_ref().map(|o| o.iter().flatten().cloned().collect()).unwrap_or_default();
    let mut wi = 0usize; // index into ops
    'calls: loop {
        if let Some(o) = &ops {
            if wi >= o.len() {
                out.finished = true;
                break;
            }
        }
        let is_read = match &ops { None => true, Some(o) => o[wi].is_none() };
        {
            let mut w = inner.lock().unwrap();
            w.cur_call = out.calls_started as u32;
            w.asked = None;
        }
        out.calls_started += 1;
        out.call_log.push((is_read, false));
        out.ticks_in_call = 0;
        // the boxed future borrows `framed`; it is dropped before the buffer is inspected
        enum Done {
            Result(String),
            Cancelled,
            Boundary,
        }
        let done = {
            let fut: Pin<Box<dyn std::future::Future<Output = String> + '_>> = if is_read {
                Box::pin(async { render(&framed.read().await) })
            } else {
                let p = ops.as_ref().unwrap()[wi].clone().unwrap();
                match (&p, inst.isi_via_handshake) {
                    (Packet::Isi(isi), true) => {
                        let isi = isi.clone();
                        Box::pin(async { render_unit(&framed.handshake(isi, std::time::Duration::from_secs(5)).await) })
                    },
                    _ => Box::pin(async { render_unit(&framed.write(p).await) }),
                }
            };
            let mut task = tokio_test::task::spawn(fut);
            loop {
                inner.lock().unwrap().scripted_pending = false;
                match task.poll() {
                    Poll::Ready(s) => break Done::Result(s),
                    Poll::Pending => {
                        let (asked, scripted) = {
                            let w = inner.lock().unwrap();
                            (w.asked, w.scripted_pending)
                        };
                        // explicit Pending answers leave `asked` unset: poll again
                        if asked.is_none() && scripted {
                            continue;
                        }
                        if asked.is_none() {
                            // a suspension point of the future's own: the caller may resume or drop it here
                            match hist.get(next) {
                                None => {
                                    out.yielded = true;
                                    break Done::Boundary;
                                },
                                Some(Act::Resume) => {
                                    next += 1;
                                    continue;
                                },
                                Some(Act::Cancel) => {
                                    next += 1;
                                    break Done::Cancelled;
                                },
                                Some(a) => {
                                    inner.lock().unwrap().harness_error = Some(format!("history offers {a:?} at a yield point"));
                                    break Done::Boundary;
                                },
                            }
                        }
                        match hist.get(next) {
                            None => break Done::Boundary,
                            Some(Act::Cancel) => {
                                next += 1;
                                break Done::Cancelled;
                            },
                            Some(Act::Tick) => {
                                next += 1;
                                out.ticks_in_call += 1;
                                RT.with(|rt| rt.block_on(tokio::time::advance(std::time::Duration::from_secs(TICK_SECS))));
                                // poll again: the transport is asked once more unless a timer fired
                                inner.lock().unwrap().asked = None;
                            },
                            Some(a) => {
                                if a.side() != asked {
                                    inner.lock().unwrap().harness_error = Some(format!("history offers {a:?} while the connection waits on {asked:?}"));
                                    break Done::Boundary;
                                }
                                let mut w = inner.lock().unwrap();
                                w.queue.push_back(a.clone());
                                w.asked = None;
                                next += 1;
                            },
                        }
                    },
                }
            }
        };
        match done {
            Done::Result(s) => {
                let w = inner.lock().unwrap();
                out.results.push(s);
                out.written_at.push(w.written.len());
                out.kinds.push(is_read);
                if ops.is_some() {
                    wi += 1;
                }
                if w.eof_delivered {
                    out.finished = true;
                    break 'calls;
                }
                if out.results.len() > inst.frames.len() + writes.len() + hist.len() + 2 + STORM as usize * hist.iter().filter(|a| matches!(a, Act::FailStorm(_))).count() {
                    break 'calls;
                }
            },
            Done::Cancelled => {
                out.cancels += 1;
                if let Some(l) = out.call_log.last_mut() {
                    l.1 = true;
                }
                if !is_read {
                    // a cancelled write is not retried by this driver
                    wi += 1;
                }
                if is_read && ops.is_some() {
                    // in an Ops program the caller gives up on a cancelled read and moves on
                    wi += 1;
                }
            },
            Done::Boundary => {
                out.suspended_in_read = is_read;
                break 'calls;
            },
        }
    }
    if next < hist.len() && out.harness_error.is_none() && !out.finished {
        out.harness_error = Some(format!("history items beyond {next} were not consumed"));
    }
    let (b, s) = framed.verif_buffer();
    out.buffer = b.to_vec();
    out.spare = s;
    out.unanswered = framed.verif_unanswered();
    out
}
