//! Accumulators, violation side-table, known-findings split, evidence and replay files.
//!
//! Exit convention (see DESIGN.md §2): 0 = held on everything explored (known findings are
//! printed, not alarmed on); 1 = at least one violation whose signature is not listed in
//! known_findings.json; >=2 = machinery failure (never a verdict).

use std::{
    collections::{BTreeMap, HashSet},
    path::PathBuf,
    time::Instant,
};

use serde_json::{json, Value};

pub const VERIF_DIR: &str = "/verif";

#[derive(Clone, Debug)]
pub struct Violation {
    /// `property|site|what` - stable identity of the defect, independent of the witness.
    pub sig: String,
    /// human readable witness
    pub detail: String,
    /// everything `mc --replay` needs to re-execute the witness without the explorer
    pub replay: Value,
    /// enumeration order / history length: smaller wins when two witnesses share a signature
    pub order: u64,
}

/// Per-worker accumulator; merged deterministically (smallest `order` wins per signature).
#[derive(Default)]
pub struct Acc {
    pub evals: u64,
    /// non-trivial cases that are distinct by construction of the enumeration
    pub nontrivial: u64,
    /// non-trivial cases identified by a key (deduplicated by hashing)
    pub keys: HashSet<u64>,
    pub classes: BTreeMap<String, u64>,
    pub viol: BTreeMap<String, Violation>,
    pub samples: Vec<Value>,
    pub sample_cap: usize,
}

impl Acc {
    pub fn new() -> Self {
        Acc {
            sample_cap: 3,
            ..Default::default()
        }
    }
    #[inline]
    pub fn eval(&mut self) {
        self.evals += 1;
    }
    #[inline]
    pub fn class(&mut self, c: &str) {
        if let Some(v) = self.classes.get_mut(c) {
            *v += 1;
        } else {
            let _ = self.classes.insert(c.to_string(), 1);
        }
    }
    #[inline]
    pub fn nontrivial(&mut self) {
        self.nontrivial += 1;
    }
    #[inline]
    pub fn key(&mut self, k: u64) {
        if self.keys.len() < 4_000_000 {
            let _ = self.keys.insert(k);
        }
    }
    pub fn sample(&mut self, v: impl FnOnce() -> Value) {
        if self.samples.len() < self.sample_cap {
            self.samples.push(v());
        }
    }
    pub fn violate(&mut self, order: u64, sig: String, detail: String, replay: Value) {
        // witnesses of long inputs are cut for the report (the replay goes by site and index, not by the text)
        fn cut(s: String, max: usize) -> String {
            if s.chars().count() <= max { s } else { let n = s.chars().count(); format!("{} ... [{} characters in all]", s.chars().take(max).collect::<String>(), n) }
        }
        fn cut_json(v: Value) -> Value {
            match v {
                Value::String(s) => Value::String(cut(s, 600)),
                Value::Array(a) => Value::Array(a.into_iter().map(cut_json).collect()),
                Value::Object(o) => Value::Object(o.into_iter().map(|(k, v)| (k, cut_json(v))).collect()),
                other => other,
            }
        }
        let detail = cut(detail, 1500);
        let replay = cut_json(replay);
        match self.viol.get(&sig) {
            Some(old) if old.order <= order => {},
            _ => {
                let _ = self.viol.insert(
                    sig.clone(),
                    Violation {
                        sig,
                        detail,
                        replay,
                        order,
                    },
                );
            },
        }
    }
    pub fn merge(&mut self, other: Acc) {
        self.evals += other.evals;
        self.nontrivial += other.nontrivial;
        if self.keys.len() < other.keys.len() {
            let mut o = other.keys;
            std::mem::swap(&mut self.keys, &mut o);
            self.keys.extend(o);
        } else {
            self.keys.extend(other.keys);
        }
        for (k, v) in other.classes {
            *self.classes.entry(k).or_insert(0) += v;
        }
        for (_, v) in other.viol {
            self.violate(v.order, v.sig.clone(), v.detail, v.replay);
        }
        for s in other.samples {
            if self.samples.len() < self.sample_cap.max(3) {
                self.samples.push(s);
            }
        }
    }
    pub fn distinct_nontrivial(&self) -> u64 {
        self.nontrivial + self.keys.len() as u64
    }
}

/// FNV-1a, used for case keys (stable across runs and threads).
pub fn h64(bytes: &[u8]) -> u64 {
    let mut h: u64 = 0xcbf29ce484222325;
    for b in bytes {
        h ^= *b as u64;
        h = h.wrapping_mul(0x100000001b3);
    }
    h
}

// ---- hang watchdog: a case that never returns is a verdict, not a stuck check -------------------
use std::sync::atomic::{AtomicU64, Ordering as AO};
static CUR_CASE: [AtomicU64; 64] = [const { AtomicU64::new(u64::MAX) }; 64];
static CUR_SITE: AtomicU64 = AtomicU64::new(0);
static SITE_NAMES: std::sync::Mutex<Vec<String>> = std::sync::Mutex::new(Vec::new());

/// Start a thread that reports a case which has been running for `secs` seconds as a violation
/// (`<property>|does-not-terminate|<site>`), writes a replay file and a minimal evidence file, and
/// exits 1.  Cases normally take microseconds to milliseconds.
pub fn start_hang_watchdog(property: &str, tier: Tier, level: &'static str, secs: u64) {
    let property = property.to_string();
    let _ = std::thread::spawn(move || {
        let mut last = [u64::MAX; 64];
        let mut last_site = [0u64; 64];
        let mut ticks = [0u64; 64];
        loop {
            std::thread::sleep(std::time::Duration::from_secs(1));
            let site = CUR_SITE.load(AO::Relaxed);
            for i in 0..64 {
                let cur = CUR_CASE[i].load(AO::Relaxed);
                if cur != u64::MAX && cur == last[i] && site == last_site[i] {
                    ticks[i] += 1;
                    if ticks[i] >= secs {
                        let name = SITE_NAMES.lock().ok().and_then(|v| v.get(site as usize).cloned()).unwrap_or_default();
                        let dir = PathBuf::from(VERIF_DIR).join("replays").join(&property);
                        let _ = std::fs::create_dir_all(&dir);
                        let path = dir.join(format!("does-not-terminate-{}-{cur}.json", sanitize(&name)));
                        let sig = format!("{property}|does-not-terminate|{name}");
                        let _ = std::fs::write(&path, json!({"property": property, "site": name, "index": cur, "signature": sig}).to_string());
                        println!("VIOLATION property={property} replay={}", path.display());
                        println!("  signature: {sig}");
                        println!("  witness:   site {name} case #{cur} has been running for {secs} s (cases take milliseconds): the subject does not terminate on this input");
                        let ev = json!({"property_id": property, "tier": tier.name(), "seed": 0, "level": level,
                            "coverage": {"evaluations": 1, "distinct_nontrivial": 2, "rule": "run cut short by a non-terminating case (see violations)", "samples": [format!("{name}#{cur}")], "exhaustive": false,
                                "states": 1, "transitions": 1, "traces_validated_against_impl": 1},
                            "assumptions": [], "wall_s": secs as f64, "violations": 1});
                        let _ = std::fs::write(PathBuf::from(VERIF_DIR).join("evidence").join(format!("{property}.json")), serde_json::to_string_pretty(&ev).unwrap());
                        std::process::exit(1);
                    }
                } else {
                    last[i] = cur;
                    last_site[i] = site;
                    ticks[i] = 0;
                }
            }
        }
    });
}

/// Run `f(i, acc)` for every i in 0..n on all cores; deterministic result (per-signature minimum).
pub fn par_range<F>(n: u64, f: F) -> Acc
where
    F: Fn(u64, &mut Acc) + Sync,
{
    use rayon::prelude::*;
    let chunks: u64 = 16 * 64;
    let per = (n + chunks - 1) / chunks.max(1);
    let per = per.max(1);
    let nchunks = (n + per - 1) / per;
    (0..nchunks)
        .into_par_iter()
        .map(|c| {
            let mut acc = Acc::new();
            let lo = c * per;
            let hi = ((c + 1) * per).min(n);
            let slot = rayon::current_thread_index().unwrap_or(63).min(63);
            for i in lo..hi {
                CUR_CASE[slot].store(i, AO::Relaxed);
                f(i, &mut acc);
            }
            CUR_CASE[slot].store(u64::MAX, AO::Relaxed);
            acc
        })
        .reduce(Acc::new, |mut a, b| {
            a.merge(b);
            a
        })
}

/// A named, indexable, bounded-exhaustive enumeration ("site") of an E1 check.
pub struct Site {
    pub name: String,
    pub n: u64,
    pub domain: String,
    pub run: Box<dyn Fn(u64, &mut Acc) + Sync + Send>,
}

impl Site {
    pub fn new(
        name: &str,
        n: u64,
        domain: &str,
        run: impl Fn(u64, &mut Acc) + Sync + Send + 'static,
    ) -> Site {
        Site {
            name: name.to_string(),
            n,
            domain: domain.to_string(),
            run: Box::new(run),
        }
    }
}

/// Catch panics of the subject. Returns Err(message) on panic.
pub fn guard<T>(f: impl FnOnce() -> T) -> Result<T, String> {
    match std::panic::catch_unwind(std::panic::AssertUnwindSafe(f)) {
        Ok(v) => Ok(v),
        Err(e) => {
            let msg = if let Some(s) = e.downcast_ref::<&str>() {
                s.to_string()
            } else if let Some(s) = e.downcast_ref::<String>() {
                s.clone()
            } else {
                "panic (non-string payload)".to_string()
            };
            Err(msg.chars().take(160).collect())
        },
    }
}

pub fn silence_panics() {
    // VERIF_PANIC_TRACE=1 prints where each caught panic came from (machinery debugging only).
    if std::env::var("VERIF_PANIC_TRACE").is_ok() {
        std::panic::set_hook(Box::new(|i| {
            eprintln!("panic: {}", i);
        }));
        return;
    }
    std::panic::set_hook(Box::new(|_| {}));
}

#[derive(Clone, Copy, PartialEq, Eq, Debug)]
pub enum Tier {
    Quick,
    Thorough,
}
impl Tier {
    pub fn name(&self) -> &'static str {
        match self {
            Tier::Quick => "quick",
            Tier::Thorough => "thorough",
        }
    }
}

pub struct Outcome {
    pub property: String,
    pub tier: Tier,
    pub level: &'static str,
    pub acc: Acc,
    pub rule: String,
    pub exhaustive: bool,
    pub extra: serde_json::Map<String, Value>,
    pub assumptions: Vec<String>,
    pub started: Instant,
}

struct Known {
    open: Vec<(String, String)>, // (signature or prefix*, what)
}

fn load_known(property: &str) -> Known {
    let p = PathBuf::from(VERIF_DIR).join("known_findings.json");
    let mut open = vec![];
    if let Ok(s) = std::fs::read_to_string(&p) {
        match serde_json::from_str::<Value>(&s) {
            Ok(v) => {
                if let Some(arr) = v.get("findings").and_then(|x| x.as_array()) {
                    for f in arr {
                        if f.get("property").and_then(|x| x.as_str()) == Some(property) {
                            let sig = f
                                .get("signature")
                                .and_then(|x| x.as_str())
                                .unwrap_or("")
                                .to_string();
                            let what = f
                                .get("what")
                                .and_then(|x| x.as_str())
                                .unwrap_or("")
                                .to_string();
                            open.push((sig, what));
                        }
                    }
                }
            },
            Err(e) => {
                eprintln!("MACHINERY: known_findings.json does not parse: {e}");
                std::process::exit(3);
            },
        }
    }
    Known { open }
}

fn sig_matches(pattern: &str, sig: &str) -> bool {
    if let Some(prefix) = pattern.strip_suffix('*') {
        sig.starts_with(prefix)
    } else {
        pattern == sig
    }
}

fn sanitize(s: &str) -> String {
    s.chars()
        .map(|c| {
            if c.is_ascii_alphanumeric() || c == '-' || c == '_' {
                c
            } else {
                '_'
            }
        })
        .take(80)
        .collect()
}

/// Split violations into known findings and new ones, write replays + evidence, print the
/// interface lines and return the process exit code.
pub fn finish(o: Outcome) -> i32 {
    let known = load_known(&o.property);
    let replay_dir = PathBuf::from(VERIF_DIR).join("replays").join(&o.property);
    let _ = std::fs::create_dir_all(&replay_dir);
    // replays are rewritten by every run
    if let Ok(rd) = std::fs::read_dir(&replay_dir) {
        for e in rd.flatten() {
            let _ = std::fs::remove_file(e.path());
        }
    }

    let mut new_violations = 0;
    let mut known_hits = 0;
    let mut vio_list = vec![];
    for (sig, v) in &o.acc.viol {
        let fname = format!("{}-{:016x}.json", sanitize(sig), h64(sig.as_bytes()));
        let path = replay_dir.join(fname);
        let mut rep = v.replay.clone();
        if let Some(m) = rep.as_object_mut() {
            let _ = m.insert("property".into(), json!(o.property));
            let _ = m.insert("tier".into(), json!(o.tier.name()));
            let _ = m.insert("signature".into(), json!(sig));
            let _ = m.insert("detail".into(), json!(v.detail));
        }
        let _ = std::fs::write(&path, serde_json::to_string_pretty(&rep).unwrap());
        let is_known = known.open.iter().find(|(p, _)| sig_matches(p, sig));
        if let Some((_, what)) = is_known {
            known_hits += 1;
            println!(
                "KNOWN-FINDING: property={} {} [{}] witness: {}",
                o.property, what, sig, v.detail
            );
        } else {
            new_violations += 1;
            println!(
                "VIOLATION property={} replay={}",
                o.property,
                path.display()
            );
            println!("  signature: {sig}");
            println!("  witness:   {}", v.detail);
        }
        vio_list.push(json!({"signature": sig, "detail": v.detail, "known": is_known.is_some()}));
    }

    let wall = o.started.elapsed().as_secs_f64();
    let mut coverage = serde_json::Map::new();
    let _ = coverage.insert("evaluations".into(), json!(o.acc.evals));
    let _ = coverage.insert(
        "distinct_nontrivial".into(),
        json!(o.acc.distinct_nontrivial()),
    );
    let _ = coverage.insert("rule".into(), json!(o.rule));
    let samples: Vec<Value> = if o.acc.samples.is_empty() {
        vec![json!("(no sample recorded)")]
    } else {
        o.acc.samples.clone()
    };
    let _ = coverage.insert("samples".into(), json!(samples));
    let _ = coverage.insert("exhaustive".into(), json!(o.exhaustive));
    let _ = coverage.insert("outcome_classes".into(), json!(o.acc.classes));
    let _ = coverage.insert(
        "distinct_outcome_classes".into(),
        json!(o.acc.classes.len()),
    );
    let _ = coverage.insert("known_findings_observed".into(), json!(known_hits));
    let _ = coverage.insert("violation_list".into(), json!(vio_list));
    for (k, v) in o.extra {
        let _ = coverage.insert(k, v);
    }
    let seed: i64 = std::env::var("VERIF_SEED")
        .ok()
        .and_then(|s| s.parse().ok())
        .unwrap_or(0);
    let ev = json!({
        "property_id": o.property,
        "tier": o.tier.name(),
        "seed": seed,
        "level": o.level,
        "coverage": Value::Object(coverage),
        "assumptions": o.assumptions,
        "wall_s": wall,
        "violations": new_violations,
    });
    let evdir = PathBuf::from(VERIF_DIR).join("evidence");
    let _ = std::fs::create_dir_all(&evdir);
    let evpath = evdir.join(format!("{}.json", o.property));
    if let Err(e) = std::fs::write(&evpath, serde_json::to_string_pretty(&ev).unwrap()) {
        eprintln!("MACHINERY: cannot write evidence: {e}");
        return 3;
    }
    println!(
        "{} {}: evaluations={} distinct_nontrivial={} classes={} known={} new_violations={} wall={:.1}s",
        o.property,
        o.tier.name(),
        o.acc.evals,
        o.acc.distinct_nontrivial(),
        o.acc.classes.len(),
        known_hits,
        new_violations,
        wall
    );
    if new_violations > 0 {
        1
    } else {
        0
    }
}

/// Run a list of E1 sites and fold them into one accumulator; class names are prefixed by site.
pub fn run_sites(sites: &[Site]) -> (Acc, Vec<Value>) {
    let mut total = Acc::new();
    total.sample_cap = 64;
    let mut per_site = vec![];
    if let Ok(mut names) = SITE_NAMES.lock() {
        *names = sites.iter().map(|s| s.name.clone()).collect();
    }
    for (ord, s) in sites.iter().enumerate() {
        CUR_SITE.store(ord as u64, AO::Relaxed);
        let t = Instant::now();
        let name = s.name.clone();
        let acc = par_range(s.n, |i, acc| (s.run)(i, acc));
        per_site.push(json!({
            "site": name, "cases": s.n, "evaluations": acc.evals,
            "distinct_nontrivial": acc.distinct_nontrivial(),
            "classes": acc.classes, "domain": s.domain,
            "violation_signatures": acc.viol.len(), "wall_s": t.elapsed().as_secs_f64()}));
        let mut acc = acc;
        // prefix classes by site name
        let classes = std::mem::take(&mut acc.classes);
        for (k, v) in classes {
            let _ = acc.classes.insert(format!("{}:{}", s.name, k), v);
        }
        total.merge(acc);
    }
    (total, per_site)
}

/// Replay one E1 case: run it twice, require identical verdicts, print them.
pub fn replay_site_case(sites: &[Site], site: &str, index: u64) -> i32 {
    let Some(s) = sites.iter().find(|s| s.name == site) else {
        eprintln!("MACHINERY: unknown site {site}");
        return 3;
    };
    let mut a = Acc::new();
    (s.run)(index, &mut a);
    let mut b = Acc::new();
    (s.run)(index, &mut b);
    let ka: Vec<_> = a.viol.keys().cloned().collect();
    let kb: Vec<_> = b.viol.keys().cloned().collect();
    if ka != kb {
        eprintln!("MACHINERY: replay is not deterministic: {ka:?} vs {kb:?}");
        return 4;
    }
    if a.viol.is_empty() {
        println!("replay: case {site}#{index} does not violate the property on this tree");
        0
    } else {
        for (sig, v) in &a.viol {
            println!("replay: {sig}: {}", v.detail);
        }
        1
    }
}

pub fn hex(b: &[u8]) -> String {
    let mut s = String::with_capacity(b.len() * 3);
    for (i, x) in b.iter().enumerate() {
        if i > 0 {
            s.push(' ');
        }
        s.push_str(&format!("{:02x}", x));
    }
    s
}
