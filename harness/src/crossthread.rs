//! Cross-thread call histories for the pure functions of the library.
//!
//! The pairs sites give one thread a history; here a history is spread over TWO threads, call by call, in
//! lock-step (the next call starts when the previous one has returned, so the schedule at call granularity
//! is exactly the enumerated one): all histories of 2 and 3 calls over a small corpus with every assignment
//! of the calls to the two threads (the first call on thread 0).  Every result must be what the same input
//! gives on a fresh thread that has never called the library.  Memory shared between threads (a process-wide
//! cache key next to a per-thread cache value, a static scratch buffer, a lazily built table published before
//! it is complete) shows up as a result that depends on the history.
//!
//! Only one history runs at a time (a process-wide lock), and both worker threads are new for every history,
//! so a history is replayable on its own.  Interleavings INSIDE a call are not explored: the crates take no
//! locks and spawn no threads, and their std atomics cannot be put under a controlled scheduler without
//! changing them (DESIGN.md section 5).

use std::{
    fmt::Debug,
    sync::{mpsc, Arc, Mutex},
    time::Duration,
};

use serde_json::json;

use crate::report::{guard, Site};

static ONE_AT_A_TIME: Mutex<()> = Mutex::new(());

pub fn site<I, O, F>(prop: &'static str, name: &str, what: &str, corpus: Vec<(String, I)>, f: F) -> Site
where
    I: Clone + Send + Sync + 'static,
    O: PartialEq + Debug + Send + Sync + 'static,
    F: Fn(&I) -> O + Send + Sync + Clone + 'static,
{
    let k = corpus.len() as u64;
    // what each input gives on a thread of its own
    let mut alone: Vec<Result<O, String>> = vec![];
    for (_, x) in &corpus {
        let (x, f) = (x.clone(), f.clone());
        alone.push(std::thread::spawn(move || guard(|| f(&x))).join().unwrap_or_else(|_| Err("thread died".into())));
    }
    let alone = Arc::new(alone);
    let corpus = Arc::new(corpus);
    let n = 2 * k * k + 4 * k * k * k;
    let sname = name.to_string();
    Site::new(name, n,
        &format!("{what}: every history of 2 and 3 calls over a corpus of {k} inputs x every assignment of the calls to two fresh threads (lock-step): each result equals the input's result on a thread of its own"),
        move |i, acc| {
            acc.eval();
            // decode the history
            let mut steps: Vec<(usize, usize)> = vec![];
            if i < 2 * k * k {
                let (t, r) = (i / (k * k), i % (k * k));
                steps.push((0, (r / k) as usize));
                steps.push((t as usize, (r % k) as usize));
            } else {
                let j = i - 2 * k * k;
                let (t, r) = (j / (k * k * k), j % (k * k * k));
                steps.push((0, (r / (k * k)) as usize));
                steps.push(((t / 2) as usize, ((r / k) % k) as usize));
                steps.push(((t % 2) as usize, (r % k) as usize));
            }
            let _only = ONE_AT_A_TIME.lock().unwrap_or_else(|e| e.into_inner());
            let mut workers = vec![];
            for _ in 0..2 {
                let (tx_in, rx_in) = mpsc::channel::<usize>();
                let (tx_out, rx_out) = mpsc::channel::<Result<O, String>>();
                let (c, f) = (corpus.clone(), f.clone());
                let h = std::thread::spawn(move || {
                    while let Ok(ix) = rx_in.recv() {
                        let r = guard(|| f(&c[ix].1));
                        if tx_out.send(r).is_err() { break; }
                    }
                });
                workers.push((tx_in, rx_out, h));
            }
            let describe = |upto: usize| steps[..=upto].iter().map(|(t, x)| format!("thread {t}: {}", corpus[*x].0)).collect::<Vec<_>>().join("; ");
            let replay = json!({"site": sname, "index": i, "history": steps.iter().map(|(t, x)| format!("thread {t}: {}", corpus[*x].0)).collect::<Vec<_>>()});
            let mut bad: Option<(String, String)> = None;
            for (si, (t, x)) in steps.iter().enumerate() {
                if workers[*t].0.send(*x).is_err() { bad = Some(("worker-died".into(), describe(si))); break; }
                match workers[*t].1.recv_timeout(Duration::from_secs(20)) {
                    Err(_) => { bad = Some(("call-did-not-return".into(), format!("{}: the last call did not return within 20 s", describe(si)))); break; },
                    Ok(r) => {
                        if r != alone[*x] {
                            bad = Some(("result-depends-on-calls-made-by-another-thread".into(), format!("{}: the last call gave {} where the input on its own gives {}", describe(si), short(&r), short(&alone[*x]))));
                            break;
                        }
                    },
                }
            }
            let hung = matches!(&bad, Some((w, _)) if w == "call-did-not-return");
            for (tx, _, h) in workers {
                drop(tx);
                if !hung { let _ = h.join(); }
            }
            match bad {
                None => { acc.class("history-independent-across-threads"); acc.nontrivial(); },
                Some((w, d)) => acc.violate(i, format!("{prop}|cross-thread|{sname}|{w}"), d, replay),
            }
        })
}

fn short<T: Debug>(r: &T) -> String {
    format!("{r:?}").chars().take(120).collect()
}

/// Longer histories on ONE thread: every sequence of 1..=6 calls over a corpus of at most 5 inputs, each history on a
/// thread of its own (so thread-local memory starts empty); every result equals the input's result on its own.
/// (Pairs see a memo of one entry; a small cache with a replacement policy - move-to-front, least recently used -
/// needs three or four distinct values and a revisit before it can go wrong.)
pub fn history_site<I, O, F>(prop: &'static str, name: &str, what: &str, corpus: Vec<(String, I)>, f: F) -> Site
where
    I: Clone + Send + Sync + 'static,
    O: PartialEq + Debug + Send + Sync + 'static,
    F: Fn(&I) -> O + Send + Sync + Clone + 'static,
{
    let k = corpus.len() as u64;
    let mut alone: Vec<Result<O, String>> = vec![];
    for (_, x) in &corpus {
        let (x, f) = (x.clone(), f.clone());
        alone.push(std::thread::spawn(move || guard(|| f(&x))).join().unwrap_or_else(|_| Err("thread died".into())));
    }
    let alone = Arc::new(alone);
    let corpus = Arc::new(corpus);
    let mut starts = vec![];
    let mut n = 0u64;
    for l in 1..=6u32 { starts.push(n); n += k.pow(l); }
    let sname = name.to_string();
    Site::new(name, n,
        &format!("{what}: every sequence of 1..=6 calls over a corpus of {k} inputs, each sequence on a fresh thread: every result equals the input's result on a thread of its own"),
        move |i, acc| {
            acc.eval();
            let l = starts.iter().rposition(|s| *s <= i).unwrap();
            let mut j = i - starts[l];
            let mut hist: Vec<usize> = vec![];
            for _ in 0..=l { hist.push((j % k) as usize); j /= k; }
            let (c, f, h2) = (corpus.clone(), f.clone(), hist.clone());
            let results: Vec<Result<O, String>> = std::thread::spawn(move || h2.iter().map(|ix| guard(|| f(&c[*ix].1))).collect()).join().unwrap_or_default();
            for (step, (ix, r)) in hist.iter().zip(results.iter()).enumerate() {
                if *r != alone[*ix] {
                    let told: Vec<&str> = hist[..=step].iter().map(|x| corpus[*x].0.as_str()).collect();
                    acc.violate(i, format!("{prop}|history|{sname}|result-depends-on-earlier-calls"), format!("after {told:?} the last call gave {} where the input on its own gives {}", short(r), short(&alone[*ix])), json!({"site": sname, "index": i, "history": told}));
                    return;
                }
            }
            if results.len() != hist.len() { acc.violate(i, format!("{prop}|history|{sname}|thread-died"), "the history's thread died".into(), json!({"site": sname, "index": i})); return; }
            acc.class("history-independent");
            acc.nontrivial();
        })
}
