//! Reference model for LFS text: the ten Windows code pages (tables dumped from CPython's codecs
//! by spec/gen_codepages.py), a lead-byte-aware reference decoder, and the character classes
//! used by C10 / C11 / C12.

use std::collections::{BTreeMap, BTreeSet, HashMap};

pub const LETTERS: [char; 10] = ['L', 'G', 'C', 'E', 'T', 'B', 'J', 'S', 'K', 'H'];
/// the order in which the encoder searches for a page
pub const ENC_ORDER: [char; 10] = ['L', 'G', 'C', 'E', 'T', 'B', 'J', 'H', 'S', 'K'];
pub const WINDOWS: [(char, u32); 10] = [
    ('L', 1252), ('G', 1253), ('C', 1251), ('E', 1250), ('T', 1254), ('B', 1257), ('J', 932), ('S', 936), ('K', 949), ('H', 950),
];

pub struct Page {
    pub letter: char,
    pub single: HashMap<u8, char>,
    pub double: HashMap<(u8, u8), char>,
    pub leads: BTreeSet<u8>,
    pub chars: BTreeSet<char>,
}

pub struct Tables {
    pub pages: BTreeMap<char, Page>,
    pub union: BTreeSet<char>,
}

impl Tables {
    pub fn load() -> Tables {
        let path = format!("{}/spec/codepages.tbl", crate::report::VERIF_DIR);
        let text = std::fs::read_to_string(&path).unwrap_or_else(|e| {
            eprintln!("MACHINERY: cannot read {path}: {e} (run ./setup.sh)");
            std::process::exit(3);
        });
        let mut pages: BTreeMap<char, Page> = BTreeMap::new();
        for l in LETTERS {
            let _ = pages.insert(l, Page { letter: l, single: HashMap::new(), double: HashMap::new(), leads: BTreeSet::new(), chars: BTreeSet::new() });
        }
        for line in text.lines() {
            let mut it = line.split(' ');
            let (Some(l), Some(b), Some(cp)) = (it.next(), it.next(), it.next()) else { continue };
            let letter = l.chars().next().unwrap();
            let cp = u32::from_str_radix(cp, 16).unwrap();
            let Some(c) = char::from_u32(cp) else { continue };
            // private-use mappings (EUDC ranges, cp932 0xA0/0xFD..0xFF) are Microsoft plumbing, not characters
            if (0xe000..=0xf8ff).contains(&cp) {
                continue;
            }
            let p = pages.get_mut(&letter).unwrap();
            if b.len() == 2 {
                let _ = p.single.insert(u8::from_str_radix(b, 16).unwrap(), c);
            } else {
                let lead = u8::from_str_radix(&b[..2], 16).unwrap();
                let trail = u8::from_str_radix(&b[2..], 16).unwrap();
                let _ = p.double.insert((lead, trail), c);
                let _ = p.leads.insert(lead);
            }
            if cp >= 0x80 {
                let _ = p.chars.insert(c);
            }
        }
        let mut union = BTreeSet::new();
        for p in pages.values() {
            union.extend(p.chars.iter().copied());
        }
        Tables { pages, union }
    }

    pub fn is_dbcs(&self, letter: char) -> bool {
        matches!(letter, 'J' | 'S' | 'K' | 'H')
    }

    /// A character of `letter`'s page that no page earlier in the encoder's search order has.
    pub fn forcing_char(&self, letter: char) -> Option<char> {
        let p = &self.pages[&letter];
        'outer: for c in &p.chars {
            // skip C1 controls, private use and other oddities
            if (*c as u32) < 0xa1 || (0xe000..=0xf8ff).contains(&(*c as u32)) {
                continue;
            }
            for other in LETTERS {
                if other == letter {
                    continue;
                }
                if self.pages[&other].chars.contains(c) {
                    continue 'outer;
                }
            }
            return Some(*c);
        }
        None
    }

    /// Lead-byte-aware reference decoder. None when the input touches a cell the reference
    /// tables do not define (nothing to compare then).
    pub fn ref_decode(&self, input: &[u8]) -> Option<String> {
        let mut out = String::new();
        let mut page = 'L';
        let mut i = 0;
        while i < input.len() {
            let b = input[i];
            if b == b'^' && i + 1 < input.len() {
                let n = input[i + 1];
                if n == b'^' {
                    out.push_str("^^");
                    i += 2;
                    continue;
                }
                if n == b'8' {
                    out.push_str("^8");
                    page = 'L';
                    i += 2;
                    continue;
                }
                if LETTERS.contains(&(n as char)) {
                    page = n as char;
                    i += 2;
                    continue;
                }
            }
            if b < 0x80 {
                out.push(b as char);
                i += 1;
                continue;
            }
            let p = &self.pages[&page];
            if let Some(c) = p.single.get(&b) {
                out.push(*c);
                i += 1;
                continue;
            }
            if p.leads.contains(&b) && i + 1 < input.len() {
                if let Some(c) = p.double.get(&(b, input[i + 1])) {
                    out.push(*c);
                    i += 2;
                    continue;
                }
            }
            return None;
        }
        Some(out)
    }
}
