//! Hand-written glue to the public typed API: constructors for text-bearing fields, counted
//! collections and the hand-written reader/writer pairs.  Uses public struct fields only.

use std::{net::Ipv4Addr, time::Duration};

use insim::{
    core::{track::Track, vehicle::Vehicle},
    identifiers::{ConnectionId, PlayerId, RequestId},
    insim::*,
    relay::*,
    Packet,
};

pub struct TextField {
    /// spec kind / field names (offsets come from the specification table)
    pub kind: &'static str,
    pub field: &'static str,
    pub width: usize,
    /// variable-width (aligned to 4, `width` = maximum) or fixed
    pub var: bool,
    pub raw: bool,
    /// frame offset of the field
    pub offset: usize,
    /// frame length when fixed (None for variable)
    pub make: fn(&str) -> Packet,
    pub get: fn(&Packet) -> Option<String>,
}

macro_rules! tf {
    ($kind:expr, $field:expr, $w:expr, $var:expr, $raw:expr, $off:expr, $variant:ident, $ty:ident, $f:ident) => {
        TextField {
            kind: $kind,
            field: $field,
            width: $w,
            var: $var,
            raw: $raw,
            offset: $off,
            make: |s| {
                Packet::$variant($ty {
                    $f: s.to_string(),
                    ..Default::default()
                })
            },
            get: |p| match p {
                Packet::$variant(x) => Some(x.$f.clone()),
                _ => None,
            },
        }
    };
}

pub fn text_fields() -> Vec<TextField> {
    vec![
        tf!("ISI", "Admin", 16, false, true, 12, Isi, Isi, admin),
        tf!("ISI", "IName", 16, false, false, 28, Isi, Isi, iname),
        tf!("VER", "Product", 6, false, false, 12, Ver, Ver, product),
        tf!("ISM", "HName", 32, false, false, 8, Ism, Ism, hname),
        tf!("MSO", "Msg", 128, true, false, 8, Mso, Mso, msg),
        tf!("III", "Msg", 64, true, false, 8, Iii, Iii, msg),
        tf!("MST", "Msg", 64, false, false, 4, Mst, Mst, msg),
        tf!("MTC", "Text", 128, true, false, 8, Mtc, Mtc, text),
        tf!("MSX", "Msg", 96, false, false, 4, Msx, Msx, msg),
        tf!("MSL", "Msg", 128, false, false, 4, Msl, Msl, msg),
        tf!("NCN", "UName", 24, false, false, 4, Ncn, Ncn, uname),
        tf!("NCN", "PName", 24, false, false, 28, Ncn, Ncn, pname),
        tf!("CPR", "PName", 24, false, false, 4, Cpr, Cpr, pname),
        tf!("CPR", "Plate", 8, false, false, 28, Cpr, Cpr, plate),
        tf!("NPL", "PName", 24, false, false, 8, Npl, Npl, pname),
        tf!("NPL", "Plate", 8, false, false, 32, Npl, Npl, plate),
        tf!("NPL", "SName", 16, false, false, 44, Npl, Npl, sname),
        tf!("RES", "UName", 24, false, false, 4, Res, Res, uname),
        tf!("RES", "PName", 24, false, false, 28, Res, Res, pname),
        tf!("RES", "Plate", 8, false, false, 52, Res, Res, plate),
        tf!("BTN", "Text", 240, true, false, 12, Btn, Btn, text),
        tf!("BTT", "Text", 96, false, false, 8, Btt, Btt, text),
        tf!("AXI", "LName", 32, false, false, 8, Axi, Axi, lname),
        tf!("RIP", "RName", 64, false, false, 16, Rip, Rip, rname),
        tf!("SSH", "Name", 32, false, false, 8, Ssh, Ssh, name),
        tf!("ACR", "Text", 64, true, false, 8, Acr, Acr, text),
        TextField {
            kind: "HOS",
            field: "HName",
            width: 32,
            var: false,
            raw: false,
            offset: 4,
            make: |s| {
                Packet::RelayHos(Hos {
                    reqi: RequestId(0),
                    hinfo: vec![HostInfo {
                        hname: s.to_string(),
                        ..Default::default()
                    }],
                })
            },
            get: |p| match p {
                Packet::RelayHos(x) => x.hinfo.first().map(|h| h.hname.clone()),
                _ => None,
            },
        },
        tf!("SEL", "HName", 32, false, false, 4, RelaySel, Sel, hname),
        tf!("SEL", "Admin", 16, false, false, 36, RelaySel, Sel, admin),
        tf!("SEL", "Spec", 16, false, false, 52, RelaySel, Sel, spec),
    ]
}

/// Counted kinds: (spec kind name, header bytes before the elements, element size,
/// protocol maximum, constructor for n elements)
pub struct Counted {
    pub kind: &'static str,
    pub header: usize,
    pub elem: usize,
    pub max: usize,
    /// frame offset of the count byte
    pub count_at: usize,
    pub make: fn(usize) -> Option<Packet>,
    pub len_of: fn(&Packet) -> Option<usize>,
}

pub fn counted() -> Vec<Counted> {
    vec![
        Counted {
            kind: "NLP",
            header: 4,
            elem: 6,
            max: 40,
            count_at: 3,
            make: |n| {
                Some(Packet::Nlp(Nlp {
                    reqi: RequestId(1),
                    info: (0..n)
                        .map(|i| NodeLapInfo {
                            node: i as u16 + 1,
                            lap: 2,
                            plid: PlayerId(i as u8),
                            position: (i % 40) as u8 + 1,
                        })
                        .collect(),
                }))
            },
            len_of: |p| match p {
                Packet::Nlp(x) => Some(x.info.len()),
                _ => None,
            },
        },
        Counted {
            kind: "MCI",
            header: 4,
            elem: 28,
            max: 16,
            count_at: 3,
            make: |n| {
                Some(Packet::Mci(Mci {
                    reqi: RequestId(1),
                    info: (0..n)
                        .map(|i| CompCar {
                            node: i as u16,
                            lap: 1,
                            plid: PlayerId(i as u8),
                            position: 1,
                            speed: 100,
                            ..Default::default()
                        })
                        .collect(),
                }))
            },
            len_of: |p| match p {
                Packet::Mci(x) => Some(x.info.len()),
                _ => None,
            },
        },
        Counted {
            kind: "AXM",
            header: 8,
            elem: 8,
            max: 60,
            count_at: 3,
            make: |n| {
                Some(Packet::Axm(Axm {
                    reqi: RequestId(1),
                    info: (0..n)
                        .map(|i| ObjectInfo {
                            x: i as i16,
                            y: -(i as i16),
                            z: 1,
                            flags: 0,
                            index: (i % 200) as u8,
                            heading: 3,
                        })
                        .collect(),
                    ..Default::default()
                }))
            },
            len_of: |p| match p {
                Packet::Axm(x) => Some(x.info.len()),
                _ => None,
            },
        },
        Counted {
            kind: "PLH",
            header: 4,
            elem: 4,
            max: 40,
            count_at: 3,
            make: |n| {
                Some(Packet::Plh(Plh {
                    reqi: RequestId(1),
                    hcaps: (0..n)
                        .map(|i| PlayerHandicap {
                            plid: PlayerId(i as u8),
                            h_mass: (i % 201) as u8,
                            h_tres: (i % 51) as u8,
                            ..Default::default()
                        })
                        .collect(),
                }))
            },
            len_of: |p| match p {
                Packet::Plh(x) => Some(x.hcaps.len()),
                _ => None,
            },
        },
        Counted {
            kind: "MAL",
            header: 8,
            elem: 4,
            max: 120,
            count_at: 3,
            make: |n| {
                let mut m = Mal::default();
                m.reqi = RequestId(1);
                for i in 0..n {
                    let _ = m.insert(Vehicle::Mod(0x0100_0000 + i as u32)).ok()?;
                }
                Some(Packet::Mal(m))
            },
            len_of: |p| match p {
                Packet::Mal(x) => Some(x.len()),
                _ => None,
            },
        },
        Counted {
            kind: "IPB",
            header: 8,
            elem: 4,
            max: 120,
            count_at: 3,
            make: |n| {
                let mut m = Ipb::default();
                m.reqi = RequestId(1);
                for i in 0..n {
                    let _ = m.insert(Ipv4Addr::from(0x0a00_0000u32 + i as u32));
                }
                Some(Packet::Ipb(m))
            },
            len_of: |p| match p {
                Packet::Ipb(x) => Some(x.len()),
                _ => None,
            },
        },
        Counted {
            kind: "HOS",
            header: 4,
            elem: 40,
            max: 6,
            count_at: 3,
            make: |n| {
                Some(Packet::RelayHos(Hos {
                    reqi: RequestId(1),
                    hinfo: (0..n)
                        .map(|i| HostInfo {
                            hname: format!("host{i}"),
                            track: Track::Bl1,
                            numconns: i as u8,
                            ..Default::default()
                        })
                        .collect(),
                }))
            },
            len_of: |p| match p {
                Packet::RelayHos(x) => Some(x.hinfo.len()),
                _ => None,
            },
        },
    ]
}

/// Typed values for the hand-written reader/writer pairs, constructed without the decoder.
/// Every value is representable on the wire by the field's own rule.
pub fn handwritten_typed() -> Vec<(String, Packet)> {
    let mut out: Vec<(String, Packet)> = vec![];
    // ConInfo nibbles: every value of every 4-bit sub-field, in both cars
    for v in 0..16u8 {
        for which in 0..5 {
            let mut a = ConInfo::default();
            let mut b = ConInfo {
                thr: 1,
                brk: 2,
                clu: 3,
                han: 4,
                gearsp: 5,
                ..Default::default()
            };
            for c in [&mut a, &mut b] {
                match which {
                    0 => c.thr = v,
                    1 => c.brk = v,
                    2 => c.clu = v,
                    3 => c.han = v,
                    _ => c.gearsp = v,
                }
            }
            out.push((
                format!("CON nibble {} = {v}", ["thr", "brk", "clu", "han", "gearsp"][which]),
                Packet::Con(Con {
                    reqi: RequestId(0),
                    spclose: 100,
                    time: Duration::from_millis(120),
                    a,
                    b,
                }),
            ));
        }
    }
    // SmallType: durations at wire-value boundaries (multiples of the resolution)
    let wire: Vec<u64> = crate::spec::u32_boundary().into_iter().map(|x| x as u64).collect();
    for w in &wire {
        for (n, mk) in [
            ("Ssp", (|d| SmallType::Ssp(d)) as fn(Duration) -> SmallType),
            ("Ssg", |d| SmallType::Ssg(d)),
            ("Stp", |d| SmallType::Stp(d)),
            ("Rtp", |d| SmallType::Rtp(d)),
        ] {
            out.push((
                format!("SMALL {n} wire {w}"),
                Packet::Small(Small {
                    reqi: RequestId(1),
                    subt: mk(Duration::from_millis(w * 10)),
                }),
            ));
        }
        out.push((
            format!("SMALL Nli wire {w}"),
            Packet::Small(Small {
                reqi: RequestId(1),
                subt: SmallType::Nli(Duration::from_millis(*w)),
            }),
        ));
    }
    for v in [VtnAction::None, VtnAction::End, VtnAction::Restart, VtnAction::Qualify] {
        out.push((
            format!("SMALL Vta {v:?}"),
            Packet::Small(Small {
                reqi: RequestId(1),
                subt: SmallType::Vta(v),
            }),
        ));
    }
    for b in [false, true] {
        out.push((
            format!("SMALL Tms {b}"),
            Packet::Small(Small {
                reqi: RequestId(1),
                subt: SmallType::Tms(b),
            }),
        ));
    }
    // every LCL / LCS named flag on its own and all together
    for (n, f) in LclFlags::all().iter_names() {
        out.push((
            format!("SMALL Lcl {n}"),
            Packet::Small(Small {
                reqi: RequestId(0),
                subt: SmallType::Lcl(f),
            }),
        ));
    }
    for (n, f) in LcsFlags::all().iter_names() {
        out.push((
            format!("SMALL Lcs {n}"),
            Packet::Small(Small {
                reqi: RequestId(0),
                subt: SmallType::Lcs(f),
            }),
        ));
    }
    // allowed cars: each car alone, via the typed set
    for v in all_builtin() {
        let mut set = PlcAllowedCarsSet::default();
        let _ = set.insert(v.clone());
        out.push((
            format!("SMALL Alc {{{v}}}"),
            Packet::Small(Small {
                reqi: RequestId(0),
                subt: SmallType::Alc(set.clone()),
            }),
        ));
        out.push((
            format!("PLC {{{v}}}"),
            Packet::Plc(Plc {
                reqi: RequestId(0),
                ucid: ConnectionId(3),
                cars: set,
            }),
        ));
    }
    // CimMode: every typed variant
    let mut modes = vec![
        CimMode::Options,
        CimMode::HostOptions,
        CimMode::CarSelect,
        CimMode::TrackSelect,
    ];
    for s in [
        CimSubModeNormal::Normal,
        CimSubModeNormal::WheelTemps,
        CimSubModeNormal::WheelDamage,
        CimSubModeNormal::LiveSettings,
        CimSubModeNormal::PitInstructions,
    ] {
        modes.push(CimMode::Normal(s));
    }
    for s in [
        CimSubModeGarage::Info,
        CimSubModeGarage::Colours,
        CimSubModeGarage::BrakeTC,
        CimSubModeGarage::Susp,
        CimSubModeGarage::Steer,
        CimSubModeGarage::Drive,
        CimSubModeGarage::Tyres,
        CimSubModeGarage::Aero,
        CimSubModeGarage::Pass,
    ] {
        modes.push(CimMode::Garage(s));
    }
    for s in [CimSubModeShiftU::Plain, CimSubModeShiftU::Buttons, CimSubModeShiftU::Edit] {
        for seltype in [0u8, 1, 149, 255] {
            modes.push(CimMode::ShiftU { submode: s, seltype });
        }
    }
    for m in modes {
        out.push((
            format!("CIM {m:?}"),
            Packet::Cim(Cim {
                reqi: RequestId(0),
                ucid: ConnectionId(1),
                mode: m,
            }),
        ));
    }
    // RaceLaps: every representable typed value
    let mut laps = vec![RaceLaps::Practice];
    laps.extend((1..=99).map(RaceLaps::Laps));
    laps.extend((100..=1000).step_by(10).map(RaceLaps::Laps));
    laps.extend((1..=48).map(RaceLaps::Hours));
    for l in laps {
        out.push((
            format!("RST {l:?}"),
            Packet::Rst(Rst {
                racelaps: l,
                ..Default::default()
            }),
        ));
    }
    // Fuel / Fuel200
    for v in 0..=254u8 {
        out.push((
            format!("LAP fuel200 {v}"),
            Packet::Lap(Lap {
                fuel200: Fuel200::Percentage(v),
                ..Default::default()
            }),
        ));
        out.push((
            format!("NPL fuel {v}"),
            Packet::Npl(Npl {
                fuel: Fuel::Percentage(v),
                ..Default::default()
            }),
        ));
    }
    out.push((
        "LAP fuel200 No".into(),
        Packet::Lap(Lap {
            fuel200: Fuel200::No,
            ..Default::default()
        }),
    ));
    // Vehicle: every built-in, unknown, mods
    let mut cars = all_builtin();
    cars.push(Vehicle::Unknown);
    for x in crate::spec::u32_boundary() {
        let b = (x as u32).to_le_bytes();
        let builtin_shape = b[3] == 0 && b[..3].iter().all(|c| c.is_ascii_alphanumeric());
        if x != 0 && !builtin_shape {
            cars.push(Vehicle::Mod(x as u32));
        }
    }
    for v in cars {
        out.push((
            format!("SLC {v:?}"),
            Packet::Slc(Slc {
                reqi: RequestId(0),
                ucid: ConnectionId(0),
                cname: v,
            }),
        ));
    }
    // MAL: every element is a mod id, whatever its bytes look like
    for id in [0u32, 1, u32::from_le_bytes(*b"XFG\0"), u32::from_le_bytes(*b"BA9\0"), u32::from_le_bytes(*b"xfg\0"), 0x00ff_ffff, 0x0100_0000, u32::MAX] {
        let mut m = Mal::default();
        let _ = m.insert(Vehicle::Mod(0x00ab_cdef));
        let _ = m.insert(Vehicle::Mod(id));
        out.push((format!("MAL with mod id {id:#010x}"), Packet::Mal(m)));
    }
    // ObjectInfo is one struct carried by three kinds (AXM list elements, JRR start position, UCO object) whose
    // readers may treat it according to the packet's action: every flags byte x the object indices the protocol
    // documents as special (and a few ordinary ones) x every action, built here and not obtained from the decoder
    {
        let indices = [0u8, 1, 48, 149, 160, 240, 252, 253, 254, 255];
        for flags in 0..=255u8 {
            for index in indices {
                let info = ObjectInfo { x: -3, y: 700, z: 9, flags, index, heading: 0x81 };
                for a in [UcoAction::CircleEnter, UcoAction::CircleLeave, UcoAction::CpFwd, UcoAction::CpRev] {
                    out.push((format!("UCO {a:?} object index {index} flags {flags:#04x}"), Packet::Uco(Uco { reqi: RequestId(0), plid: PlayerId(3), ucoaction: a, time: Duration::from_millis(1230), c: CarContact::default(), info: info.clone() })));
                }
                for a in [JrrAction::Reject, JrrAction::Spawn, JrrAction::Reset, JrrAction::ResetNoRepair] {
                    out.push((format!("JRR {a:?} start position index {index} flags {flags:#04x}"), Packet::Jrr(Jrr { reqi: RequestId(1), plid: PlayerId(3), ucid: ConnectionId(2), jrraction: a, startpos: info.clone() })));
                }
                if flags % 5 == 0 || flags >= 0x80 && flags % 3 == 0 {
                    for a in [PmoAction::LoadingFile, PmoAction::AddObjects, PmoAction::DelObjects, PmoAction::ClearAll, PmoAction::TinyAxm, PmoAction::TtcSel, PmoAction::Selection, PmoAction::Position, PmoAction::GetZ] {
                        let other = ObjectInfo { x: 1, y: 2, z: 3, flags: !flags, index: 255 - index, heading: 4 };
                        out.push((format!("AXM {a:?} object index {index} flags {flags:#04x}"), Packet::Axm(Axm { reqi: RequestId(1), ucid: ConnectionId(2), pmoaction: a, pmoflags: PmoFlags::default(), info: vec![other, info.clone()] })));
                    }
                }
            }
        }
    }
    // Mso with multi-codepage name/text and textstart on a character boundary
    for (name, text) in [
        ("abc", "hello"),
        ("^7Player \u{11b} ^7: ", "^8cr\u{161}\u{10d}"),
        ("\u{448}\u{44e}", "\u{448}\u{44e} ok"),
        ("\u{30a2}", "\u{30a2}\u{30a2}"),
        ("", "no name"),
        ("\u{11b}\u{11b}\u{11b}", ""),
    ] {
        out.push((
            format!("MSO name={name:?} text={text:?}"),
            Packet::Mso(Mso {
                reqi: RequestId(0),
                ucid: ConnectionId(1),
                plid: PlayerId(2),
                usertype: MsoUserType::User,
                textstart: name.len() as u8,
                msg: format!("{name}{text}"),
            }),
        ));
    }
    out
}

pub fn all_builtin() -> Vec<Vehicle> {
    vec![
        Vehicle::Xfg,
        Vehicle::Xrg,
        Vehicle::Fbm,
        Vehicle::Xrt,
        Vehicle::Rb4,
        Vehicle::Fxo,
        Vehicle::Lx4,
        Vehicle::Lx6,
        Vehicle::Mrt,
        Vehicle::Uf1,
        Vehicle::Rac,
        Vehicle::Fz5,
        Vehicle::Fox,
        Vehicle::Xfr,
        Vehicle::Ufr,
        Vehicle::Fo8,
        Vehicle::Fxr,
        Vehicle::Xrr,
        Vehicle::Fzr,
        Vehicle::Bf1,
    ]
}

pub fn variant_name(p: &Packet) -> String {
    let d = format!("{p:?}");
    d.split(|c: char| !c.is_alphanumeric())
        .next()
        .unwrap_or("")
        .to_string()
}

/// Every time field of the protocol: (spec kind, spec field, resolution in ms, wire width in bits,
/// setter on a packet of that kind).
pub struct DurField {
    pub kind: &'static str,
    pub field: &'static str,
    pub res_ms: u64,
    pub bits: u32,
    pub set: fn(&mut Packet, Duration) -> bool,
    pub get: fn(&Packet) -> Option<Duration>,
}

macro_rules! df {
    ($kind:expr, $field:expr, $res:expr, $bits:expr, $variant:ident, $f:ident) => {
        DurField {
            kind: $kind,
            field: $field,
            res_ms: $res,
            bits: $bits,
            set: |p, d| match p {
                Packet::$variant(x) => {
                    x.$f = d;
                    true
                },
                _ => false,
            },
            get: |p| match p {
                Packet::$variant(x) => Some(x.$f),
                _ => None,
            },
        }
    };
}

macro_rules! dsmall {
    ($kind:expr, $res:expr, $variant:ident) => {
        DurField {
            kind: $kind,
            field: "UVal",
            res_ms: $res,
            bits: 32,
            set: |p, d| match p {
                Packet::Small(x) => {
                    x.subt = SmallType::$variant(d);
                    true
                },
                _ => false,
            },
            get: |p| match p {
                Packet::Small(x) => match &x.subt {
                    SmallType::$variant(d) => Some(*d),
                    _ => None,
                },
                _ => None,
            },
        }
    };
}

pub fn duration_fields() -> Vec<DurField> {
    vec![
        df!("ISI", "Interval", 1, 16, Isi, interval),
        df!("CPP", "Time", 1, 16, Cpp, time),
        df!("CON", "Time", 10, 16, Con, time),
        df!("OBH", "Time", 10, 16, Obh, time),
        df!("HLV", "Time", 10, 16, Hlv, time),
        df!("LAP", "LTime", 1, 32, Lap, ltime),
        df!("LAP", "ETime", 1, 32, Lap, etime),
        df!("SPX", "STime", 1, 32, Spx, stime),
        df!("SPX", "ETime", 1, 32, Spx, etime),
        df!("PSF", "STime", 1, 32, Psf, stime),
        df!("FIN", "TTime", 1, 32, Fin, ttime),
        df!("FIN", "BTime", 1, 32, Fin, btime),
        df!("RES", "TTime", 1, 32, Res, ttime),
        df!("RES", "BTime", 1, 32, Res, btime),
        df!("RIP", "CTime", 1, 32, Rip, ctime),
        df!("RIP", "TTime", 1, 32, Rip, ttime),
        df!("UCO", "Time", 10, 32, Uco, time),
        df!("CSC", "Time", 10, 32, Csc, time),
        dsmall!("SMALL_SSP", 10, Ssp),
        dsmall!("SMALL_SSG", 10, Ssg),
        dsmall!("SMALL_STP", 10, Stp),
        dsmall!("SMALL_RTP", 10, Rtp),
        dsmall!("SMALL_NLI", 1, Nli),
    ]
}
