//! C14 - the track table is coherent: code, wire bytes, flags and licence agree.

use std::{collections::BTreeMap, io::Cursor, sync::Arc};

use insim::core::{binrw::{BinRead, BinWrite}, track::Track};
use serde_json::json;

use crate::report::{guard, hex, Site, Tier};

include!(concat!(env!("OUT_DIR"), "/tracks.rs"));

fn wire(t: &Track) -> Option<Vec<u8>> {
    let mut c = Cursor::new(Vec::new());
    t.write_le(&mut c).ok()?;
    Some(c.into_inner())
}

pub fn sites(_tier: Tier) -> Vec<Site> {
    let tracks = Arc::new(all_tracks());
    let mut by_wire: BTreeMap<Vec<u8>, &'static str> = BTreeMap::new();
    for (name, t) in tracks.iter() {
        if let Some(w) = wire(t) {
            let _ = by_wire.insert(w, name);
        }
    }
    let by_wire = Arc::new(by_wire);
    let mut sites = vec![];
    {
        let tracks = tracks.clone();
        let n = tracks.len() as u64;
        sites.push(Site::new("variants", n, "every variant of `enum Track` (list taken from the enum declaration at build time)", move |i, acc| {
            let (name, t) = &tracks[i as usize];
            acc.eval();
            let replay = json!({"site": "variants", "index": i, "variant": name});
            let r = guard(|| {
                let code = t.code();
                let mut problems: Vec<(String, String)> = vec![];
                let w = wire(t);
                let mut want = code.as_bytes().to_vec();
                want.resize(6, 0);
                if code.len() > 6 || w.as_deref() != Some(&want[..]) {
                    problems.push(("wire-form-is-not-code".into(), format!("{name}: code {code:?}, wire bytes {}", w.as_deref().map(hex).unwrap_or_default())));
                }
                if let Some(w) = &w {
                    match Track::read_le(&mut Cursor::new(&w[..])) {
                        Ok(back) if back == *t => {},
                        other => problems.push(("wire-form-decodes-to-other".into(), format!("{name}: {} decodes to {other:?}", hex(w)))),
                    }
                }
                if t.to_string() != code {
                    problems.push(("display-differs-from-code".into(), format!("{name}: prints {} but code is {code}", t)));
                }
                let last = code.chars().last().unwrap_or(' ');
                if t.is_reverse() != matches!(last, 'R' | 'Y') {
                    problems.push(("reverse-flag".into(), format!("{name}: code {code} but is_reverse = {}", t.is_reverse())));
                }
                if t.is_open() != matches!(last, 'X' | 'Y') {
                    problems.push(("open-flag".into(), format!("{name}: code {code} but is_open = {}", t.is_open())));
                }
                if t.is_open() && t.distance_mile().is_some() {
                    problems.push(("open-config-has-distance".into(), format!("{name}: open configuration with lap distance {:?}", t.distance_mile())));
                }
                problems
            });
            match r {
                Ok(p) if p.is_empty() => { acc.class("coherent"); acc.nontrivial(); },
                Ok(p) => { acc.class("incoherent"); for (sig, d) in p { acc.violate(i, format!("C14|{sig}|{name}"), d, replay.clone()); } },
                Err(p) => acc.violate(i, format!("C14|panic|{name}"), p, replay),
            }
        }));
    }
    {
        // licence constant per two-letter area
        let tracks = tracks.clone();
        sites.push(Site::new("licence-per-area", 1, "all variants grouped by the two-letter area of their code", move |i, acc| {
            let mut areas: BTreeMap<String, Vec<(String, String)>> = BTreeMap::new();
            for (name, t) in tracks.iter() {
                acc.eval();
                let code = t.code();
                areas.entry(code.chars().take(2).collect()).or_default().push((name.to_string(), format!("{:?}", t.license())));
            }
            for (area, v) in areas {
                let first = &v[0].1;
                acc.nontrivial();
                if let Some(odd) = v.iter().find(|x| &x.1 != first) {
                    acc.violate(i, format!("C14|licence-differs-within-area|{area}"), format!("area {area}: {} requires {}, {} requires {}", v[0].0, first, odd.0, odd.1), json!({"site": "licence-per-area", "index": 0, "area": area}));
                }
            }
            acc.class("areas");
        }));
    }
    {
        // no aliasing: every shaped 6-byte string decodes only if it is exactly a variant's wire form
        let letters: Vec<u8> = (b'A'..=b'Z').chain(b'a'..=b'z').collect();
        let l = letters.len() as u64; // 52
        // shape: L L D [D|0] [L|0] [pad], with optional junk in each padding position
        // positions: c0 c1 letters; c2 digit; c3 in {0, digit, letter}; c4 in {0, letter, digit}; c5 in {0, 'X'}
        let c3: Vec<u8> = std::iter::once(0).chain(b'0'..=b'9').chain(letters.iter().copied()).collect();
        let c4: Vec<u8> = std::iter::once(0).chain(letters.iter().copied()).chain([b'0', b'1']).collect();
        let c5: Vec<u8> = vec![0, b'X', b' '];
        let n = l * l * 10 * c3.len() as u64 * c4.len() as u64 * c5.len() as u64;
        let (letters, c3, c4, c5) = (Arc::new(letters), Arc::new(c3), Arc::new(c4), Arc::new(c5));
        let by_wire = by_wire.clone();
        sites.push(Site::new("shaped-strings", n,
            "all 6-byte strings letter letter digit {NUL|digit|letter} {NUL|letter|digit} {NUL|X|space}, upper and lower case (a superset of the shape LL D[D][L] with junk in every padding position)",
            move |i, acc| {
                let mut j = i;
                let b5 = c5[(j % c5.len() as u64) as usize]; j /= c5.len() as u64;
                let b4 = c4[(j % c4.len() as u64) as usize]; j /= c4.len() as u64;
                let b3 = c3[(j % c3.len() as u64) as usize]; j /= c3.len() as u64;
                let b2 = b'0' + (j % 10) as u8; j /= 10;
                let b1 = letters[(j % l) as usize]; j /= l;
                let b0 = letters[(j % l) as usize];
                let bytes = [b0, b1, b2, b3, b4, b5];
                acc.eval();
                let r = guard(|| Track::read_le(&mut Cursor::new(&bytes[..])));
                let replay = || json!({"site": "shaped-strings", "index": i, "bytes": hex(&bytes)});
                match r {
                    Err(p) => acc.violate(i, "C14|panic|decode".into(), p, replay()),
                    Ok(Err(_)) => {
                        if let Some(name) = by_wire.get(&bytes[..]) {
                            acc.violate(i, format!("C14|own-wire-form-rejected|{name}"), format!("{} is the wire form of {name} but is rejected", hex(&bytes)), replay());
                        } else {
                            acc.class("rejected");
                        }
                    },
                    Ok(Ok(t)) => {
                        match wire(&t) {
                            Some(w) if w[..] == bytes[..] => { acc.class("exact-wire-form"); acc.nontrivial(); },
                            _ => acc.violate(i, format!("C14|aliasing|{t:?}"), format!("{} ({:?}) decodes to {t:?}, whose wire form is different", hex(&bytes), String::from_utf8_lossy(&bytes)), replay()),
                        }
                    },
                }
            }));
    }
    // every code placed at every offset of the field between two runs of a fill byte, every 1-byte mutation of
    // every wire form, and every 2-byte mutation over a 24-symbol alphabet: only the wire form itself decodes
    {
        let codes: Vec<Vec<u8>> = tracks.iter().filter_map(|(_, t)| wire(t)).map(|w| w.into_iter().take_while(|b| *b != 0).collect()).collect();
        let mut cases: Vec<Vec<u8>> = vec![];
        for c in &codes {
            for fill in [0u8, b' ', 0xff, b'0', b'_'] {
                for shift in 0..=(6 - c.len()) {
                    let mut v = vec![fill; shift];
                    v.extend_from_slice(c);
                    v.resize(6, fill);
                    cases.push(v);
                    // and with NULs behind the code but the fill in front
                    let mut v2 = vec![fill; shift];
                    v2.extend_from_slice(c);
                    v2.resize(6, 0);
                    cases.push(v2);
                }
            }
            let mut w = c.clone();
            w.resize(6, 0);
            for pos in 0..6 {
                for b in 0..=255u8 {
                    let mut v = w.clone();
                    v[pos] = b;
                    cases.push(v);
                }
            }
            const A: [u8; 24] = [0, 1, b' ', b'0', b'1', b'9', b'A', b'B', b'R', b'X', b'Y', b'Z', b'a', b'b', b'r', b'x', b'y', b'z', b'_', 0x7f, 0x80, 0xa0, 0xfe, 0xff];
            for p in 0..6 {
                for q in (p + 1)..6 {
                    for a in A {
                        for b in A {
                            let mut v = w.clone();
                            v[p] = a;
                            v[q] = b;
                            cases.push(v);
                        }
                    }
                }
            }
        }
        cases.sort();
        cases.dedup();
        let cases = Arc::new(cases);
        let by_wire = by_wire.clone();
        sites.push(Site::new("placements-and-mutations", cases.len() as u64,
            "every code at every offset of the field between runs of {00, space, ff, '0', '_'} (fill in front, fill or NUL behind); every 1-byte mutation (256 values) and every 2-byte mutation over 24 symbols of every wire form",
            move |i, acc| {
                acc.eval();
                let bytes = &cases[i as usize];
                let replay = || json!({"site": "placements-and-mutations", "index": i, "bytes": hex(bytes)});
                match guard(|| Track::read_le(&mut Cursor::new(&bytes[..]))) {
                    Err(p) => acc.violate(i, "C14|decode|panic".into(), format!("{}: {p}", hex(bytes)), replay()),
                    Ok(Err(_)) => {
                        if by_wire.contains_key(bytes) {
                            acc.violate(i, format!("C14|wire-form-rejected|{}", by_wire[bytes]), format!("{} is the wire form of {}", hex(bytes), by_wire[bytes]), replay());
                        } else {
                            acc.class("rejected");
                            acc.nontrivial();
                        }
                    },
                    Ok(Ok(t)) => match wire(&t) {
                        Some(w) if w[..] == bytes[..] => { acc.class("exact-wire-form"); acc.nontrivial(); },
                        _ => acc.violate(i, format!("C14|aliasing|{t:?}"), format!("{} ({:?}) decodes to {t:?}, whose wire form is different", hex(bytes), String::from_utf8_lossy(bytes)), replay()),
                    },
                }
            }));
    }
    // no memory between calls: every ordered pair of wire forms (and five non-codes) decoded one after the
    // other on the same thread - the second result is what the table says for the second value
    {
        let mut forms: Vec<Vec<u8>> = tracks.iter().filter_map(|(_, t)| wire(t)).collect();
        forms.extend([b"BL1\0\0X".to_vec(), b"bl1\0\0\0".to_vec(), b"ZZ9\0\0\0".to_vec(), vec![0; 6], b"RO11XY".to_vec()]);
        let forms = Arc::new(forms);
        let by_wire = by_wire.clone();
        let n = (forms.len() * forms.len()) as u64;
        sites.push(Site::new("decode-pairs", n,
            "every ordered pair of (wire forms of all variants + five non-codes) decoded back to back on one thread",
            move |i, acc| {
                acc.eval();
                let a = &forms[(i as usize) / forms.len()];
                let b = &forms[(i as usize) % forms.len()];
                let _ = guard(|| Track::read_le(&mut Cursor::new(&a[..])));
                let r = guard(|| Track::read_le(&mut Cursor::new(&b[..])));
                let replay = || json!({"site": "decode-pairs", "index": i, "first": hex(a), "second": hex(b)});
                match r {
                    Err(p) => acc.violate(i, "C14|decode|panic".into(), format!("{} after {}: {p}", hex(b), hex(a)), replay()),
                    Ok(Err(_)) if !by_wire.contains_key(b) => { acc.class("pair-rejected"); acc.nontrivial(); },
                    Ok(Err(_)) => acc.violate(i, format!("C14|history-dependent|{}", by_wire[b]), format!("{} (wire form of {}) is rejected when decoded right after {}", hex(b), by_wire[b], hex(a)), replay()),
                    Ok(Ok(t)) => match wire(&t) {
                        Some(w) if w[..] == b[..] => { acc.class("pair-exact"); acc.nontrivial(); },
                        _ => acc.violate(i, format!("C14|history-dependent|{t:?}"), format!("{} decodes to {t:?} when decoded right after {}", hex(b), hex(a)), replay()),
                    },
                }
            }));
    }
    // ... whatever the earlier call was and however the later value is related to it: every variant encoded or decoded
    // first, then every wire form in 27 rearrangements (reversed, rotated, two bytes swapped, lower case, byte-swapped in
    // pairs) decoded on the same thread - the result is the one the value gets on a thread of its own
    {
        let forms: Vec<Vec<u8>> = tracks.iter().filter_map(|(_, t)| wire(t)).collect();
        let mut inputs: Vec<Vec<u8>> = vec![];
        for f in &forms {
            let mut r = f.clone(); r.reverse(); inputs.push(r);
            for k in 1..6 { let mut x = f.clone(); x.rotate_left(k); inputs.push(x); }
            for a in 0..6 { for b in (a + 1)..6 { let mut x = f.clone(); x.swap(a, b); inputs.push(x); } }
            inputs.push(f.iter().map(|b| b.to_ascii_lowercase()).collect());
            inputs.push(vec![f[1], f[0], f[3], f[2], f[5], f[4]]);
            inputs.push(f.clone());
        }
        inputs.sort(); inputs.dedup();
        let alone: Vec<String> = inputs.iter().map(|b| { let b = b.clone(); std::thread::spawn(move || format!("{:?}", Track::read_le(&mut Cursor::new(&b[..])).map_err(|_| ()))).join().unwrap_or_default() }).collect();
        let (inputs, alone) = (Arc::new(inputs), Arc::new(alone));
        let tracks2 = tracks.clone();
        let n = tracks.len() as u64 * 2;
        sites.push(Site::new("rearranged-after-any-call", n,
            "every variant {encoded, decoded} first, then every wire form reversed / rotated / with two bytes swapped / in lower case / byte-swapped in pairs (about 3000 values) decoded on the same thread: each result is the one the value gets on a thread of its own",
            move |i, acc| {
                let (name, t) = &tracks2[(i / 2) as usize];
                let encode_first = i % 2 == 0;
                let Some(w) = wire(t) else { return };
                for (k, b) in inputs.iter().enumerate() {
                    acc.eval();
                    // (each input is tried right behind the priming call: an intermediate successful decode would replace a memo)
                    let _ = guard(|| if encode_first { let mut c = Cursor::new(Vec::new()); t.write_le(&mut c).is_ok() } else { Track::read_le(&mut Cursor::new(&w[..])).is_ok() });
                    let got = guard(|| format!("{:?}", Track::read_le(&mut Cursor::new(&b[..])).map_err(|_| ())));
                    if got.as_deref() != Ok(alone[k].as_str()) {
                        acc.violate(i, format!("C14|history-dependent|{name}"), format!("{} decoded right after {name} was {}: {got:?}; on a thread of its own: {}", hex(b), if encode_first { "encoded" } else { "decoded" }, alone[k]), json!({"site": "rearranged-after-any-call", "index": i, "input": hex(b)}));
                        return;
                    }
                }
                acc.class("rearranged-values-independent-of-the-call-before");
                acc.nontrivial();
            }));
    }
    // ... nor between threads: histories of 2 and 3 decodes spread over two threads
    {
        let want = ["Bl1", "Bl1r", "So1", "Ro10", "Ro10x", "As7", "Fe6r", "La2", "Ky3y", "We1"];
        let mut corpus: Vec<(String, Vec<u8>)> = vec![];
        for (code, t) in tracks.iter() {
            if want.contains(&&**code) { if let Some(w) = wire(t) { corpus.push((format!("decode {code}"), w.to_vec())); } }
        }
        corpus.push(("decode bl1 (lower case)".into(), b"bl1\0\0\0".to_vec()));
        corpus.push(("decode six NULs".into(), vec![0; 6]));
        sites.push(crate::crossthread::site("C14", "cross-thread-decodes", "track decodes", corpus,
            |b: &Vec<u8>| Track::read_le(&mut Cursor::new(&b[..])).map(|t| format!("{t:?} {} {:?}", t, wire(&t))).map_err(|_| ())));
    }
    // ... nor over longer histories: every sequence of up to 6 decodes over four codes and a non-code, on a fresh thread
    {
        let want = ["So4r", "We2", "As5y", "Bl1"];
        let mut corpus: Vec<(String, Vec<u8>)> = vec![];
        for (code, t) in tracks.iter() { if want.contains(&&**code) { if let Some(w) = wire(t) { corpus.push((format!("decode {code}"), w.to_vec())); } } }
        corpus.push(("decode ZZ9 (no track)".into(), b"ZZ9\0\0\0".to_vec()));
        sites.push(crate::crossthread::history_site("C14", "decode-histories", "track decodes", corpus,
            |b: &Vec<u8>| Track::read_le(&mut Cursor::new(&b[..])).map(|t| format!("{t:?} {:?}", wire(&t))).map_err(|_| ())));
    }
    // the 6 bytes delivered in pieces: same track (or the same refusal) as from a plain cursor
    {
        let mut forms: Vec<Vec<u8>> = tracks.iter().filter_map(|(_, t)| wire(t)).collect();
        forms.extend([b"BL1\0\0X".to_vec(), b"bl1\0\0\0".to_vec(), b"ZZ9\0\0\0".to_vec(), vec![0; 6], b"RO11XY".to_vec()]);
        let forms = Arc::new(forms);
        let n = forms.len() as u64 * 32 * 2 * 32;
        sites.push(Site::new("short-reads", n,
            "every variant's wire form and five non-codes x field at stream offset {0, 3} x every way a reader can deliver the 6 bytes in pieces (32 compositions) x every subset of the first 5 read calls failing with Interrupted (EINTR: retry)",
            move |i, acc| {
                acc.eval();
                let intr = i % 32;
                let i = i / 32;
                let f = &forms[(i / 64) as usize];
                let off = if (i / 32) % 2 == 0 { 0usize } else { 3 };
                let mask = (i % 32) << off;
                let mut data = vec![0x55u8; off];
                data.extend_from_slice(f);
                data.extend_from_slice(&[0x66, 0x77]);
                let plain = {
                    let mut c = Cursor::new(&data[..]);
                    c.set_position(off as u64);
                    let r = Track::read_le(&mut c);
                    (format!("{r:?}"), c.position() as usize)
                };
                let chopped = guard(|| {
                    let mut c = crate::choppy::Choppy::new(data.clone(), mask, 64);
                    c.interrupt_calls = intr;
                    let _ = std::io::Seek::seek(&mut c, std::io::SeekFrom::Start(off as u64));
                    let r = Track::read_le(&mut c);
                    (format!("{r:?}"), c.position())
                });
                let replay = json!({"site": "short-reads", "index": i * 32 + intr, "bytes": hex(f), "offset": off, "cuts": mask >> off, "interrupted_calls": intr});
                let i = i * 32 + intr;
                match chopped {
                    Err(p) => acc.violate(i, "C14|short-read|panic".into(), p, replay),
                    Ok(c) if c == plain => { acc.class("short-read-agrees"); acc.nontrivial(); },
                    Ok(c) => acc.violate(i, "C14|short-read|differs-from-plain-read".into(),
                        format!("{} read in pieces (cuts {:05b}) gives {} leaving the reader at {}, in one piece {} at {}", hex(f), mask >> off, c.0, c.1, plain.0, plain.1), replay),
                }
            }));
    }
    sites
}

pub fn run(tier: Tier, replay: Option<String>) -> i32 {
    super::run_e1("C14", tier, "exploration", replay, sites(tier),
        "all variants of enum Track x cross-table oracles; all shaped 6-byte strings (upper/lower case, junk in padding positions) for aliasing; non-trivial = variants checked + shaped strings that decode",
        vec!["the variant list is extracted from /repo/insim_core/src/track.rs by the harness build script".into(),
             "only what the property states is judged (a closed configuration without a lap distance, e.g. car parks, is fine)".into()],
        |_, _| {})
}
