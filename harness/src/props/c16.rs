//! C16 - game versions parse totally, print re-parseably and order consistently.

use std::{cmp::Ordering, str::FromStr, sync::{atomic::{AtomicU64, Ordering as AO}, Arc}};

use bytes::BytesMut;
use insim::{core::game_version::GameVersion, net::{Codec, Mode}, Packet};
use serde_json::json;

use crate::report::{guard, hex, Acc, Site, Tier};

pub const ALPHA: [char; 13] = ['0', '1', '7', '9', '.', 'A', 'f', 'z', '-', ' ', '\u{663}', '\u{e9}', '\0'];

// loop guard: every worker publishes the case it is working on; a watchdog thread reports a case
// that does not finish (the parser is a hand-written loop over a peekable iterator)
const LONG_BIT: u64 = 1 << 62;
static SLOTS: [AtomicU64; 64] = [const { AtomicU64::new(u64::MAX) }; 64];

fn slot() -> usize {
    rayon::current_thread_index().unwrap_or(63).min(63)
}

pub fn start_watchdog(alpha_len: u64) {
    let _ = std::thread::spawn(move || {
        let mut last = [u64::MAX; 64];
        let mut since = [0u32; 64];
        loop {
            std::thread::sleep(std::time::Duration::from_millis(500));
            for i in 0..64 {
                let cur = SLOTS[i].load(AO::Relaxed);
                if cur != u64::MAX && cur == last[i] {
                    since[i] += 1;
                    if since[i] >= 40 {
                        let _ = alpha_len;
                        let site = if cur & LONG_BIT != 0 { "long-strings" } else { "strings" };
                        let cur = cur & !LONG_BIT;
                        println!("VIOLATION property=C16 replay=/verif/replays/C16/stuck-case-{site}-{cur}.json");
                        println!("  signature: C16|parse|does-not-terminate");
                        println!("  witness:   {site} case #{cur} has been running for 20 s");
                        let _ = std::fs::create_dir_all("/verif/replays/C16");
                        let _ = std::fs::write(format!("/verif/replays/C16/stuck-case-{site}-{cur}.json"), json!({"property": "C16", "site": site, "index": cur, "signature": "C16|parse|does-not-terminate"}).to_string());
                        std::process::exit(1);
                    }
                } else {
                    last[i] = cur;
                    since[i] = 0;
                }
            }
        }
    });
}

/// Distinct *representations*: a missing revision and an explicit revision 0 are equal versions
/// but both must take part in the order axioms (cmp must agree with == on exactly such pairs).
fn key(v: &GameVersion) -> (u32, char, Option<usize>) {
    (v.major.to_bits(), v.minor, v.patch)
}

/// The specified order: number, then letter, then revision (missing = 0).
fn ref_cmp(a: &GameVersion, b: &GameVersion) -> Ordering {
    a.major
        .partial_cmp(&b.major)
        .unwrap_or(Ordering::Equal)
        .then(a.minor.cmp(&b.minor))
        .then(a.patch.unwrap_or(0).cmp(&b.patch.unwrap_or(0)))
}

fn nth_string(mut j: u64, len: usize, alpha: &[char]) -> String {
    let k = alpha.len() as u64;
    let mut s = String::new();
    for _ in 0..len {
        s.push(alpha[(j % k) as usize]);
        j /= k;
    }
    s
}

const DEEP_SYMS: [&str; 10] = ["\0", " ", "\t", "\n", "0", "1", "9", ".", "A", "\u{663}"];
fn deep_cases(tier: Tier) -> Vec<(usize, usize, usize)> {
    let lens: &[usize] = if tier == Tier::Thorough { &[1 << 12, 1 << 16, 1 << 20, 1 << 22] } else { &[1 << 12, 1 << 16, 1 << 20] };
    let mut v = vec![];
    for s in 0..DEEP_SYMS.len() { for &l in lens { for shape in 0..5 { v.push((s, l, shape)); } } }
    v
}
fn deep_cases_label(tier: Tier, i: u64) -> String {
    let (s, l, shape) = deep_cases(tier)[i as usize];
    format!("{:?} x {l}, shape {}", DEEP_SYMS[s], ["run", "0.7F+run", "run+0.7F", "0.7+run+F", "0.7F1+run"][shape])
}
/// The one-case runner built in the dev profile (see /verif/deepbin and ./check).
fn deep_bin() -> String { std::env::var("VERIF_DEEP_BIN").unwrap_or_else(|_| "/verif/target/deep/debug/deep".into()) }
/// `mc C16 --child deep <index>`: parse one very long text on the main thread of this process.
pub fn child_deep(tier: Tier, rest: &[String]) -> i32 {
    let Some(i) = rest.first().and_then(|x| x.parse::<usize>().ok()) else { return 2 };
    let Some(&(s, l, shape)) = deep_cases(tier).get(i) else { return 2 };
    let run = DEEP_SYMS[s].repeat(l);
    let text = match shape { 0 => run, 1 => format!("0.7F{run}"), 2 => format!("{run}0.7F"), 3 => format!("0.7{run}F"), _ => format!("0.7F1{run}") };
    let _ = std::thread::spawn(|| { std::thread::sleep(std::time::Duration::from_secs(60)); println!("hang"); std::process::exit(1); });
    match guard(|| GameVersion::from_str(&text)) {
        Err(p) => { println!("panic\n{p}"); 1 },
        Ok(Err(_)) => { println!("rejected"); 0 },
        Ok(Ok(v)) => {
            if v.major.is_finite() {
                let printed = v.to_string();
                match guard(|| GameVersion::from_str(&printed)) {
                    Ok(Ok(w)) if w == v => {},
                    _ => { println!("not-reparseable\n{v:?} prints as {} bytes that do not parse back to it", printed.len()); return 1; },
                }
            }
            println!("parsed");
            0
        },
    }
}

fn check_string(s: &str, order: u64, site: &str, acc: &mut Acc) -> Option<GameVersion> {
    acc.eval();
    let replay = json!({"site": site, "index": order, "string": s});
    let r = guard(|| GameVersion::from_str(s));
    let v = match r {
        Err(p) => { acc.class("panic"); acc.violate(order, "C16|parse|panic".into(), format!("from_str({s:?}) panicked: {p}"), replay); return None; },
        Ok(Err(_)) => { acc.class("rejected"); return None; },
        Ok(Ok(v)) => v,
    };
    acc.class("parsed");
    acc.nontrivial();
    if v.major.is_finite() {
        let printed = v.to_string();
        match guard(|| GameVersion::from_str(&printed)) {
            Ok(Ok(w)) if w == v => {},
            other => acc.violate(order, "C16|print|not-reparseable".into(), format!("{s:?} parses to {v:?}, prints as {printed:?}, which parses to {}", match other { Ok(Ok(w)) => format!("{w:?}"), Ok(Err(e)) => format!("error {e}"), Err(p) => format!("panic {p}") }), replay.clone()),
        }
    }
    // the letter is case-insensitive
    let swapped: String = s.chars().map(|c| if c.is_ascii_lowercase() { c.to_ascii_uppercase() } else if c.is_ascii_uppercase() { c.to_ascii_lowercase() } else { c }).collect();
    if swapped != s {
        match guard(|| GameVersion::from_str(&swapped)) {
            Ok(Ok(w)) if w == v => {},
            other => acc.violate(order, "C16|parse|letter-case-sensitive".into(), format!("{s:?} -> {v:?} but {swapped:?} -> {}", match other { Ok(Ok(w)) => format!("{w:?}"), Ok(Err(e)) => format!("error {e}"), Err(p) => format!("panic {p}") }), replay),
        }
    }
    Some(v)
}

pub fn sites(tier: Tier) -> Vec<Site> {
    let maxlen: usize = if tier == Tier::Thorough { 7 } else { 6 };
    let k = ALPHA.len() as u64;
    let mut starts = vec![];
    let mut count = 0u64;
    for l in 0..=maxlen {
        starts.push(count);
        count += k.pow(l as u32);
    }
    let mut sites = vec![];
    {
        let starts = starts.clone();
        sites.push(Site::new("strings", count,
            &format!("all strings of length 0..={maxlen} over {{0 1 7 9 . A f z - space arabic-indic-3 e-acute NUL}}"),
            move |i, acc| {
                let mut l = 0;
                for (q, s) in starts.iter().enumerate() { if i >= *s { l = q; } }
                let s = nth_string(i - starts[l], l, &ALPHA);
                SLOTS[slot()].store(i, AO::Relaxed);
                let _ = check_string(&s, i, "strings", acc);
                SLOTS[slot()].store(u64::MAX, AO::Relaxed);
                if i % 500_009 == 0 { acc.sample(|| json!({"string": s})); }
            }));
    }
    // long strings: a run of one symbol of every length 0..=200 inside each of four frames, ended by each
    // symbol (incl. 2-, 3- and 4-byte numerals): "any length" met with lengths far above any buffer or
    // excerpt size in the parser
    {
        let fillers: Vec<char> = vec!['1', '0', '9', '.', 'A', ' ', '\u{663}', '\u{967}', '\u{1d7cf}', '\u{e9}'];
        let tails: Vec<&'static str> = vec!["", "1", "A", ".", "\u{663}", "\u{967}", "\u{1d7cf}", "\u{e9}", "A1", "-"];
        let frames: Vec<(&'static str, &'static str)> = vec![("", ""), ("0.7A", ""), ("0.", "A"), ("", "B12")];
        let per_len = (fillers.len() * tails.len() * frames.len()) as u64;
        let n = 201 * per_len;
        sites.push(Site::new("long-strings", n,
            "prefix {nothing, 0.7A, 0., nothing} + one symbol of {1 0 9 . A space, 2-, 3- and 4-byte numerals, e-acute} repeated 0..=200 times + tail of 10 + suffix {nothing, nothing, A, B12}",
            move |i, acc| {
                let len = (i / per_len) as usize;
                let r = (i % per_len) as usize;
                let f = fillers[r % fillers.len()];
                let t = tails[(r / fillers.len()) % tails.len()];
                let (pre, suf) = frames[r / (fillers.len() * tails.len())];
                let mut s = String::from(pre);
                for _ in 0..len { s.push(f); }
                s.push_str(t);
                s.push_str(suf);
                SLOTS[slot()].store(i | LONG_BIT, AO::Relaxed);
                let _ = check_string(&s, i, "long-strings", acc);
                SLOTS[slot()].store(u64::MAX, AO::Relaxed);
            }));
    }
    // revisions (and whole numbers) either side of every power of two a machine word may end at
    {
        let mut nums: Vec<u128> = vec![];
        for k in [8u32, 16, 31, 32, 53, 63, 64, 65, 127] { for d in 0..=8u128 { nums.push((1u128 << k) - 4 + d); } }
        for d in 0..=30u128 { nums.push(u64::MAX as u128 - 12 + d); }
        nums.sort(); nums.dedup();
        let forms = ["0.7F{}", "0.7f00{}", "0.7{}", "{}.5A", "0.{}Z9", "1A{}"];
        let n = (nums.len() * forms.len()) as u64;
        let nums = Arc::new(nums);
        sites.push(Site::new("boundary-numbers", n,
            "every n within 4 of 2^8, 2^16, 2^31, 2^32, 2^53, 2^63, 2^64, 2^65, 2^127 (and usize::MAX - 12 ..= usize::MAX + 18) as the revision (with and without leading zeros), as the whole number, as the fraction: no panic; parse, print, re-parse",
            move |i, acc| {
                let v = nums[(i as usize) / forms.len()];
                let s = forms[(i as usize) % forms.len()].replace("{}", &v.to_string());
                let _ = check_string(&s, i, "boundary-numbers", acc);
            }));
    }
    // every Unicode scalar value where a digit, a letter or nothing is expected: total, and what parses prints and re-parses
    sites.push(Site::new("any-scalar-value", 0x11_0000 * 4,
        "every Unicode scalar value c (all 1 112 064) in the texts 0.7c, c.7F, 0.7Fc, 0.c5F: no panic; parse, print, re-parse",
        move |i, acc| {
            let Some(c) = char::from_u32((i / 4) as u32) else { return };
            let s = match i % 4 { 0 => format!("0.7{c}"), 1 => format!("{c}.7F"), 2 => format!("0.7F{c}"), _ => format!("0.{c}5F") };
            let _ = check_string(&s, i, "any-scalar-value", acc);
        }));
    // two lengths at once: the number of fraction zeros and the number of revision digits, in well-formed texts with and
    // without a leading zero (the printed form may be longer than the text: any limit on either meets the other here)
    {
        let leads = ["", "0", "00", "12"];
        let digits = ["1", "9", ""];
        let letters = ["F", "", "f"];
        let per = (leads.len() * digits.len() * letters.len() * 2) as u64;
        let n = 65 * 25 * per;
        sites.push(Site::new("length-grid", n,
            "lead {nothing, 0, 00, 12} + '.' + 0..=64 zeros + {1, 9, nothing} + letter {F, nothing, f} + revision of 0..=24 digits (with / without a leading zero): parse, print, re-parse",
            move |i, acc| {
                let mut j = i;
                let lz = j % 2 == 1; j /= 2;
                let letter = letters[(j % 3) as usize]; j /= 3;
                let d = digits[(j % 3) as usize]; j /= 3;
                let lead = leads[(j % 4) as usize]; j /= 4;
                let r = (j % 25) as usize; j /= 25;
                let z = j as usize;
                let mut s = String::from(lead);
                s.push('.');
                for _ in 0..z { s.push('0'); }
                s.push_str(d);
                s.push_str(letter);
                for k in 0..r { s.push(if k == 0 && lz { '0' } else { char::from(b'1' + (k % 9) as u8) }); }
                let _ = check_string(&s, i, "length-grid", acc);
            }));
    }
    // no memory between calls: every ordered pair of strings of length <= 2 over the alphabet parsed back to back
    {
        let mut short: Vec<String> = vec![String::new()];
        for x in ALPHA { short.push(x.to_string()); }
        for x in ALPHA { for y in ALPHA { short.push(format!("{x}{y}")); } }
        for x in ["0.7F", "0.7F1", "0.6U13", "1A", "0.7f", "99999999999999999999999999999999999999999B"] { short.push(x.to_string()); }
        // texts that are prefixes of one another, through the lengths a wire field (8 bytes) and a machine word care about
        for base in ["0.7A1234567891234", "12345678.5Z77"] { for l in 3..=base.len() { short.push(base[..l].to_string()); } }
        let short = Arc::new(short);
        let n = (short.len() * short.len()) as u64;
        sites.push(Site::new("parse-pairs", n,
            "every ordered pair of (strings of length <= 2 over the alphabet + six version texts) parsed back to back on one thread: the second result is the one the string has on its own",
            move |i, acc| {
                acc.eval();
                let a = &short[(i as usize) / short.len()];
                let b = &short[(i as usize) % short.len()];
                let f = |s: &str| format!("{:?}", guard(|| GameVersion::from_str(s).map(|v| (v.to_string(), v)).map_err(|e| e.to_string())));
                let alone = f(b);
                let _ = f(a);
                let after = f(b);
                if alone == after { acc.class("pair-agrees"); acc.nontrivial(); }
                else { acc.violate(i, "C16|history-dependent".into(), format!("{b:?} parses to {after} right after {a:?}, to {alone} otherwise"), json!({"site": "parse-pairs", "index": i})); }
            }));
    }
    // every number a version can carry: all non-negative finite f32 (thorough: all 2^31 bit patterns;
    // quick: every 2048th): print, parse, same bits
    {
        let step: u64 = if tier == Tier::Thorough { 1 } else { 2048 };
        let n = (1u64 << 31) / step;
        sites.push(Site::new("all-numbers", n,
            "every non-negative finite f32 as the number of a version (thorough: all 2^31 bit patterns, quick: every 2048th), with letter A and without a revision: the printed form parses back to the same bits",
            move |i, acc| {
                let bits = (i * step) as u32;
                let x = f32::from_bits(bits);
                if !x.is_finite() { return; }
                acc.eval();
                let v = GameVersion { major: x, minor: 'A', patch: None };
                let printed = v.to_string();
                match guard(|| GameVersion::from_str(&printed)) {
                    Ok(Ok(w)) if w.major.to_bits() == bits && w.minor == 'A' && w.patch.unwrap_or(0) == 0 => { acc.class("number-reparsed"); acc.nontrivial(); },
                    other => acc.violate(i, "C16|print|number-not-reparseable".into(),
                        format!("the number with bits {bits:#010x} prints as {printed:?}, which parses to {}", match other { Ok(Ok(w)) => format!("{:#010x} ({w:?})", w.major.to_bits()), Ok(Err(e)) => format!("error {e}"), Err(p) => format!("panic {p}") }),
                        json!({"site": "all-numbers", "index": i, "bits": bits})),
                }
            }));
    }
    // 8-byte wire forms through the VER packet
    {
        let n: u64 = 10 * 10 * 11 * 26 * 2 * 111;
        sites.push(Site::new("wire-forms", n,
            "all 8-byte wire forms D . D [D] letter(upper|lower) [D[D]] NUL-padded, through the IS_VER packet codec",
            |i, acc| {
                let mut j = i;
                let rev = (j % 111) as u32; j /= 111;
                let lower = j % 2 == 1; j /= 2;
                let letter = (b'A' + (j % 26) as u8) as char; j /= 26;
                let d3 = (j % 11) as u32; j /= 11;
                let d2 = (j % 10) as u32; j /= 10;
                let d1 = (j % 10) as u32;
                let mut s = format!("{d1}.{d2}");
                if d3 < 10 { s.push_str(&d3.to_string()); }
                s.push(if lower { letter.to_ascii_lowercase() } else { letter });
                if rev >= 1 && rev <= 10 { s.push_str(&(rev - 1).to_string()); } else if rev > 10 { s.push_str(&format!("{:02}", rev - 11)); }
                if s.len() > 8 { return; }
                acc.eval();
                let mut frame = vec![5u8, 2, 0, 0];
                let mut vb = s.as_bytes().to_vec(); vb.resize(8, 0);
                frame.extend_from_slice(&vb);
                frame.extend_from_slice(b"S3\0\0\0\0");
                frame.extend_from_slice(&[9, 0]);
                let replay = json!({"site": "wire-forms", "index": i, "version": s});
                let codec = Codec::new(Mode::Compressed);
                let mut buf = BytesMut::from(&frame[..]);
                let p = match guard(|| codec.decode(&mut buf)) {
                    Ok(Ok(Some(Packet::Ver(v)))) => v,
                    other => { acc.violate(i, "C16|wire|form-rejected".into(), format!("VER with version {s:?}: {}", match other { Ok(Err(e)) => e.to_string().chars().take(80).collect::<String>(), Err(p) => p, _ => "not a VER".into() }), replay); return; },
                };
                let direct = GameVersion::from_str(&s);
                if direct.as_ref().ok() != Some(&p.version) {
                    acc.violate(i, "C16|wire|field-parser-differs-from-from_str".into(), format!("{s:?}: packet gives {:?}, from_str gives {direct:?}", p.version), replay.clone());
                }
                let printed = p.version.to_string();
                if GameVersion::from_str(&printed).ok().as_ref() != Some(&p.version) {
                    acc.violate(i, "C16|print|not-reparseable".into(), format!("{s:?} -> {:?} -> {printed:?}", p.version), replay.clone());
                }
                match guard(|| codec.encode(&Packet::Ver(p.clone()))) {
                    Ok(Ok(b)) => {
                        let mut buf2 = BytesMut::from(&b[..]);
                        match guard(|| codec.decode(&mut buf2)) {
                            Ok(Ok(Some(Packet::Ver(v2)))) if v2.version == p.version => { acc.class("stable"); acc.nontrivial(); },
                            other => acc.violate(i, "C16|wire|version-changes-across-encode-decode".into(), format!("{s:?} -> {:?} -> {} -> {other:?}", p.version, hex(&b)), replay),
                        }
                    },
                    other => acc.violate(i, "C16|wire|decoded-version-not-encodable".into(), format!("{s:?}: {other:?}"), replay),
                }
            }));
    }
    // order axioms
    {
        // the distinct versions parsed from the length <= 5 strings
        let mut vs: Vec<GameVersion> = vec![];
        let mut seen = std::collections::BTreeSet::new();
        for l in 0..=5usize {
            for j in 0..k.pow(l as u32) {
                let s = nth_string(j, l, &ALPHA);
                if let Ok(Ok(v)) = guard(|| GameVersion::from_str(&s)) {
                    if seen.insert(key(&v)) { vs.push(v); }
                }
            }
        }
        // plus a stratified set with wider numbers / letters / revisions
        for m in ["0", "0.04", "0.1", "0.5", "0.6", "0.7", "0.70", "1", "10", "00.7"] {
            for l in ['A', 'B', 'K', 'Z', 'a', 'z'] {
                for r in ["", "0", "1", "2", "9", "10", "99", "100"] {
                    if let Ok(v) = GameVersion::from_str(&format!("{m}{l}{r}")) {
                        if seen.insert(key(&v)) { vs.push(v); }
                    }
                }
            }
        }
        // and a third stratum: revisions around every power of two a conversion could stumble over (up to
        // usize::MAX), and numbers one float apart
        {
            let mut revs: Vec<u128> = vec![];
            for k in [8u32, 16, 24, 31, 32, 33, 52, 53, 54, 63, 64] {
                for d in [-2i128, -1, 0, 1, 2] {
                    let x = (1i128 << k) + d;
                    if x >= 0 && x <= usize::MAX as i128 { revs.push(x as u128); }
                }
            }
            revs.sort(); revs.dedup();
            let f = 0.7f32;
            // (and a number that overflows to infinity: forty nines)
            let nums = [format!("{}", f), format!("{}", f32::from_bits(f.to_bits() + 1)), format!("{}", f32::from_bits(f.to_bits() - 1)), "9".repeat(40), format!("{}", f32::MAX), "0".to_string()];
            for m in &nums {
                for l in ['F', 'G'] {
                    for r in &revs {
                        if let Ok(v) = GameVersion::from_str(&format!("{m}{l}{r}")) {
                            if seen.insert(key(&v)) { vs.push(v); }
                        }
                    }
                }
            }
        }
        let vs = Arc::new(vs);
        let n = vs.len() as u64;
        {
            let vs = vs.clone();
            sites.push(Site::new("order-pairs", n * n, "all ordered pairs of the distinct versions parsed from the length <= 5 strings plus a stratified set (numbers x letters x revisions) and a set with revisions around 2^8 .. 2^64 and numbers one float apart", move |i, acc| {
                let a = &vs[(i / n) as usize];
                let b = &vs[(i % n) as usize];
                acc.eval();
                let replay = json!({"site": "order-pairs", "index": i, "a": a.to_string(), "b": b.to_string()});
                let r = guard(|| (a.cmp(b), b.cmp(a), a == b, a.partial_cmp(b)));
                match r {
                    Err(p) => acc.violate(i, "C16|order|panic".into(), p, replay),
                    Ok((ab, ba, eq, pc)) => {
                        let mut ok = true;
                        if ab != ba.reverse() { ok = false; acc.violate(i, "C16|order|not-antisymmetric".into(), format!("cmp({a}, {b}) = {ab:?} but cmp({b}, {a}) = {ba:?}"), replay.clone()); }
                        if (ab == Ordering::Equal) != eq { ok = false; acc.violate(i, "C16|order|inconsistent-with-equality".into(), format!("cmp({a:?}, {b:?}) = {ab:?} but == is {eq}"), replay.clone()); }
                        if pc != Some(ab) { ok = false; acc.violate(i, "C16|order|partial-cmp-differs".into(), format!("{a} vs {b}"), replay.clone()); }
                        if ab != ref_cmp(a, b) { ok = false; acc.violate(i, "C16|order|not-number-letter-revision".into(), format!("cmp({a:?}, {b:?}) = {ab:?}, number-then-letter-then-revision gives {:?}", ref_cmp(a, b)), replay); }
                        if ok { acc.class(match ab { Ordering::Less => "less", Ordering::Equal => "equal", Ordering::Greater => "greater" }); acc.nontrivial(); }
                    },
                }
            }));
        }
        {
            let m = vs.len().min(if tier == Tier::Thorough { 300 } else { 150 });
            // stratified subset: evenly spaced in the (sorted by reference order) list
            let mut sorted: Vec<GameVersion> = vs.iter().cloned().collect();
            sorted.sort_by(ref_cmp);
            let step = (sorted.len() as f64 / m as f64).max(1.0);
            let sub: Vec<GameVersion> = (0..m).map(|q| sorted[((q as f64 * step) as usize).min(sorted.len() - 1)].clone()).collect();
            let sub = Arc::new(sub);
            let m = sub.len() as u64;
            sites.push(Site::new("order-triples", m * m * m, "all ordered triples of a stratified subset (evenly spaced over the reference order) for transitivity", move |i, acc| {
                let a = &sub[(i / (m * m)) as usize];
                let b = &sub[((i / m) % m) as usize];
                let c = &sub[(i % m) as usize];
                acc.eval();
                if a.cmp(b) != Ordering::Greater && b.cmp(c) != Ordering::Greater {
                    acc.nontrivial();
                    if a.cmp(c) == Ordering::Greater {
                        acc.violate(i, "C16|order|not-transitive".into(), format!("{a} <= {b} <= {c} but {a} > {c}"), json!({"site": "order-triples", "index": i}));
                    }
                }
            }));
        }
    }
    // very long runs of one symbol (2^12 .. 2^20 of them; 2^22 in the thorough tier) in front of, inside and behind a
    // version: a parser whose stack depth or work grows with the text dies here.  A stack overflow aborts the
    // process, so every case is parsed in a child process (default 8 MiB main-thread stack) and a dead child is
    // the verdict for the case in flight.
    {
        let n = deep_cases(tier).len() as u64;
        let tier_name = tier.name();
        sites.push(Site::new("very-long-runs", n,
            "10 symbols (NUL, space, tab, newline, 0, 1, 9, '.', A, a 2-byte numeral) x run lengths 2^12, 2^16, 2^20 (thorough: 2^22) x 5 shapes (alone, behind 0.7F, in front of 0.7F, inside 0.7_F, behind 0.7F1); each parsed in a child process of this build and in one of an unoptimised build of the library (/verif/deepbin): no panic, no abort, no hang; parse, print, re-parse",
            move |i, acc| {
                // twice: in this (optimised) build and in the unoptimised one - what an optimiser quietly repairs
                // (a recursion it turns into a loop) is live in the builds users test with
                let (s, l, shape) = deep_cases(tier)[i as usize];
                let cp = format!("{:x}", DEEP_SYMS[s].chars().next().unwrap() as u32);
                let exe = std::env::current_exe().unwrap();
                let runs: [(&str, std::io::Result<std::process::Output>); 2] = [
                    ("optimised build", std::process::Command::new(&exe).args(["C16", "--tier", tier_name, "--child", "deep", &i.to_string()]).output()),
                    ("unoptimised build", std::process::Command::new(deep_bin()).args([cp.as_str(), &l.to_string(), &shape.to_string()]).output()),
                ];
                for (build, out) in runs {
                    acc.eval();
                    let replay = json!({"site": "very-long-runs", "index": i});
                    match out {
                        Err(e) => panic!("MACHINERY: cannot spawn the child ({build}): {e}"),
                        Ok(o) => match o.status.code() {
                            Some(0) => { if o.stdout.starts_with(b"parsed") { acc.nontrivial(); acc.class("parsed"); } else { acc.class("rejected"); } },
                            Some(1) => acc.violate(i, format!("C16|very-long-runs|{}", String::from_utf8_lossy(&o.stdout).lines().next().unwrap_or("failed")), format!("case #{i} ({}), {build}: {}", deep_cases_label(tier, i), String::from_utf8_lossy(&o.stdout)), replay),
                            Some(2) => panic!("MACHINERY: the child ({build}) refused its arguments"),
                            other => acc.violate(i, "C16|very-long-runs|process-died".into(), format!("case #{i} ({}), {build}: the parsing process died ({other:?}, {:?}): {}", deep_cases_label(tier, i), o.status, String::from_utf8_lossy(&o.stderr).chars().take(300).collect::<String>()), replay),
                        },
                    }
                }
            }));
    }
    // ... nor over longer histories on one thread: every sequence of up to 6 parses over five texts
    {
        let corpus: Vec<(String, String)> = ["0.7F", "0.7F12", "0.6R", "0.7A1234", "x"].iter().map(|s| (format!("version {s:?}"), s.to_string())).collect();
        sites.push(crate::crossthread::history_site("C16", "parse-histories", "parse + print + compare with 0.7F", corpus, |s: &String| {
            let base = GameVersion::from_str("0.7F").ok();
            GameVersion::from_str(s).map(|v| (format!("{v:?}"), v.to_string(), base.as_ref().map(|b| v.cmp(b)))).map_err(|e| e.to_string())
        }));
    }
    // ... nor between threads
    {
        let corpus: Vec<(String, String)> = ["0.7F", "0.7F12", "0.6R", "0.7", "0.7A1", "7", "", "0.7f3", "0.04K", "123456789.5Z99", "0.7F0", "x"].iter().map(|s| (format!("version {s:?}"), s.to_string())).collect();
        sites.push(crate::crossthread::site("C16", "cross-thread-parses", "parse + print + compare with 0.7F", corpus, |s: &String| {
            let base = GameVersion::from_str("0.7F").ok();
            GameVersion::from_str(s).map(|v| (format!("{v:?}"), v.to_string(), base.as_ref().map(|b| v.cmp(b)))).map_err(|e| e.to_string())
        }));
    }
    sites
}

pub fn run(tier: Tier, replay: Option<String>) -> i32 {
    if !std::path::Path::new(&deep_bin()).exists() { eprintln!("MACHINERY: {} is missing (./check builds it)", deep_bin()); return 3; }
    if replay.is_none() { start_watchdog(ALPHA.len() as u64); }
    super::run_e1("C16", tier, "exploration", replay, sites(tier),
        "all strings to a length bound over a 13-symbol class alphabet; all 8-byte wire forms of LFS's shape through the VER codec; all pairs / triples of parsed versions for the order axioms; every case distinct by construction; non-trivial = strings that parse / pairs compared",
        vec!["a per-case watchdog (20 s) stands in for a step budget: the parser cannot be instrumented without editing it".into()],
        |_, _| {})
}
