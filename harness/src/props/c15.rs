//! C15 - time and race-length conversions are exact, or refused - never wrong.

use std::{io::Cursor, sync::Arc, time::Duration};

use bytes::BytesMut;
use insim::{core::binrw::{BinRead, BinWrite}, insim::RaceLaps, net::{Codec, Mode}};
use serde_json::json;

use crate::{
    gen::baseline,
    report::{guard, hex, Site, Tier},
    spec::{self, Val},
    typed,
};

fn wire_values(bits: u32, tier: Tier) -> Vec<u64> {
    if bits == 16 {
        return (0..=65535).collect();
    }
    let mut v: Vec<u64> = vec![];
    for x in spec::u32_boundary() {
        for d in [-2i64, -1, 0, 1, 2] {
            let y = x + d;
            if (0..=u32::MAX as i64).contains(&y) {
                v.push(y as u64);
            }
        }
    }
    // every byte lane, all 256 values
    for lane in 0..4 {
        for b in 0..=255u64 {
            v.push(b << (8 * lane));
            v.push((b << (8 * lane)) | 0x01010101);
        }
    }
    if tier == Tier::Thorough {
        // every 16-bit pattern in the low and in the high half
        for x in 0..=65535u64 {
            v.push(x);
            v.push(x << 16);
            v.push((x << 16) | 0xffff);
        }
    }
    v.sort();
    v.dedup();
    v
}

/// Durations no 16- or 32-bit field of resolution `res_ms` can hold.
fn huge_durations(res_ms: u64) -> Vec<Duration> {
    let mut v = vec![Duration::MAX, Duration::MAX - Duration::from_nanos(1), Duration::from_secs(u64::MAX), Duration::from_millis(u64::MAX), Duration::from_micros(u64::MAX)];
    for k in 33..=63u32 {
        v.push(Duration::from_secs(1u64 << k));
        v.push(Duration::from_secs((1u64 << k) + 83));
    }
    let unit = Duration::from_millis(res_ms);
    for inr in [0u32, 1, 83, 8345, 60_000] {
        let small = unit * inr;
        // + 2^32 and 2^64 units / ms / us
        for big in [
            unit * u32::MAX + unit,
            Duration::from_millis(u64::MAX) + Duration::from_millis(1),
            Duration::from_micros(u64::MAX) + Duration::from_micros(1),
            Duration::from_nanos(u64::MAX) + Duration::from_nanos(1),
            Duration::from_secs(1 << 32),
            (Duration::from_millis(u64::MAX) + Duration::from_millis(1)) * (res_ms as u32).max(1),
        ] {
            if let Some(d) = big.checked_add(small) {
                v.push(d);
            }
        }
    }
    v
}

pub fn sites(tier: Tier) -> Vec<Site> {
    let kinds = Arc::new(spec::load());
    let mut sites = vec![];

    // race length byte
    sites.push(Site::new("racelaps-wire", 256, "all 256 race-length bytes", |i, acc| {
        let b = i as u8;
        acc.eval();
        let replay = json!({"site": "racelaps-wire", "index": i});
        let r = guard(|| {
            let v = RaceLaps::read_le(&mut Cursor::new(&[b][..])).map_err(|e| e.to_string())?;
            let mut c = Cursor::new(Vec::new());
            v.write_le(&mut c).map_err(|e| e.to_string())?;
            Ok::<_, String>((v, c.into_inner()))
        });
        match r {
            Ok(Ok((v, back))) => {
                let want = match b {
                    0 => "Practice".to_string(),
                    1..=99 => format!("Laps({b})"),
                    100..=190 => format!("Laps({})", (b as usize - 100) * 10 + 100),
                    191..=238 => format!("Hours({})", b as usize - 190),
                    _ => "Practice".to_string(),
                };
                if format!("{v:?}") != want {
                    acc.violate(i, "C15|racelaps|wire-value-meaning".into(), format!("byte {b} decodes to {v:?}, the protocol says {want}"), replay);
                } else if b <= 238 && back != [b] {
                    acc.violate(i, "C15|racelaps|wire-typed-wire".into(), format!("byte {b} -> {v:?} -> {}", hex(&back)), replay);
                } else if b > 238 && back != [0] && back != [b] {
                    acc.violate(i, "C15|racelaps|unused-byte".into(), format!("unused byte {b} -> {v:?} -> {}", hex(&back)), replay);
                } else {
                    acc.class("exact");
                    acc.nontrivial();
                }
            },
            Ok(Err(e)) => acc.violate(i, "C15|racelaps|wire-value-rejected".into(), format!("byte {b}: {e}"), replay),
            Err(p) => acc.violate(i, "C15|racelaps|panic".into(), format!("byte {b}: {p}"), replay),
        }
    }));
    sites.push(Site::new("racelaps-typed", 2001 + 301, "Laps(0..=2000) and Hours(0..=300) on the encode side", |i, acc| {
        acc.eval();
        let (v, want): (RaceLaps, u8) = if i <= 2000 {
            let n = i as usize;
            (RaceLaps::Laps(n), match n { 1..=99 => n as u8, 100..=1000 => (100 + (n - 100) / 10) as u8, _ => 0 })
        } else {
            let h = (i - 2001) as usize;
            (RaceLaps::Hours(h), match h { 1..=48 => (190 + h) as u8, _ => 0 })
        };
        let replay = json!({"site": "racelaps-typed", "index": i, "value": format!("{v:?}")});
        let r = guard(|| { let mut c = Cursor::new(Vec::new()); v.write_le(&mut c).map(|_| c.into_inner()) });
        match r {
            Ok(Ok(b)) if b == [want] => { acc.class(if want == 0 { "fallback-practice" } else { "exact" }); acc.nontrivial(); },
            Ok(Ok(b)) => acc.violate(i, format!("C15|racelaps|encode|{}", if i <= 2000 { "laps" } else { "hours" }),
                format!("{v:?} is written as byte {} ({}); expected {want} ({})", b[0], spec_meaning(b[0]), spec_meaning(want)), replay),
            Ok(Err(_)) if want == 0 => { acc.class("refused"); acc.nontrivial(); },
            Ok(Err(e)) => acc.violate(i, "C15|racelaps|encode-refuses-representable".into(), format!("{v:?}: {e}"), replay),
            Err(p) => acc.violate(i, "C15|racelaps|panic".into(), format!("{v:?}: {p}"), replay),
        }
    }));

    let dfs = Arc::new(typed::duration_fields());
    // wire -> value -> wire through the full packet codec
    {
        // (field, wire value, variant): variant bit 0 = uncompressed mode, bit 1 = B1 baseline around the field
        let mut cases: Vec<(usize, u64, u8)> = vec![];
        for (di, d) in dfs.iter().enumerate() {
            for w in wire_values(d.bits, tier) {
                for v in 0..4u8 {
                    // the whole 16-bit domain in every variant; 32-bit boundary sets likewise
                    cases.push((di, w, v));
                }
            }
        }
        let cases = Arc::new(cases);
        let (dfs, kinds) = (dfs.clone(), kinds.clone());
        let n = cases.len() as u64;
        sites.push(Site::new("time-wire", n,
            "every time field x {all 65536 wire values (16-bit fields) | boundary set +-2, every byte lane x 256 (32-bit fields; thorough adds every 16-bit pattern in each half)}: decode, check the duration, re-encode",
            move |i, acc| {
                let (di, w, variant) = cases[i as usize];
                let d = &dfs[di];
                acc.eval();
                let kind = kinds.iter().find(|k| k.name == d.kind).unwrap();
                let compressed = variant & 1 == 0;
                let mut vals = baseline(kind, (variant >> 1) & 1);
                let fi = kind.fields.iter().position(|f| f.name == d.field).unwrap();
                vals[fi] = Val::N(w as i64);
                let frame = spec::ref_encode(kind, &vals, compressed).unwrap();
                let label = format!("{}.{} wire {w} (B{} {})", d.kind, d.field, (variant >> 1) & 1, if compressed { "compressed" } else { "uncompressed" });
                let replay = json!({"site": "time-wire", "index": i, "case": label});
                let codec = Codec::new(if compressed { Mode::Compressed } else { Mode::Uncompressed });
                let mut buf = BytesMut::from(&frame[..]);
                let p = match guard(|| codec.decode(&mut buf)) {
                    Ok(Ok(Some(p))) => p,
                    other => { acc.violate(i, format!("C15|{}|{}|wire-value-rejected", d.kind, d.field), format!("{label}: {}", match other { Ok(Err(e)) => e.to_string().chars().take(80).collect::<String>(), Err(p) => p, _ => "incomplete".into() }), replay); return; },
                };
                let root = serde_json::to_value(&p).unwrap();
                if let Err(e) = spec::check_field(&kind.fields[fi], &vals[fi], &root) {
                    acc.violate(i, format!("C15|{}|{}|wire-value-meaning", d.kind, d.field), format!("{label}: {e}"), replay.clone());
                    return;
                }
                match guard(|| codec.encode(&p)) {
                    Ok(Ok(b)) if b[..] == frame[..] => { acc.class("exact"); acc.nontrivial(); },
                    Ok(Ok(b)) => acc.violate(i, format!("C15|{}|{}|wire-typed-wire", d.kind, d.field), format!("{label}: re-encodes as {}", hex(&b)), replay),
                    Ok(Err(e)) => acc.violate(i, format!("C15|{}|{}|decoded-value-refused", d.kind, d.field), format!("{label}: {}", e.to_string().chars().take(80).collect::<String>()), replay),
                    Err(p) => acc.violate(i, format!("C15|{}|{}|panic", d.kind, d.field), format!("{label}: {p}"), replay),
                }
            }));
    }
    // the public conversion helpers themselves (insim_core::duration), which every time field but SMALL's goes
    // through: the complete wire domain of each of the four instantiations in use (16/32 bits x 1 ms / 10 ms;
    // quick: every 4099th 32-bit value), both directions, plus the three durations that must floor to w
    {
        use insim::core::binrw::Endian;
        use insim::core::duration::{binrw_parse_duration, binrw_write_duration};
        fn one<const BITS: u32, const SCALE: u64>(w: u64, i: u64, acc: &mut crate::report::Acc) {
            acc.eval();
            let bytes: Vec<u8> = if BITS == 16 { (w as u16).to_le_bytes().to_vec() } else { (w as u32).to_le_bytes().to_vec() };
            let want = Duration::from_millis(w * SCALE);
            let bad = |acc: &mut crate::report::Acc, what: &str, detail: String| {
                acc.violate(i, format!("C15|helper-u{BITS}-x{SCALE}|{what}"), detail, json!({"site": "helpers", "index": i, "wire": w, "bits": BITS, "scale": SCALE}));
            };
            let mut c = std::io::Cursor::new(&bytes[..]);
            let got = if BITS == 16 {
                if SCALE == 1 { binrw_parse_duration::<u16, 1, _>(&mut c, Endian::Little, ()) } else { binrw_parse_duration::<u16, 10, _>(&mut c, Endian::Little, ()) }
            } else if SCALE == 1 { binrw_parse_duration::<u32, 1, _>(&mut c, Endian::Little, ()) } else { binrw_parse_duration::<u32, 10, _>(&mut c, Endian::Little, ()) };
            match got {
                Ok(d) if d == want => {},
                other => { bad(acc, "wire-value-meaning", format!("wire {w} means {want:?}, read as {other:?}")); return; },
            }
            for (k, dur) in [want, want + Duration::from_micros(1), want + Duration::from_millis(SCALE) - Duration::from_micros(1)].into_iter().enumerate() {
                let mut o = std::io::Cursor::new(Vec::with_capacity(4));
                let r = if BITS == 16 {
                    if SCALE == 1 { binrw_write_duration::<u16, 1, _>(&dur, &mut o, Endian::Little, ()) } else { binrw_write_duration::<u16, 10, _>(&dur, &mut o, Endian::Little, ()) }
                } else if SCALE == 1 { binrw_write_duration::<u32, 1, _>(&dur, &mut o, Endian::Little, ()) } else { binrw_write_duration::<u32, 10, _>(&dur, &mut o, Endian::Little, ()) };
                match r {
                    Ok(()) if o.get_ref()[..] == bytes[..] => {},
                    other => { bad(acc, if k == 0 { "wire-typed-wire" } else { "not-rounded-down" }, format!("{dur:?} is written as {} ({other:?}), wire value {w} expected", hex(o.get_ref()))); return; },
                }
            }
            acc.nontrivial();
        }
        let step: u64 = if tier == Tier::Thorough { 1 } else { 4099 };
        let n32 = (1u64 << 32) / step + 1;
        sites.push(Site::new("helpers-16", 65536 * 2, "binrw_parse_duration / binrw_write_duration::<u16, 1 | 10>: all 65536 wire values, read, written back, floor of the two neighbouring durations",
            |i, acc| { let w = i / 2; if i % 2 == 0 { one::<16, 1>(w, i, acc) } else { one::<16, 10>(w, i, acc) } }));
        sites.push(Site::new("helpers-32", n32 * 2, "binrw_parse_duration / binrw_write_duration::<u32, 1 | 10>: every wire value (thorough: all 2^32; quick: every 4099th and the last), read, written back, floor of the two neighbouring durations",
            move |i, acc| { let w = ((i / 2) * step).min(u32::MAX as u64); if i % 2 == 0 { one::<32, 1>(w, i, acc) } else { one::<32, 10>(w, i, acc) } }));
    }
    // the one time value a connection sends on its own account: the ISI interval in handshake(), on both
    // implementations - in range: on the wire exactly (floored to the millisecond); out of range: refused, and
    // no ISI with some other interval leaves
    {
        use insim::insim::{Isi, IsiFlags};
        let intervals: Vec<Duration> = vec![Duration::ZERO, Duration::from_millis(1), Duration::from_millis(999), Duration::from_millis(65_535), Duration::from_micros(65_535_999),
            // (below the field's resolution, and with a remainder)
            Duration::from_nanos(1), Duration::from_micros(500), Duration::from_nanos(999_999), Duration::from_micros(16_667),
            Duration::from_millis(65_536), Duration::from_secs(70), Duration::from_secs(3600), Duration::from_secs(1 << 32), Duration::MAX];
        let flagsets = [IsiFlags::empty(), IsiFlags::MCI, IsiFlags::NLP, IsiFlags::MCI | IsiFlags::NLP, IsiFlags::all()];
        let n = (intervals.len() * flagsets.len() * 2 * 2) as u64;
        sites.push(Site::new("handshake-interval", n,
            "handshake(ISI) on both implementations and modes x 14 intervals (9 in range incl. sub-millisecond ones, 5 beyond 65.535 s) x 5 flag sets, the ISI built by hand and by the public Builder: the wire interval is the millisecond floor, or the handshake is refused and no ISI leaves",
            move |i, acc| {
                acc.eval();
                let mut j = i as usize;
                let tokio_impl = j % 2 == 1; j /= 2;
                let compressed = j % 2 == 0; j /= 2;
                let flags = flagsets[j % flagsets.len()]; j /= flagsets.len();
                let interval = intervals[j % intervals.len()];
                let isi = Isi { interval, flags, iname: "verif".into(), ..Default::default() };
                // the Builder hands on the interval it was given (what goes on the wire is decided by the same codec)
                {
                    let built = guard(|| insim::tcp(std::net::SocketAddr::from(([127, 0, 0, 1], 29999))).isi_flags(flags).isi_interval(Some(interval)).isi().interval);
                    if built != Ok(interval) {
                        acc.violate(i, "C15|ISI|Interval|builder-changes-the-interval".into(), format!("Builder with flags {flags:?} and interval {interval:?}: isi() carries {built:?}"), json!({"site": "handshake-interval", "index": i}));
                        return;
                    }
                }
                let inner = Arc::new(std::sync::Mutex::new(crate::e2::world::Inner::default()));
                let world = crate::e2::world::World(inner.clone());
                let mode = if compressed { Mode::Compressed } else { Mode::Uncompressed };
                let label = format!("{} {mode:?} interval {interval:?} flags {flags:?}", if tokio_impl { "tokio" } else { "blocking" });
                let replay = json!({"site": "handshake-interval", "index": i, "case": label});
                let res: Result<Result<(), String>, String> = guard(|| {
                    if tokio_impl {
                        let rt = tokio::runtime::Builder::new_current_thread().enable_time().build().unwrap();
                        rt.block_on(async {
                            let mut f = insim::net::tokio_impl::Framed::new(Box::new(world), Codec::new(mode));
                            f.handshake(isi.clone(), Duration::from_secs(5)).await.map_err(|e| e.to_string())
                        })
                    } else {
                        let mut f = insim::net::blocking_impl::Framed::new(Box::new(world), Codec::new(mode));
                        f.handshake(isi.clone()).map_err(|e| e.to_string())
                    }
                });
                let written = inner.lock().unwrap().written.clone();
                let in_range = interval.as_millis() <= 65_535;
                match res {
                    Err(p) if in_range => acc.violate(i, "C15|ISI|handshake|panic".into(), format!("{label}: {p}"), replay),
                    Err(_) | Ok(Err(_)) if !in_range => {
                        if written.is_empty() { acc.class("handshake-refused"); acc.nontrivial(); }
                        else { acc.violate(i, "C15|ISI|handshake|refused-but-bytes-left".into(), format!("{label}: refused, yet {} byte(s) reached the transport", written.len()), replay); }
                    },
                    Ok(Ok(())) if !in_range => acc.violate(i, "C15|ISI|Interval|out-of-range-duration-accepted".into(), format!("{label}: does not fit the 16-bit field but the handshake sent {}", hex(&written[..written.len().min(16)])), replay),
                    Ok(Err(e)) => acc.violate(i, "C15|ISI|handshake|in-range-duration-refused".into(), format!("{label}: {e}"), replay),
                    Err(p) => acc.violate(i, "C15|ISI|handshake|panic".into(), format!("{label}: {p}"), replay),
                    Ok(Ok(())) => {
                        let want = (interval.as_millis() as u16).to_le_bytes();
                        // Interval sits at frame offset 10..12
                        if written.len() >= 12 && written[10..12] == want { acc.class("handshake-interval-exact"); acc.nontrivial(); }
                        else { acc.violate(i, "C15|ISI|Interval|handshake-wire-value".into(), format!("{label}: the ISI on the wire is {}", hex(&written[..written.len().min(16)])), replay); }
                    },
                }
            }));
    }
    // encode side: rounding down, and refusal beyond the range
    {
        let mut cases: Vec<(usize, u64, u8)> = vec![];
        for (di, d) in dfs.iter().enumerate() {
            let max = if d.bits == 16 { 65535u64 } else { u32::MAX as u64 };
            let ws: Vec<u64> = if d.bits == 16 { spec::u16_boundary().into_iter().map(|x| x as u64).collect() } else { spec::u32_boundary().into_iter().map(|x| x as u64).collect() };
            for w in ws {
                for delta in 0..3u8 {
                    cases.push((di, w, delta));
                }
                // (... and a nanosecond or three either side: Duration counts nanoseconds, the wire does not)
                for delta in 5..8u8 {
                    cases.push((di, w, delta));
                }
            }
            // beyond the range
            for over in [max + 1, max + 2, max * 2, max * 10 + 7, 1 << 40, u64::MAX / 20] {
                cases.push((di, over, 3));
            }
            // far beyond: every power of two of seconds, the top of Duration, and durations that are
            // an in-range value plus 2^16 / 2^32 / 2^64 units, milliseconds, microseconds (aliases under truncation)
            for h in 0..huge_durations(d.res_ms).len() as u64 {
                cases.push((di, h, 4));
            }
        }
        let cases = Arc::new(cases);
        let (dfs, kinds) = (dfs.clone(), kinds.clone());
        let n = cases.len() as u64;
        sites.push(Site::new("time-typed", n,
            "every time field x boundary wire values w x durations {w*res, w*res + 1us, (w+1)*res - 1us, w*res + 1ns, (w+1)*res - 1ns, (w+1)*res - 3ns} (must floor to w) and durations beyond the field's range (must be refused)",
            move |i, acc| {
                let (di, w, delta) = cases[i as usize];
                let d = &dfs[di];
                acc.eval();
                let kind = kinds.iter().find(|k| k.name == d.kind).unwrap();
                let vals = baseline(kind, 0);
                let fi = kind.fields.iter().position(|f| f.name == d.field).unwrap();
                let frame0 = spec::ref_encode(kind, &vals, true).unwrap();
                let codec = Codec::new(Mode::Compressed);
                let mut buf = BytesMut::from(&frame0[..]);
                let Ok(Ok(Some(mut p))) = guard(|| codec.decode(&mut buf)) else { return };
                let base_us = (w as u128) * (d.res_ms as u128) * 1000;
                let us = match delta { 0 | 3 => base_us, 1 => base_us + 1, _ => base_us + (d.res_ms as u128) * 1000 - 1 };
                let dur = if delta == 4 { huge_durations(d.res_ms)[w as usize] } else if delta >= 5 {
                    let base_ns = base_us * 1000;
                    let unit_ns = (d.res_ms as u128) * 1_000_000;
                    let ns = match delta { 5 => base_ns + 1, 6 => base_ns + unit_ns - 1, _ => base_ns + unit_ns - 3 };
                    Duration::new((ns / 1_000_000_000) as u64, (ns % 1_000_000_000) as u32)
                } else { Duration::new((us / 1_000_000) as u64, ((us % 1_000_000) * 1000) as u32) };
                let delta = if delta == 4 { 3 } else { delta };
                if !(d.set)(&mut p, dur) { return; }
                let label = format!("{}.{} = {dur:?}", d.kind, d.field);
                let replay = json!({"site": "time-typed", "index": i, "case": label});
                let r = guard(|| codec.encode(&p));
                if delta == 3 {
                    match r {
                        Ok(Err(_)) => { acc.class("refused"); acc.nontrivial(); },
                        Err(_) => { acc.class("refused-by-panic"); acc.nontrivial(); },
                        Ok(Ok(b)) => acc.violate(i, format!("C15|{}|{}|out-of-range-duration-accepted", d.kind, d.field),
                            format!("{label} does not fit the {}-bit field but was encoded as {}", d.bits, hex(&b)), replay),
                    }
                    return;
                }
                let mut want_vals = vals.clone();
                want_vals[fi] = Val::N(w as i64);
                let want = spec::ref_encode(kind, &want_vals, true).unwrap();
                match r {
                    Ok(Ok(b)) if b[..] == want[..] => { acc.class("floors"); acc.nontrivial(); },
                    Ok(Ok(b)) => acc.violate(i, format!("C15|{}|{}|not-rounded-down", d.kind, d.field), format!("{label}: encoded {} where floor gives wire value {w}: {}", hex(&b), hex(&want)), replay),
                    Ok(Err(e)) => acc.violate(i, format!("C15|{}|{}|in-range-duration-refused", d.kind, d.field), format!("{label}: {}", e.to_string().chars().take(80).collect::<String>()), replay),
                    Err(p) => acc.violate(i, format!("C15|{}|{}|panic", d.kind, d.field), format!("{label}: {p}"), replay),
                }
            }));
    }
    // the time fields mean the same when the packet's bytes arrive a few at a time (the packets' BinRead is public)
    sites.push(super::c01::packet_short_io_site("C15"));
    sites
}

fn spec_meaning(b: u8) -> String {
    match b {
        0 => "practice".into(),
        1..=99 => format!("{b} laps"),
        100..=190 => format!("{} laps", (b as usize - 100) * 10 + 100),
        191..=238 => format!("{} hours", b - 190),
        _ => "unused".into(),
    }
}

pub fn run(tier: Tier, replay: Option<String>) -> i32 {
    super::run_e1("C15", tier, "exploration", replay, sites(tier),
        "all 256 race-length bytes; Laps(0..=2000), Hours(0..=300); every time field (23 fields) x complete 16-bit domains / 32-bit boundary sets through the full packet codec; encode-side floor and out-of-range refusal; every case distinct by construction",
        vec!["a lap count between two representable steps (e.g. 105) is expected to round down to the step, like durations round down to the resolution".into()],
        |_, _| {})
}
