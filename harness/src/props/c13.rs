//! C13 - vehicle identifiers map one-to-one onto their 4 wire bytes (complete 2^32 domain).

use std::io::Cursor;

use insim::core::{binrw::{BinRead, BinWrite}, vehicle::Vehicle};
use serde_json::json;

use crate::{report::{guard, Acc, Site, Tier}, spec::BUILTIN_CARS};

fn builtin_name(v: &Vehicle) -> Option<&'static str> {
    Some(match v {
        Vehicle::Xfg => "XFG", Vehicle::Xrg => "XRG", Vehicle::Fbm => "FBM", Vehicle::Xrt => "XRT",
        Vehicle::Rb4 => "RB4", Vehicle::Fxo => "FXO", Vehicle::Lx4 => "LX4", Vehicle::Lx6 => "LX6",
        Vehicle::Mrt => "MRT", Vehicle::Uf1 => "UF1", Vehicle::Rac => "RAC", Vehicle::Fz5 => "FZ5",
        Vehicle::Fox => "FOX", Vehicle::Xfr => "XFR", Vehicle::Ufr => "UFR", Vehicle::Fo8 => "FO8",
        Vehicle::Fxr => "FXR", Vehicle::Xrr => "XRR", Vehicle::Fzr => "FZR", Vehicle::Bf1 => "BF1",
        _ => return None,
    })
}

#[inline]
fn judge(value: u32, order: u64, site: &str, acc: &mut Acc) {
    acc.eval();
    let b = value.to_le_bytes();
    let shaped = b[3] == 0 && b[0].is_ascii_alphanumeric() && b[1].is_ascii_alphanumeric() && b[2].is_ascii_alphanumeric();
    let r = Vehicle::read_le(&mut Cursor::new(&b[..]));
    let bad = |acc: &mut Acc, sig: &str, detail: String| {
        acc.violate(order, format!("C13|{sig}"), detail, json!({"site": site, "index": order, "bytes": crate::report::hex(&b)}));
    };
    if value == 0 {
        match r {
            Ok(Vehicle::Unknown) => acc.class("unknown"),
            other => { bad(acc, "all-zero-not-unknown", format!("00 00 00 00 decodes to {other:?}")); return; },
        }
    } else if shaped {
        let name = std::str::from_utf8(&b[..3]).unwrap();
        let known = BUILTIN_CARS.contains(&name);
        match (&r, known) {
            (Ok(v), true) => {
                if builtin_name(v) != Some(BUILTIN_CARS.iter().find(|n| **n == name).unwrap()) {
                    bad(acc, &format!("builtin-name-decodes-to-other-car|{name}"), format!("{name} decodes to {v:?}"));
                    return;
                }
                if v.to_string() != name {
                    bad(acc, &format!("display-differs-from-wire-name|{name}"), format!("{name} prints as {v}"));
                    return;
                }
                if v.is_mod() || !v.is_builtin() {
                    bad(acc, "builtin-reported-as-mod", format!("{name}: is_mod={} is_builtin={}", v.is_mod(), v.is_builtin()));
                    return;
                }
                acc.class("builtin");
                acc.nontrivial();
            },
            (Err(_), false) => { acc.class("unrecognised-builtin-name-rejected"); acc.nontrivial(); },
            (Ok(v), false) => { bad(acc, "unrecognised-builtin-name-accepted", format!("{name:?} (three alphanumerics + NUL) is not a car of InSim v9 but decodes to {v:?}")); return; },
            (Err(e), true) => { bad(acc, &format!("builtin-name-rejected|{name}"), format!("{name} is rejected: {e}")); return; },
        }
    } else {
        match &r {
            Ok(Vehicle::Mod(x)) if *x == value => {
                if let Ok(v) = &r { if !v.is_mod() || v.is_builtin() { bad(acc, "mod-reported-as-builtin", format!("{value:#010x}")); return; } }
                acc.class("mod");
            },
            other => { bad(acc, "mod-id-not-preserved", format!("{} decodes to {other:?}, expected Mod({value:#x})", crate::report::hex(&b))); return; },
        }
    }
    if let Ok(v) = r {
        let mut out = Cursor::new(Vec::with_capacity(4));
        match v.write_le(&mut out) {
            Ok(()) if out.get_ref()[..] == b[..] => {},
            other => bad(acc, "re-encode-differs", format!("{} -> {v:?} -> {} ({other:?})", crate::report::hex(&b), crate::report::hex(out.get_ref()))),
        }
    }
}

/// The identifier read through a reader that returns short counts must be what a plain cursor gives.
fn short_read_values() -> Vec<u32> {
    let mut v: Vec<u32> = vec![0, 1, 0x0012_3456, 0x00ab_cdef, 0x0100_0000, 0xffff_ffff, 0x8000_0001, 0x0047_4658, 0x5a5a_5a00];
    for n in BUILTIN_CARS {
        let b = n.as_bytes();
        v.push(u32::from_le_bytes([b[0], b[1], b[2], 0]));
        v.push(u32::from_le_bytes([b[0], b[1], b[2], 1]));
    }
    for n in ["ABC", "xfg", "XF1", "000"] {
        let b = n.as_bytes();
        v.push(u32::from_le_bytes([b[0], b[1], b[2], 0]));
    }
    v
}

/// The same rule inside every packet that carries a car name: the packet decodes iff the four bytes do
/// on their own, and then re-encodes to the identical frame.
fn packet_site() -> Site {
    use crate::spec;
    let kinds = spec::load();
    let mut targets: Vec<(String, bool, Vec<u8>, usize)> = vec![];
    for k in &kinds {
        let vals = crate::gen::baseline(k, 1);
        let lay = spec::layout(k, &vals);
        for c in [true, false] {
            let Some(f) = spec::ref_encode(k, &vals, c) else { continue };
            for (fi, start, len) in &lay {
                if matches!(k.fields[*fi].ty, spec::Ty::Vehicle) && *len == 4 {
                    targets.push((format!("{}.{}", k.name, k.fields[*fi].name), c, f.clone(), *start));
                    // the car name is a matter of its own four bytes, whatever the texts around it say: every text field
                    // of the packet holding a skin-like / mod-like name (LFS names mod skins after the mod's id)
                    for (ti, tstart, tlen) in &lay {
                        if !matches!(k.fields[*ti].ty, spec::Ty::Text(_)) { continue; }
                        for word in ["XFG_DEFAULT", "39CEEB_DEFAULT", "DBF12E_x", "dbf12e_x", "000000_", "MOD(39CEEB)"] {
                            let mut g = f.clone();
                            for (j, slot) in g[*tstart..*tstart + *tlen].iter_mut().enumerate() { *slot = if j + 1 < *tlen { *word.as_bytes().get(j).unwrap_or(&0) } else { 0 }; }
                            targets.push((format!("{}.{} with {} = {word:?}", k.name, k.fields[*fi].name, k.fields[*ti].name), c, g, *start));
                        }
                    }
                }
            }
        }
    }
    let vals = std::sync::Arc::new({
        let mut v = short_read_values();
        // every four-byte string over 12 byte classes (NUL, 01, digits, letters of both cases, a hex-ish letter, underscore,
        // 80, ff): interior NULs, names cut short, ids that start like names
        const A: [u8; 12] = [0, 1, b'0', b'9', b'A', b'Z', b'a', b'z', 0x6f, b'_', 0x80, 0xff];
        for a in A { for b in A { for c in A { for d in A { v.push(u32::from_le_bytes([a, b, c, d])); } } } }
        v.sort(); v.dedup();
        v
    });
    let targets = std::sync::Arc::new(targets);
    let n = (targets.len() * vals.len()) as u64;
    Site::new("in-packets", n,
        "every packet field that carries a car name (NPL, RES, SLC; both modes; also with each text field of the packet holding one of 6 skin-like / mod-like names) x every built-in name, near-names, mod ids and every four-byte string over 12 byte classes (20 736): the packet decodes iff the four bytes decode on their own, and re-encodes to the same frame",
        move |i, acc| {
            acc.eval();
            let (name, compressed, frame, off) = &targets[(i as usize) / vals.len()];
            let value = vals[(i as usize) % vals.len()];
            let mut f = frame.clone();
            f[*off..*off + 4].copy_from_slice(&value.to_le_bytes());
            let alone = Vehicle::read_le(&mut Cursor::new(&value.to_le_bytes()[..]));
            let codec = insim::net::Codec::new(if *compressed { insim::net::Mode::Compressed } else { insim::net::Mode::Uncompressed });
            let mut buf = bytes::BytesMut::from(&f[..]);
            let replay = json!({"site": "in-packets", "index": i, "field": name, "bytes": crate::report::hex(&value.to_le_bytes())});
            match (guard(|| codec.decode(&mut buf)), alone.is_ok()) {
                (Err(p), _) => acc.violate(i, "C13|in-packet|panic".into(), format!("{name} = {}: {p}", crate::report::hex(&value.to_le_bytes())), replay),
                (Ok(Ok(Some(p))), true) => match guard(|| codec.encode(&p)) {
                    Ok(Ok(b)) if b[..] == f[..] => { acc.class("in-packet-agrees"); acc.nontrivial(); },
                    other => acc.violate(i, format!("C13|in-packet|re-encode-differs|{name}"), format!("{name} = {}: the decoded packet re-encodes as {:?}", crate::report::hex(&value.to_le_bytes()), other.map(|r| r.map(|b| crate::report::hex(&b)).map_err(|e| e.to_string()))), replay),
                },
                (Ok(Err(_)), false) => { acc.class("in-packet-rejected-like-the-value"); acc.nontrivial(); },
                (Ok(Ok(Some(p))), false) => acc.violate(i, format!("C13|in-packet|unrecognised-name-accepted|{name}"), format!("{name} = {}: the four bytes are rejected on their own but the packet decodes ({})", crate::report::hex(&value.to_le_bytes()), format!("{p:?}").chars().take(100).collect::<String>()), replay),
                (Ok(Err(e)), true) => acc.violate(i, format!("C13|in-packet|valid-name-rejected|{name}"), format!("{name} = {}: {e}", crate::report::hex(&value.to_le_bytes())), replay),
                (Ok(Ok(None)), _) => acc.violate(i, "C13|in-packet|incomplete".into(), format!("{name}: decoder wants more data on a complete frame"), replay),
            }
        })
}

/// "Every vehicle value reachable by decoding": IS_MAL hands out `Vehicle::Mod(id)` for ANY id (also ids
/// whose bytes spell a car name).  Each such value must write back as its four bytes, alone and inside
/// every packet that carries a car name, and read back as whatever the InSim rule says for those bytes.
fn reachable_site() -> Site {
    let vals = std::sync::Arc::new(short_read_values());
    let n = vals.len() as u64 * 2;
    Site::new("reachable-through-mal", n,
        "every built-in name, near-name and mod id as a skin id of a decoded IS_MAL (both modes): the Vehicle value it yields writes back as the same four bytes on its own and inside IS_SLC",
        move |i, acc| {
            use insim::net::{Codec, Mode};
            acc.eval();
            let compressed = i % 2 == 0;
            let id = vals[(i / 2) as usize];
            if id == 0 { return; }
            let codec = Codec::new(if compressed { Mode::Compressed } else { Mode::Uncompressed });
            let mut f = vec![if compressed { 3 } else { 12 }, 65, 0, 1, 0, 0, 0, 0];
            f.extend_from_slice(&id.to_le_bytes());
            let replay = json!({"site": "reachable-through-mal", "index": i, "id": format!("{id:#010x}")});
            let mut b = bytes::BytesMut::from(&f[..]);
            let mal = match guard(|| codec.decode(&mut b)) {
                Ok(Ok(Some(insim::Packet::Mal(m)))) => m,
                other => { acc.violate(i, "C13|mal|skin-id-rejected".into(), format!("MAL with skin id {id:#010x}: {}", format!("{other:?}").chars().take(100).collect::<String>()), replay); return; },
            };
            let Some(v) = mal.iter().next().cloned() else { acc.violate(i, "C13|mal|skin-id-lost".into(), format!("MAL with skin id {id:#010x} decodes to an empty list"), replay); return; };
            // on its own
            let mut out = Cursor::new(Vec::new());
            match guard(|| v.write_le(&mut out)) {
                Ok(Ok(())) if out.get_ref()[..] == id.to_le_bytes()[..] => {},
                other => { acc.violate(i, "C13|reachable-value-not-written-back".into(), format!("{v:?} (from MAL skin id {id:#010x}) is written as {} ({other:?})", crate::report::hex(out.get_ref())), replay); return; },
            }
            // a mod is a mod whatever its id spells: it is no built-in car and not the unknown car - for `==`, for a hash
            // set and for the containers that hold vehicles
            {
                use std::collections::HashSet;
                let mut others: Vec<Vehicle> = BUILTIN_CARS.iter().filter_map(|n| { let b = n.as_bytes(); Vehicle::read_le(&mut Cursor::new(&[b[0], b[1], b[2], 0][..])).ok() }).collect();
                others.push(Vehicle::Unknown);
                for b in &others {
                    let eq = guard(|| v == *b);
                    let in_set = guard(|| { let mut s: HashSet<Vehicle> = HashSet::new(); let _ = s.insert(b.clone()); s.contains(&v) });
                    let in_mal = guard(|| mal.contains(b));
                    if eq != Ok(false) || in_set != Ok(false) || in_mal != Ok(false) {
                        acc.violate(i, "C13|mod-confused-with-built-in".into(), format!("{v:?} (from MAL skin id {id:#010x}) and {b:?}: == gives {eq:?}, a hash set holding the latter contains the former: {in_set:?}, the MAL contains the latter: {in_mal:?}"), replay);
                        return;
                    }
                }
            }
            // inside a packet that carries a car name
            let slc = insim::Packet::Slc(insim::insim::Slc { cname: v.clone(), ..Default::default() });
            match guard(|| codec.encode(&slc)) {
                Ok(Ok(fr)) if fr.len() >= 8 && fr[fr.len() - 4..] == id.to_le_bytes()[..] => { acc.class("reachable-value-written-back"); acc.nontrivial(); },
                other => acc.violate(i, "C13|reachable-value-not-written-back|SLC".into(), format!("{v:?} (from MAL skin id {id:#010x}) inside IS_SLC: {}", format!("{other:?}").chars().take(120).collect::<String>()), replay),
            }
        })
}

/// No memory between calls: every ordered pair of identifiers decoded back to back on one thread.
fn pairs_site() -> Site {
    let vals = std::sync::Arc::new(short_read_values());
    let n = (vals.len() * vals.len()) as u64;
    Site::new("decode-pairs", n,
        "every ordered pair of (built-in names, near-names, mod ids) decoded back to back on one thread: the second result is the one the value gets on its own",
        move |i, acc| {
            acc.eval();
            let a = vals[(i as usize) / vals.len()];
            let b = vals[(i as usize) % vals.len()];
            let alone = format!("{:?}", Vehicle::read_le(&mut Cursor::new(&b.to_le_bytes()[..])));
            let _ = Vehicle::read_le(&mut Cursor::new(&a.to_le_bytes()[..]));
            let after = format!("{:?}", Vehicle::read_le(&mut Cursor::new(&b.to_le_bytes()[..])));
            // (the judged meaning of `alone` is the business of the other sites)
            if alone == after {
                acc.class("pair-agrees");
                acc.nontrivial();
            } else {
                acc.violate(i, "C13|history-dependent".into(), format!("{} decodes to {after} right after {}, to {alone} otherwise", crate::report::hex(&b.to_le_bytes()), crate::report::hex(&a.to_le_bytes())), json!({"site": "decode-pairs", "index": i}));
            }
        })
}

pub fn sites(tier: Tier) -> Vec<Site> {
    let mut s = vec![];
    s.push(packet_site());
    s.push(pairs_site());
    s.push(reachable_site());
    // ... whatever the earlier call was and however the later value is related to it: every corpus value decoded or
    // (its vehicle) encoded first, then every corpus value in 10 rearrangements (reversed = the other byte order, rotated,
    // two bytes swapped) decoded on the same thread - the result is the one the value gets on a thread of its own
    {
        let vals = short_read_values();
        let mut inputs: Vec<[u8; 4]> = vec![];
        for v in &vals {
            let b = v.to_le_bytes();
            inputs.push(b);
            inputs.push([b[3], b[2], b[1], b[0]]);
            for k in 1..4 { let mut x = b; x.rotate_left(k); inputs.push(x); }
            for (a, c) in [(0, 1), (0, 2), (0, 3), (1, 2), (1, 3), (2, 3)] { let mut x = b; x.swap(a, c); inputs.push(x); }
        }
        inputs.sort(); inputs.dedup();
        let alone: Vec<String> = inputs.iter().map(|b| { let b = *b; std::thread::spawn(move || format!("{:?}", Vehicle::read_le(&mut Cursor::new(&b[..])).map_err(|_| ()))).join().unwrap_or_default() }).collect();
        let (inputs, alone, vals) = (std::sync::Arc::new(inputs), std::sync::Arc::new(alone), std::sync::Arc::new(vals));
        let n = vals.len() as u64 * 2;
        s.push(Site::new("rearranged-after-any-call", n,
            "every corpus value {decoded, decoded and written back} first, then every corpus value as it is / in the other byte order / rotated / with two bytes swapped (about 500 values) decoded on the same thread: each result is the one the value gets on a thread of its own",
            move |i, acc| {
                let first = vals[(i / 2) as usize].to_le_bytes();
                let write_too = i % 2 == 1;
                for (k, b) in inputs.iter().enumerate() {
                    acc.eval();
                    let _ = guard(|| { let v = Vehicle::read_le(&mut Cursor::new(&first[..])); if write_too { if let Ok(v) = &v { let mut c = Cursor::new(Vec::new()); let _ = v.write_le(&mut c); } } });
                    let got = guard(|| format!("{:?}", Vehicle::read_le(&mut Cursor::new(&b[..])).map_err(|_| ())));
                    if got.as_deref() != Ok(alone[k].as_str()) {
                        acc.violate(i, "C13|history-dependent".into(), format!("{} decoded right after {} was decoded{}: {got:?}; on a thread of its own: {}", crate::report::hex(b), crate::report::hex(&first), if write_too { " and written back" } else { "" }, alone[k]), json!({"site": "rearranged-after-any-call", "index": i, "input": crate::report::hex(b)}));
                        return;
                    }
                }
                acc.class("rearranged-values-independent-of-the-call-before");
                acc.nontrivial();
            }));
    }
    // an allowed-mods list that names an id more than once (LFS does not, a peer may): every sequence of 1..=4 ids over
    // {two mod ids, the bytes of XFG} - the list decodes to the distinct ids named, and what follows the frame is left alone
    {
        let ids: [u32; 3] = [0x00db_f12e, 0x0007_409a, u32::from_le_bytes(*b"XFG\0")];
        let n = (3u64 + 9 + 27 + 81) * 2;
        s.push(Site::new("mal-with-repeats", n,
            "IS_MAL frames listing every sequence of 1..=4 ids over {two mod ids, the four bytes XFG NUL} x mode, a TINY behind the frame: the decoded list holds exactly the distinct ids named, as mods, and the TINY is still there",
            move |i, acc| {
                use insim::net::{Codec, Mode};
                acc.eval();
                let compressed = i % 2 == 0;
                let j = i / 2;
                let (l, mut q) = if j < 3 { (1, j) } else if j < 12 { (2, j - 3) } else if j < 39 { (3, j - 12) } else { (4, j - 39) };
                let mut list = vec![];
                for _ in 0..l { list.push(ids[(q % 3) as usize]); q /= 3; }
                let total = 8 + 4 * list.len();
                let mut f = vec![if compressed { (total / 4) as u8 } else { total as u8 }, 65, 0, list.len() as u8, 0, 0, 0, 0];
                for id in &list { f.extend_from_slice(&id.to_le_bytes()); }
                let sentinel: Vec<u8> = if compressed { vec![1, 3, 2, 3] } else { vec![4, 3, 2, 3] };
                f.extend_from_slice(&sentinel);
                let replay = json!({"site": "mal-with-repeats", "index": i, "ids": list.iter().map(|x| format!("{x:#010x}")).collect::<Vec<_>>()});
                let mut b = bytes::BytesMut::from(&f[..]);
                let mut distinct: Vec<u32> = vec![];
                for id in &list { if !distinct.contains(id) { distinct.push(*id); } }
                match guard(|| Codec::new(if compressed { Mode::Compressed } else { Mode::Uncompressed }).decode(&mut b)) {
                    Ok(Ok(Some(insim::Packet::Mal(m)))) => {
                        let got: Vec<String> = m.iter().map(|v| format!("{v:?}")).collect();
                        let want: Vec<String> = distinct.iter().map(|id| format!("{:?}", Vehicle::Mod(*id))).collect();
                        if got == want && b[..] == sentinel[..] { acc.class("mal-with-repeats-decodes-to-the-ids-named"); acc.nontrivial(); }
                        else { acc.violate(i, "C13|mal|list-with-repeats".into(), format!("MAL naming {:?} decodes to {got:?} leaving {} where the ids named are {want:?} and a TINY follows", replay["ids"], crate::report::hex(&b)), replay); }
                    },
                    other => acc.violate(i, "C13|mal|list-with-repeats".into(), format!("MAL naming {:?}: {}", replay["ids"], format!("{other:?}").chars().take(120).collect::<String>()), replay),
                }
            }));
    }
    // what an identifier decodes to is a matter of its four bytes, not of what the application did with such a value before:
    // every corpus value put into an allowed-mods list as a mod (insert, remove, clear), then its bytes decoded
    {
        let vals = short_read_values();
        let alone: Vec<String> = vals.iter().map(|v| format!("{:?}", Vehicle::read_le(&mut Cursor::new(&v.to_le_bytes()[..])).map_err(|_| ()))).collect();
        let (vals, alone) = (std::sync::Arc::new(vals), std::sync::Arc::new(alone));
        let n = vals.len() as u64 * 3;
        s.push(Site::new("decode-after-mutators", n,
            "every corpus value inserted into an IS_MAL as a mod id {and left there, and removed again, and cleared}, then the same four bytes decoded (alone and inside IS_SLC): the result is the one the bytes had before",
            move |i, acc| {
                acc.eval();
                let k = (i / 3) as usize;
                let v = vals[k];
                let _ = guard(|| {
                    let mut m = insim::insim::Mal::default();
                    let _ = m.insert(Vehicle::Mod(v));
                    match i % 3 { 1 => { let _ = m.remove(&Vehicle::Mod(v)); }, 2 => m.clear(), _ => {} }
                    let _ = insim::net::Codec::new(insim::net::Mode::Compressed).encode(&insim::Packet::Mal(m));
                });
                let got = guard(|| format!("{:?}", Vehicle::read_le(&mut Cursor::new(&v.to_le_bytes()[..])).map_err(|_| ())));
                if got.as_deref() != Ok(alone[k].as_str()) {
                    acc.violate(i, "C13|decode-depends-on-earlier-mutator-calls".into(), format!("{} decodes to {got:?} after a MAL had held it as a mod id; before: {}", crate::report::hex(&v.to_le_bytes()), alone[k]), json!({"site": "decode-after-mutators", "index": i}));
                } else { acc.class("decode-independent-of-mutators"); acc.nontrivial(); }
            }));
    }
    // ... nor over longer histories: every sequence of up to 6 decodes (+ write-back) over five identifiers, on a fresh thread
    {
        let corpus: Vec<(String, [u8; 4])> = vec![("XFG".into(), *b"XFG\0"), ("FBM".into(), *b"FBM\0"), ("mod DBF12E".into(), [0x2e, 0xf1, 0xdb, 0]), ("mod spelling XRT".into(), *b"XRT\x01"), ("ABC (no car)".into(), *b"ABC\0")];
        s.push(crate::crossthread::history_site("C13", "decode-histories", "vehicle decode + write-back", corpus, |b: &[u8; 4]| {
            Vehicle::read_le(&mut Cursor::new(&b[..])).map(|v| { let mut c = Cursor::new(Vec::new()); let w = v.write_le(&mut c).map(|_| c.into_inner()).map_err(|_| ()); (format!("{v:?} {v}"), w) }).map_err(|_| ())
        }));
    }
    // no memory between threads either: histories of 2 and 3 decodes / encodes spread over two threads
    {
        let mut corpus: Vec<(String, [u8; 4])> = vec![];
        for name in ["XFG", "FBM", "BF1", "UF1", "XRT"] { let b = name.as_bytes(); corpus.push((format!("vehicle {name}"), [b[0], b[1], b[2], 0])); }
        for id in [0x00db_f12eu32, 0x0007_409a, 0x0012_3456, 0x5a5a_5a5a, 1, 0] { corpus.push((format!("vehicle id {id:#010x}"), id.to_le_bytes())); }
        s.push(crate::crossthread::site("C13", "cross-thread-vehicles", "vehicle decode + re-encode + display", corpus, |b: &[u8; 4]| {
            Vehicle::read_le(&mut Cursor::new(&b[..])).map(|v| {
                let mut c = Cursor::new(Vec::new());
                let w = v.write_le(&mut c).map(|_| c.into_inner()).map_err(|_| ());
                (format!("{v:?}"), format!("{v}"), w)
            }).map_err(|_| ())
        }));
    }
    {
        let vals = std::sync::Arc::new(short_read_values());
        let n = vals.len() as u64 * 4 * 8 * 2;
        s.push(Site::new("short-reads", n,
            "every built-in name, near-names and mod ids x identifier at stream offset 0..3 x every way a reader can deliver its 4 bytes in pieces (8 compositions) x {never, every second call} interrupted (EINTR): same value, same bytes consumed as from a plain cursor; written back through a writer that accepts 1-3 bytes per call",
            move |i, acc| {
                acc.eval();
                let interrupts = i % 2 == 1;
                let i = i / 2;
                let value = vals[(i / 32) as usize];
                let off = ((i / 8) % 4) as usize;
                let mask = (i % 8) << off;
                let mut data = vec![0x55u8; off];
                data.extend_from_slice(&value.to_le_bytes());
                data.extend_from_slice(&[0x66, 0x77]);
                let plain = {
                    let mut c = Cursor::new(&data[..]);
                    c.set_position(off as u64);
                    let r = Vehicle::read_le(&mut c);
                    (format!("{r:?}"), c.position() as usize)
                };
                let chopped = guard(|| {
                    let mut c = crate::choppy::Choppy::new(data.clone(), mask, 64);
                    c.interrupt_every = if interrupts { 2 } else { 0 };
                    // (... and, with the cuts as they are, the second / third / second and third call of all: a retry behind a short read)
                    c.interrupt_calls = if interrupts { 0 } else { [0u64, 0b10, 0b100, 0b110][(off % 4) as usize] };
                    let _ = std::io::Seek::seek(&mut c, std::io::SeekFrom::Start(off as u64));
                    let r = Vehicle::read_le(&mut c);
                    // and the way back through a writer that takes one byte at a time
                    if let Ok(v) = &r {
                        let mut w = crate::choppy::ChoppyWriter::new(1 + (mask as usize % 3), if interrupts { 2 } else { 0 });
                        let wr = v.write_le(&mut w);
                        if wr.is_err() || w.data[..] != value.to_le_bytes()[..] {
                            return (format!("{r:?} but written through a slow writer as {} ({wr:?})", crate::report::hex(&w.data)), c.position());
                        }
                    }
                    (format!("{r:?}"), c.position())
                });
                let replay = json!({"site": "short-reads", "index": i, "bytes": crate::report::hex(&value.to_le_bytes()), "offset": off, "cuts": mask >> off});
                match chopped {
                    Err(p) => acc.violate(i, "C13|short-read|panic".into(), p, replay),
                    Ok(c) if c == plain => { acc.class("short-read-agrees"); acc.nontrivial(); },
                    Ok(c) => acc.violate(i, "C13|short-read|differs-from-plain-read".into(),
                        format!("{} read in pieces (cuts {:03b}) gives {} leaving the reader at {}, in one piece {} at {}", crate::report::hex(&value.to_le_bytes()), mask >> off, c.0, c.1, plain.0, plain.1), replay),
                }
            }));
    }
    if tier == Tier::Thorough {
        s.push(Site::new("all-u32", 1u64 << 32, "all 2^32 four-byte values", |i, acc| {
            let _ = guard(|| judge(i as u32, i, "all-u32", acc)).map_err(|p| acc.violate(i, "C13|panic".into(), p, json!({"site": "all-u32", "index": i})));
        }));
    } else {
        s.push(Site::new("byte3-zero", 1u64 << 24, "all 2^24 values whose fourth byte is 0 (contains every built-in-shaped name and its neighbourhood)", |i, acc| {
            let _ = guard(|| judge(i as u32, i, "byte3-zero", acc)).map_err(|p| acc.violate(i, "C13|panic".into(), p, json!({"site": "byte3-zero", "index": i})));
        }));
        s.push(Site::new("alnum-any-byte3", 62 * 62 * 62 * 256, "all values whose first three bytes are ASCII alphanumerics, for every fourth byte", |i, acc| {
            const A: &[u8; 62] = b"0123456789ABCDEFGHIJKLMNOPQRSTUVWXYZabcdefghijklmnopqrstuvwxyz";
            let b3 = (i % 256) as u8;
            let mut j = i / 256;
            let c0 = A[(j % 62) as usize]; j /= 62;
            let c1 = A[(j % 62) as usize]; j /= 62;
            let c2 = A[(j % 62) as usize];
            let v = u32::from_le_bytes([c0, c1, c2, b3]);
            let _ = guard(|| judge(v, i, "alnum-any-byte3", acc)).map_err(|p| acc.violate(i, "C13|panic".into(), p, json!({"site": "alnum-any-byte3", "index": i})));
        }));
    }
    s
}

pub fn run(tier: Tier, replay: Option<String>) -> i32 {
    super::run_e1("C13", tier, "exploration", replay, sites(tier),
        "complete enumeration of the 4-byte domain (thorough: all 2^32; quick: all 2^24 with byte 3 = 0 plus all alphanumeric triples x 256); every index is a distinct value; non-trivial = built-in-shaped values (recognised or rejected)",
        vec!["InSim v9 rule written independently: 3 ASCII alphanumerics + NUL name a built-in car (20 names) else error; all zero = unknown; anything else = mod id (little-endian u32)".into()],
        |_, _| {})
}
