//! C05 "long session": ONE connection receives more than 2^32 (thorough) / 2^24 + 2^16 (quick)
//! bytes - reassembly does not depend on how much a connection has already received.  A single
//! deterministic execution per (implementation, mode, read size rule): the session length is the
//! dimension being pushed past every counter width below 64 bits that the platform offers.
//!
//! Oracle: the k-th result re-encodes (real codec, judged by C01-C04) to the k-th frame sent, and
//! end of stream after the last frame is reported as `Disconnected`.

use std::{
    io,
    pin::Pin,
    task::{Context, Poll},
};

use insim::{identifiers::RequestId, insim::*, net::Codec, Packet};
use tokio::io::{AsyncRead, AsyncWrite, ReadBuf};

use super::c02::mode_of;

#[derive(Debug)]
struct Cyclic {
    pat2: Vec<u8>,
    plen: usize,
    pos: u64,
    total: u64,
    /// 0: whatever is asked for; n: at most n bytes per read
    cap: usize,
    /// what the connection wrote (kept only when asked for: the 4 GiB sessions write nothing worth keeping)
    out: Option<std::sync::Arc<std::sync::Mutex<Vec<u8>>>>,
}

impl Cyclic {
    fn take(&mut self, want: usize) -> &[u8] {
        let left = self.total - self.pos;
        let mut n = want.min(self.pat2.len() - self.plen);
        if self.cap > 0 { n = n.min(self.cap); }
        if (n as u64) > left { n = left as usize; }
        let off = (self.pos % self.plen as u64) as usize;
        self.pos += n as u64;
        &self.pat2[off..off + n]
    }
}

impl io::Read for Cyclic {
    fn read(&mut self, buf: &mut [u8]) -> io::Result<usize> {
        let s = self.take(buf.len());
        buf[..s.len()].copy_from_slice(s);
        Ok(s.len())
    }
}
impl Cyclic {
    fn keep(&self, buf: &[u8]) { if let Some(o) = &self.out { o.lock().unwrap().extend_from_slice(buf); } }
}
impl io::Write for Cyclic {
    fn write(&mut self, buf: &[u8]) -> io::Result<usize> { self.keep(buf); Ok(buf.len()) }
    fn flush(&mut self) -> io::Result<()> { Ok(()) }
}
impl AsyncRead for Cyclic {
    fn poll_read(mut self: Pin<&mut Self>, _cx: &mut Context<'_>, buf: &mut ReadBuf<'_>) -> Poll<io::Result<()>> {
        let want = buf.remaining();
        let s = self.take(want);
        buf.put_slice(s);
        Poll::Ready(Ok(()))
    }
}
impl AsyncWrite for Cyclic {
    fn poll_write(self: Pin<&mut Self>, _cx: &mut Context<'_>, buf: &[u8]) -> Poll<io::Result<usize>> { self.keep(buf); Poll::Ready(Ok(buf.len())) }
    fn poll_flush(self: Pin<&mut Self>, _cx: &mut Context<'_>) -> Poll<io::Result<()>> { Poll::Ready(Ok(())) }
    fn poll_shutdown(self: Pin<&mut Self>, _cx: &mut Context<'_>) -> Poll<io::Result<()>> { Poll::Ready(Ok(())) }
}

fn cycle(compressed: bool) -> Vec<Packet> {
    let cars = if compressed { 36 } else { 8 };
    vec![
        Packet::Mci(Mci { reqi: RequestId(0), info: (0..cars).map(|i| CompCar { node: i, lap: 1, ..Default::default() }).collect() }),
        Packet::Small(Small { reqi: RequestId(2), subt: SmallType::Vta(VtnAction::End) }),
        Packet::Mso(Mso { msg: "hi".into(), ..Default::default() }),
        Packet::Tiny(Tiny { reqi: RequestId(1), subt: TinyType::Ping }),
        Packet::Mci(Mci { reqi: RequestId(0), info: (0..cars).map(|i| CompCar { node: i + 1, lap: 2, ..Default::default() }).collect() }),
        Packet::Mst(Mst { reqi: RequestId(3), msg: "hello world".into() }),
    ]
}

pub struct Case {
    pub tokio: bool,
    pub compressed: bool,
    pub cap: usize,
    pub min_bytes: u64,
    /// Some(n): the session is exactly n bytes of TINY_PING frames (n a multiple of 4), then end of stream
    pub exact: Option<u64>,
}

impl Case {
    pub fn label(&self) -> String {
        if let Some(n) = self.exact { return format!("{}#{}#exactly-{n}-bytes-then-end-of-stream", if self.tokio { "tokio" } else { "blocking" }, if self.compressed { "compressed" } else { "uncompressed" }); }
        format!("{}#{}#{}#{}-bytes", if self.tokio { "tokio" } else { "blocking" }, if self.compressed { "compressed" } else { "uncompressed" },
            if self.cap == 0 { "reads-as-asked".to_string() } else { format!("reads-of-{}", self.cap) }, self.min_bytes)
    }
}

/// Ok(frames received) or Err(what went wrong at which frame).
pub fn run(case: &Case) -> Result<u64, String> {
    let codec = Codec::new(mode_of(case.compressed));
    let frames: Vec<Vec<u8>> = if case.exact.is_some() { vec![vec![if case.compressed { 1 } else { 4 }, 3, 5, 3]] } else { cycle(case.compressed).iter().map(|p| codec.encode(p).map(|b| b.to_vec()).map_err(|e| format!("MACHINERY encode {e:?}"))).collect::<Result<_, _>>()? };
    let pattern: Vec<u8> = frames.concat();
    let plen = pattern.len();
    let cycles = if let Some(n) = case.exact { n / plen as u64 } else { case.min_bytes / plen as u64 + 2 };
    let total = cycles * plen as u64;
    let mut pat2 = vec![];
    while pat2.len() < 65536 + plen { pat2.extend_from_slice(&pattern); }
    pat2.extend_from_slice(&pattern);
    let t = Cyclic { pat2, plen, pos: 0, total, cap: case.cap, out: None };
    let want = cycles * frames.len() as u64;
    let check = |k: u64, r: Result<Packet, insim::Error>| -> Result<bool, String> {
        if k == want {
            return match r {
                Err(insim::Error::Disconnected) => Ok(true),
                other => Err(format!("after the last frame ({k} frames, {total} bytes) the end of the stream was reported as {}", crate::e2::world::render(&other).chars().take(80).collect::<String>())),
            };
        }
        match r {
            Ok(p) => {
                let again = codec.encode(&p).map_err(|e| format!("result {k} does not encode: {e:?}"))?;
                if again[..] != frames[(k % frames.len() as u64) as usize][..] {
                    return Err(format!("result {k} (about {} bytes into the session) is not frame {k} of the stream", k / frames.len() as u64 * plen as u64));
                }
                Ok(false)
            },
            Err(e) => Err(format!("result {k} (about {} bytes into the session) is {}", k / frames.len() as u64 * plen as u64, crate::e2::world::render(&Err(e)).chars().take(80).collect::<String>())),
        }
    };
    if case.tokio {
        let rt = tokio::runtime::Builder::new_current_thread().enable_time().start_paused(true).build().map_err(|e| format!("MACHINERY {e}"))?;
        let mut framed = insim::net::tokio_impl::Framed::new(Box::new(t), Codec::new(mode_of(case.compressed)));
        rt.block_on(async {
            let mut k = 0u64;
            loop {
                let r = framed.read().await;
                if check(k, r)? { return Ok(k); }
                k += 1;
            }
        })
    } else {
        let mut framed = insim::net::blocking_impl::Framed::new(Box::new(t), Codec::new(mode_of(case.compressed)));
        let mut k = 0u64;
        loop {
            let r = framed.read();
            if check(k, r)? { return Ok(k); }
            k += 1;
        }
    }
}

pub fn cases(thorough: bool) -> Vec<Case> {
    let mut out = vec![];
    let min_bytes = if thorough { (1u64 << 32) + (1 << 20) } else { (1u64 << 24) + (1 << 16) };
    for tokio in [false, true] {
        for compressed in [true, false] {
            out.push(Case { tokio, compressed, cap: 0, min_bytes, exact: None });
            // 2^16 frames-worth is also passed with small reads: the count of READS grows past 2^16 / 2^24 too
            out.push(Case { tokio, compressed, cap: 7, min_bytes: if thorough { (1 << 28) + 4096 } else { (1 << 22) + 4096 }, exact: None });
            // one and two bytes per read all the way: every frame (1012 bytes among them) takes as many reads as it has
            // bytes - the search, merging states on the buffer contents, only ever executes the shortest way to each
            out.push(Case { tokio, compressed, cap: 1, min_bytes: if thorough { (1 << 24) + 4096 } else { (1 << 20) + 4096 }, exact: None });
            out.push(Case { tokio, compressed, cap: 2, min_bytes: if thorough { (1 << 24) + 4096 } else { (1 << 20) + 4096 }, exact: None });
            // sessions of an exact size - every power of two from 1 KiB to 1 MiB, the multiples of the 6120-byte buffer, each
            // +- one frame - delivered as fast as the connection asks, then end of stream: a scratch buffer that fills exactly
            for n in [1024u64, 2048, 4096, 6120, 8192, 12240, 16384, 18360, 24576, 32768, 65536, 131072, 1 << 20] { for d in [-4i64, 0, 4] { out.push(Case { tokio, compressed, cap: 0, min_bytes: 0, exact: Some((n as i64 + d) as u64) }); } }
        }
    }
    out
}

// ---------------------------------------------------------------------------------------------
// The same reassembly through connections made the way applications make them: the public Builder over
// real loopback TCP (`insim::tcp(addr).compressed()/uncompressed().tcp_nodelay(..).connect_blocking()/
// connect_async()`).  The kernel decides how the peer's writes are cut into reads, so the schedule is not
// enumerated here (the scripted-transport search does that); what is enumerated is how the connection was
// made x how the peer wrote.  The outcome must not depend on either.

pub struct TcpCase {
    pub tokio: bool,
    pub compressed: bool,
    pub nodelay: bool,
    /// 0 = the whole stream in one write; n = writes of n bytes
    pub chunk: usize,
}

impl TcpCase {
    pub fn label(&self) -> String {
        format!("builder-tcp#{}#{}#nodelay-{}#peer-writes-{}", if self.tokio { "connect_async" } else { "connect_blocking" }, if self.compressed { "compressed" } else { "uncompressed" }, self.nodelay,
            if self.chunk == 0 { "everything-at-once".to_string() } else { format!("{}-bytes-at-a-time", self.chunk) })
    }
}

pub fn tcp_cases() -> Vec<TcpCase> {
    let mut out = vec![];
    for tokio in [false, true] {
        for compressed in [true, false] {
            for nodelay in [true, false] {
                for chunk in [0usize, 1, 3, 1021, 4096] {
                    out.push(TcpCase { tokio, compressed, nodelay, chunk });
                }
            }
        }
    }
    out
}

fn tcp_stream_packets(compressed: bool) -> Vec<Packet> {
    let ka = Packet::Tiny(Tiny { reqi: RequestId(0), subt: TinyType::None });
    let mut v = vec![Packet::Ver(Ver { reqi: RequestId(1), insimver: 9, ..Default::default() })];
    let c = cycle(compressed);
    v.push(c[1].clone());
    v.push(ka.clone());
    // more than the 6120-byte receive buffer in one go
    for k in 0..9 { v.push(c[if k % 2 == 0 { 0 } else { 4 }].clone()); v.push(c[2].clone()); }
    v.push(ka.clone());
    v.push(c[5].clone());
    v.push(ka);
    v.push(c[3].clone());
    v
}

/// Ok(()) or Err(description); "harness: ..." = the environment failed, not the library.
pub fn run_tcp(case: &TcpCase) -> Result<(), String> {
    use std::io::{Read, Write};
    use std::time::Duration;
    let codec = Codec::new(mode_of(case.compressed));
    let packets = tcp_stream_packets(case.compressed);
    let frames: Vec<Vec<u8>> = packets.iter().map(|p| codec.encode(p).map(|b| b.to_vec()).map_err(|e| format!("harness: encode {e:?}"))).collect::<Result<_, _>>()?;
    let stream: Vec<u8> = frames.concat();
    let keepalives = packets.iter().filter(|p| matches!(p, Packet::Tiny(t) if t.reqi.0 == 0 && t.subt == TinyType::None)).count();
    let listener = std::net::TcpListener::bind("127.0.0.1:0").map_err(|e| format!("harness: {e}"))?;
    let addr = listener.local_addr().unwrap();
    let mut b = insim::tcp(addr).connect_timeout(Duration::from_secs(3)).tcp_nodelay(case.nodelay);
    b = if case.compressed { b.compressed() } else { b.uncompressed() };
    let want_isi = codec.encode(&Packet::Isi(b.isi())).map_err(|e| format!("harness: encode isi {e:?}"))?.to_vec();
    let chunk = case.chunk;
    // the peer: accept, read the ISI, write the stream, read the replies until the client goes away
    let peer = std::thread::spawn(move || -> Result<Vec<u8>, String> {
        let (mut s, _) = listener.accept().map_err(|e| format!("harness: accept {e}"))?;
        s.set_read_timeout(Some(Duration::from_secs(8))).unwrap();
        s.set_nodelay(true).unwrap();
        let mut isi = vec![0u8; want_isi.len()];
        s.read_exact(&mut isi).map_err(|e| format!("the peer did not receive a whole ISI: {e}"))?;
        if isi != want_isi { return Err(format!("the peer received {} where the handshake is {}", crate::report::hex(&isi), crate::report::hex(&want_isi))); }
        if chunk == 0 { s.write_all(&stream).map_err(|e| format!("harness: write {e}"))?; }
        else { for c in stream.chunks(chunk) { s.write_all(c).map_err(|e| format!("harness: write {e}"))?; } }
        s.shutdown(std::net::Shutdown::Write).map_err(|e| format!("harness: shutdown {e}"))?;
        let mut rest = vec![];
        let _ = s.read_to_end(&mut rest).map_err(|e| format!("the peer's read of the replies failed: {e}"))?;
        Ok(rest)
    });
    let check = |k: usize, r: Result<Packet, insim::Error>| -> Result<bool, String> {
        if k == frames.len() {
            return match r {
                Err(insim::Error::Disconnected) => Ok(true),
                other => Err(format!("after the last frame the end of the stream was reported as {}", crate::e2::world::render(&other).chars().take(80).collect::<String>())),
            };
        }
        match r {
            Ok(p) => {
                let again = codec.encode(&p).map_err(|e| format!("result {k} does not encode: {e:?}"))?;
                if again[..] != frames[k][..] { return Err(format!("result {k} is {} where frame {k} of the stream is {}", crate::e2::world::render(&Ok(p)).chars().take(60).collect::<String>(), crate::report::hex(&frames[k][..frames[k].len().min(16)]))); }
                Ok(false)
            },
            Err(e) => Err(format!("result {k} is {}", crate::e2::world::render(&Err(e)).chars().take(80).collect::<String>())),
        }
    };
    let client: Result<(), String> = if case.tokio {
        let rt = tokio::runtime::Builder::new_current_thread().enable_io().enable_time().build().map_err(|e| format!("harness: {e}"))?;
        rt.block_on(async {
            let mut conn = tokio::time::timeout(Duration::from_secs(3), b.connect_async()).await.map_err(|_| "harness: connect timed out".to_string())?.map_err(|e| format!("connect failed: {e}"))?;
            let mut k = 0usize;
            loop {
                let r = tokio::time::timeout(Duration::from_secs(5), conn.read()).await.map_err(|_| format!("read #{k} did not return within 5 s"))?;
                if check(k, r)? { return Ok(()); }
                k += 1;
            }
        })
    } else {
        (|| {
            let mut conn = b.connect_blocking().map_err(|e| format!("connect failed: {e}"))?;
            let mut k = 0usize;
            loop {
                if check(k, conn.read())? { return Ok(()); }
                k += 1;
            }
        })()
    };
    client?;
    let replies = peer.join().map_err(|_| "harness: peer thread panicked".to_string())??;
    let pong: [u8; 4] = [if case.compressed { 1 } else { 4 }, 3, 0, 0];
    let want: Vec<u8> = (0..keepalives).flat_map(|_| pong).collect();
    if replies != want {
        return Err(format!("the peer received {} after the ISI where {keepalives} keep-alive replies ({}) are due", crate::report::hex(&replies[..replies.len().min(40)]), crate::report::hex(&want)));
    }
    Ok(())
}


// ---------------------------------------------------------------------------------------------
// "Any number" of keep-alives and of writes on one connection: more than 2^16 of each (a count kept in 16 bits wraps
// in there), one execution per implementation and mode.  Inbound: the cycle [keep-alive, SMALL, keep-alive, MSO,
// TINY_PING] repeated 35 000 times (70 000 keep-alives, 175 000 frames); the application writes a SMALL after every
// 5th read (35 000 writes... and 70 000 in the write-only session).  Oracle: results in order; the outbound bytes are
// exactly the replies and the written frames in call order.

pub struct CountCase { pub tokio: bool, pub compressed: bool }
impl CountCase {
    pub fn label(&self) -> String { format!("many-keep-alives-and-writes#{}#{}", if self.tokio { "tokio" } else { "blocking" }, if self.compressed { "compressed" } else { "uncompressed" }) }
}
pub fn count_cases() -> Vec<CountCase> {
    let mut v = vec![];
    for tokio in [false, true] { for compressed in [true, false] { v.push(CountCase { tokio, compressed }); } }
    v
}

pub fn run_count(case: &CountCase) -> Result<u64, String> {
    let codec = Codec::new(mode_of(case.compressed));
    let ka = Packet::Tiny(Tiny { reqi: RequestId(0), subt: TinyType::None });
    let c = cycle(case.compressed);
    let inbound: Vec<Packet> = vec![ka.clone(), c[1].clone(), ka.clone(), c[2].clone(), c[3].clone()];
    let frames: Vec<Vec<u8>> = inbound.iter().map(|p| codec.encode(p).map(|b| b.to_vec()).map_err(|e| format!("MACHINERY encode {e:?}"))).collect::<Result<_, _>>()?;
    let pattern: Vec<u8> = frames.concat();
    let plen = pattern.len();
    let cycles = 35_000u64;
    let total = cycles * plen as u64;
    let mut pat2 = vec![];
    while pat2.len() < 65536 + plen { pat2.extend_from_slice(&pattern); }
    pat2.extend_from_slice(&pattern);
    let out = std::sync::Arc::new(std::sync::Mutex::new(Vec::<u8>::new()));
    let t = Cyclic { pat2, plen, pos: 0, total, cap: 0, out: Some(out.clone()) };
    let user = Packet::Small(Small { reqi: RequestId(9), subt: SmallType::Vta(VtnAction::End) });
    let user_frame = codec.encode(&user).map_err(|e| format!("MACHINERY encode {e:?}"))?.to_vec();
    let pong: Vec<u8> = vec![if case.compressed { 1 } else { 4 }, 3, 0, 0];
    let want_results = cycles * frames.len() as u64;
    let mut expect_out: Vec<u8> = Vec::with_capacity((cycles as usize) * 16);
    let check = |k: u64, r: Result<Packet, insim::Error>| -> Result<bool, String> {
        if k == want_results {
            return match r { Err(insim::Error::Disconnected) => Ok(true), other => Err(format!("after the last frame ({k} results) the end of the stream was reported as {}", crate::e2::world::render(&other).chars().take(80).collect::<String>())) };
        }
        match r {
            Ok(p) => {
                let again = codec.encode(&p).map_err(|e| format!("result {k} does not encode: {e:?}"))?;
                if again[..] != frames[(k % frames.len() as u64) as usize][..] { return Err(format!("result {k} is not frame {k} of the stream")); }
                Ok(false)
            },
            Err(e) => Err(format!("result {k} is {}", crate::e2::world::render(&Err(e)).chars().take(80).collect::<String>())),
        }
    };
    let is_ka = |k: u64| matches!(k % 5, 0 | 2);
    let mut writes = 0u64;
    if case.tokio {
        let rt = tokio::runtime::Builder::new_current_thread().enable_time().start_paused(true).build().map_err(|e| format!("MACHINERY {e}"))?;
        let mut framed = insim::net::tokio_impl::Framed::new(Box::new(t), Codec::new(mode_of(case.compressed)));
        rt.block_on(async {
            let mut k = 0u64;
            loop {
                let r = framed.read().await;
                if k < want_results && is_ka(k) { expect_out.extend_from_slice(&pong); }
                if check(k, r)? { break; }
                if k % 5 == 4 {
                    framed.write(user.clone()).await.map_err(|e| format!("write #{writes} failed: {e}"))?;
                    expect_out.extend_from_slice(&user_frame);
                    writes += 1;
                }
                k += 1;
            }
            // ... and 70 000 writes in a row
            for w in 0..70_000u64 {
                framed.write(user.clone()).await.map_err(|e| format!("write #{} failed: {e}", writes + w))?;
                expect_out.extend_from_slice(&user_frame);
            }
            Ok::<(), String>(())
        })?;
    } else {
        let mut framed = insim::net::blocking_impl::Framed::new(Box::new(t), Codec::new(mode_of(case.compressed)));
        let mut k = 0u64;
        loop {
            let r = framed.read();
            if k < want_results && is_ka(k) { expect_out.extend_from_slice(&pong); }
            if check(k, r)? { break; }
            if k % 5 == 4 {
                framed.write(user.clone()).map_err(|e| format!("write #{writes} failed: {e}"))?;
                expect_out.extend_from_slice(&user_frame);
                writes += 1;
            }
            k += 1;
        }
        for w in 0..70_000u64 {
            framed.write(user.clone()).map_err(|e| format!("write #{} failed: {e}", writes + w))?;
            expect_out.extend_from_slice(&user_frame);
        }
    }
    let got = out.lock().unwrap();
    if *got != expect_out {
        let at = got.iter().zip(expect_out.iter()).position(|(a, b)| a != b).unwrap_or(got.len().min(expect_out.len()));
        return Err(format!("the transport received {} bytes where {} are due (70 000 replies, {} written frames in call order); first difference at byte {at}: {} vs {}", got.len(), expect_out.len(), writes + 70_000,
            crate::report::hex(&got[at.min(got.len())..(at + 12).min(got.len())]), crate::report::hex(&expect_out[at.min(expect_out.len())..(at + 12).min(expect_out.len())])));
    }
    Ok(want_results)
}


// ---------------------------------------------------------------------------------------------
// The search merges states on the bytes written so far, so of all the ways to reach "300 bytes of this frame are
// out" it executes the one with the fewest calls.  A writer that counts its calls is only seen by executions that
// really take many calls: every kind's B1 frame and the largest frame of every counted kind (up to 1016 bytes),
// written through a transport that takes k bytes per call all the way (k in {1, 2, 3, 7}), optionally answering
// "not ready" before every call that takes bytes - one execution each.

#[derive(Debug)]
struct Dribble { k: usize, stutter: bool, ready: bool, out: std::sync::Arc<std::sync::Mutex<Vec<u8>>>, calls: std::sync::Arc<std::sync::atomic::AtomicU64> }
impl io::Read for Dribble { fn read(&mut self, _b: &mut [u8]) -> io::Result<usize> { Ok(0) } }
impl io::Write for Dribble {
    fn write(&mut self, buf: &[u8]) -> io::Result<usize> {
        let _ = self.calls.fetch_add(1, std::sync::atomic::Ordering::Relaxed);
        if self.stutter && !self.ready { self.ready = true; return Err(io::Error::new(io::ErrorKind::Interrupted, "verif: not ready")); }
        self.ready = false;
        let n = buf.len().min(self.k);
        self.out.lock().unwrap().extend_from_slice(&buf[..n]);
        Ok(n)
    }
    fn flush(&mut self) -> io::Result<()> { Ok(()) }
}
impl AsyncRead for Dribble { fn poll_read(self: Pin<&mut Self>, _cx: &mut Context<'_>, _b: &mut ReadBuf<'_>) -> Poll<io::Result<()>> { Poll::Ready(Ok(())) } }
impl AsyncWrite for Dribble {
    fn poll_write(mut self: Pin<&mut Self>, cx: &mut Context<'_>, buf: &[u8]) -> Poll<io::Result<usize>> {
        let _ = self.calls.fetch_add(1, std::sync::atomic::Ordering::Relaxed);
        if self.stutter && !self.ready { self.ready = true; cx.waker().wake_by_ref(); return Poll::Pending; }
        self.ready = false;
        let n = buf.len().min(self.k);
        self.out.lock().unwrap().extend_from_slice(&buf[..n]);
        Poll::Ready(Ok(n))
    }
    fn poll_flush(self: Pin<&mut Self>, _cx: &mut Context<'_>) -> Poll<io::Result<()>> { Poll::Ready(Ok(())) }
    fn poll_shutdown(self: Pin<&mut Self>, _cx: &mut Context<'_>) -> Poll<io::Result<()>> { Poll::Ready(Ok(())) }
}

pub struct DribbleCase { pub tokio: bool, pub compressed: bool, pub k: usize, pub stutter: bool, pub name: String, pub packet: Packet }
impl DribbleCase {
    pub fn label(&self) -> String { format!("dribble-writes#{}#{}#{}#{}-bytes-per-call{}", if self.tokio { "tokio" } else { "blocking" }, if self.compressed { "compressed" } else { "uncompressed" }, self.name, self.k, if self.stutter { "#not-ready-before-every-call" } else { "" }) }
}

pub fn dribble_cases() -> Vec<DribbleCase> {
    let mut out = vec![];
    for compressed in [true, false] {
        let codec = Codec::new(mode_of(compressed));
        let mut packets: Vec<(String, Packet)> = vec![];
        for k in crate::spec::load().iter() {
            let Some(f) = crate::spec::ref_encode(k, &crate::gen::baseline(k, 1), compressed) else { continue };
            let mut b = bytes::BytesMut::from(&f[..]);
            if let Ok(Ok(Some(p))) = crate::report::guard(|| codec.decode(&mut b)) { packets.push((k.name.clone(), p)); }
        }
        for cn in crate::typed::counted() {
            for n in [cn.max, (1016 - cn.header) / cn.elem, (252 - cn.header) / cn.elem, (600 - cn.header.min(600)) / cn.elem] {
                let Some(p) = (cn.make)(n) else { continue };
                if !matches!(crate::report::guard(|| codec.encode(&p)), Ok(Ok(_))) { continue; }
                packets.push((format!("{}x{n}", cn.kind), p));
            }
        }
        for (name, p) in packets {
            for tokio in [false, true] {
                for (k, stutter) in [(1usize, false), (2, false), (3, false), (7, false), (1, true)] {
                    out.push(DribbleCase { tokio, compressed, k, stutter, name: name.clone(), packet: p.clone() });
                }
            }
        }
    }
    out
}

pub fn run_dribble(case: &DribbleCase) -> Result<u64, String> {
    let codec = Codec::new(mode_of(case.compressed));
    let tiny = Packet::Tiny(Tiny { reqi: RequestId(1), subt: TinyType::Ping });
    let mut want = codec.encode(&case.packet).map_err(|e| format!("MACHINERY encode {e:?}"))?.to_vec();
    want.extend_from_slice(&codec.encode(&tiny).map_err(|e| format!("MACHINERY encode {e:?}"))?);
    let out = std::sync::Arc::new(std::sync::Mutex::new(Vec::<u8>::new()));
    let calls = std::sync::Arc::new(std::sync::atomic::AtomicU64::new(0));
    let t = Dribble { k: case.k, stutter: case.stutter, ready: false, out: out.clone(), calls: calls.clone() };
    let results: Vec<Result<(), String>> = if case.tokio {
        let rt = tokio::runtime::Builder::new_current_thread().enable_time().start_paused(true).build().map_err(|e| format!("MACHINERY {e}"))?;
        let mut framed = insim::net::tokio_impl::Framed::new(Box::new(t), Codec::new(mode_of(case.compressed)));
        rt.block_on(async { vec![framed.write(case.packet.clone()).await.map_err(|e| e.to_string()), framed.write(tiny.clone()).await.map_err(|e| e.to_string())] })
    } else {
        let mut framed = insim::net::blocking_impl::Framed::new(Box::new(t), Codec::new(mode_of(case.compressed)));
        vec![framed.write(case.packet.clone()).map_err(|e| e.to_string()), framed.write(tiny.clone()).map_err(|e| e.to_string())]
    };
    for (i, r) in results.iter().enumerate() {
        if let Err(e) = r { return Err(format!("write #{i} returned {e} although the transport never failed ({} transport calls so far)", calls.load(std::sync::atomic::Ordering::Relaxed))); }
    }
    let got = out.lock().unwrap();
    if *got != want {
        let at = got.iter().zip(want.iter()).position(|(a, b)| a != b).unwrap_or(got.len().min(want.len()));
        return Err(format!("the transport received {} bytes where the two frames are {} bytes; first difference at byte {at}", got.len(), want.len()));
    }
    Ok(calls.load(std::sync::atomic::Ordering::Relaxed))
}


// ---------------------------------------------------------------------------------------------
// ... and a writer that LEARNS from earlier calls is only seen by executions in which the earlier calls were what it
// learns from: two large frames and a TINY through a transport whose first four write calls accept a scripted number
// of bytes each (every script over {everything, 1, 100, 256, 300, half, all but one}), everything afterwards.

#[derive(Debug)]
struct Scripted { script: Vec<usize>, at: usize, out: std::sync::Arc<std::sync::Mutex<Vec<u8>>> }
impl Scripted {
    fn take(&mut self, len: usize) -> usize {
        let k = self.script.get(self.at).copied().unwrap_or(usize::MAX);
        self.at += 1;
        // encoded choices: MAX = everything, MAX-1 = half, MAX-2 = all but one
        let n = if k == usize::MAX { len } else if k == usize::MAX - 1 { (len / 2).max(1) } else if k == usize::MAX - 2 { len.saturating_sub(1).max(1) } else { k.min(len) };
        n.max(1).min(len)
    }
}
impl io::Read for Scripted { fn read(&mut self, _b: &mut [u8]) -> io::Result<usize> { Ok(0) } }
impl io::Write for Scripted {
    fn write(&mut self, buf: &[u8]) -> io::Result<usize> { let n = self.take(buf.len()); self.out.lock().unwrap().extend_from_slice(&buf[..n]); Ok(n) }
    fn flush(&mut self) -> io::Result<()> { Ok(()) }
}
impl AsyncRead for Scripted { fn poll_read(self: Pin<&mut Self>, _cx: &mut Context<'_>, _b: &mut ReadBuf<'_>) -> Poll<io::Result<()>> { Poll::Ready(Ok(())) } }
impl AsyncWrite for Scripted {
    fn poll_write(mut self: Pin<&mut Self>, _cx: &mut Context<'_>, buf: &[u8]) -> Poll<io::Result<usize>> { let n = self.take(buf.len()); self.out.lock().unwrap().extend_from_slice(&buf[..n]); Poll::Ready(Ok(n)) }
    fn poll_flush(self: Pin<&mut Self>, _cx: &mut Context<'_>) -> Poll<io::Result<()>> { Poll::Ready(Ok(())) }
    fn poll_shutdown(self: Pin<&mut Self>, _cx: &mut Context<'_>) -> Poll<io::Result<()>> { Poll::Ready(Ok(())) }
}

pub struct ScriptedCase { pub tokio: bool, pub compressed: bool, pub name: String, pub packet: Packet, pub script: Vec<usize> }
impl ScriptedCase {
    pub fn label(&self) -> String {
        let show = |k: &usize| if *k == usize::MAX { "all".to_string() } else if *k == usize::MAX - 1 { "half".into() } else if *k == usize::MAX - 2 { "all-but-one".into() } else { k.to_string() };
        format!("scripted-acceptance#{}#{}#{} twice + TINY#accepting {:?} then everything", if self.tokio { "tokio" } else { "blocking" }, if self.compressed { "compressed" } else { "uncompressed" }, self.name, self.script.iter().map(show).collect::<Vec<_>>())
    }
}

pub fn scripted_cases() -> Vec<ScriptedCase> {
    let choices = [usize::MAX, 1, 100, 256, 300, usize::MAX - 1, usize::MAX - 2];
    let mut scripts: Vec<Vec<usize>> = vec![];
    for a in choices { for b in choices { for c in choices { for d in choices { scripts.push(vec![a, b, c, d]); } } } }
    let mut out = vec![];
    for compressed in [true, false] {
        let codec = Codec::new(mode_of(compressed));
        let mut packets: Vec<(String, Packet)> = vec![];
        for cn in crate::typed::counted() {
            for n in [(1016 - cn.header) / cn.elem, (600 - cn.header.min(600)) / cn.elem, (252 - cn.header) / cn.elem] {
                let Some(p) = (cn.make)(n) else { continue };
                if !matches!(crate::report::guard(|| codec.encode(&p)), Ok(Ok(_))) { continue; }
                if !["AXM", "MCI", "NLP"].contains(&cn.kind) { continue; }
                packets.push((format!("{}x{n}", cn.kind), p));
            }
        }
        for (name, p) in packets {
            for tokio in [false, true] {
                for sc in &scripts { out.push(ScriptedCase { tokio, compressed, name: name.clone(), packet: p.clone(), script: sc.clone() }); }
            }
        }
    }
    out
}

pub fn run_scripted(case: &ScriptedCase) -> Result<(), String> {
    let codec = Codec::new(mode_of(case.compressed));
    let tiny = Packet::Tiny(Tiny { reqi: RequestId(1), subt: TinyType::Ping });
    let f = codec.encode(&case.packet).map_err(|e| format!("MACHINERY encode {e:?}"))?.to_vec();
    let mut want = f.clone();
    want.extend_from_slice(&f);
    want.extend_from_slice(&codec.encode(&tiny).map_err(|e| format!("MACHINERY encode {e:?}"))?);
    let out = std::sync::Arc::new(std::sync::Mutex::new(Vec::<u8>::new()));
    let t = Scripted { script: case.script.clone(), at: 0, out: out.clone() };
    let results: Vec<Result<(), String>> = if case.tokio {
        let rt = tokio::runtime::Builder::new_current_thread().enable_time().start_paused(true).build().map_err(|e| format!("MACHINERY {e}"))?;
        let mut framed = insim::net::tokio_impl::Framed::new(Box::new(t), Codec::new(mode_of(case.compressed)));
        rt.block_on(async { vec![framed.write(case.packet.clone()).await.map_err(|e| e.to_string()), framed.write(case.packet.clone()).await.map_err(|e| e.to_string()), framed.write(tiny.clone()).await.map_err(|e| e.to_string())] })
    } else {
        let mut framed = insim::net::blocking_impl::Framed::new(Box::new(t), Codec::new(mode_of(case.compressed)));
        vec![framed.write(case.packet.clone()).map_err(|e| e.to_string()), framed.write(case.packet.clone()).map_err(|e| e.to_string()), framed.write(tiny.clone()).map_err(|e| e.to_string())]
    };
    for (i, r) in results.iter().enumerate() { if let Err(e) = r { return Err(format!("write #{i} returned {e} although the transport never failed")); } }
    let got = out.lock().unwrap();
    if *got != want {
        let at = got.iter().zip(want.iter()).position(|(a, b)| a != b).unwrap_or(got.len().min(want.len()));
        return Err(format!("the transport received {} bytes where the three frames are {} bytes; first difference at byte {at}", got.len(), want.len()));
    }
    Ok(())
}


// ---------------------------------------------------------------------------------------------
// The read side of the same idea: a reader that LEARNS from earlier reads (an adaptive read size, a remembered frame
// length) is only seen when the earlier reads were what it learns from: two maximum-size frames, a SMALL and a TINY
// through a transport whose first four reads deliver a scripted number of bytes each (7^4 scripts), then whatever is asked.

#[derive(Debug)]
struct ScriptedReads { data: Vec<u8>, pos: usize, script: Vec<usize>, at: usize }
impl ScriptedReads {
    fn take(&mut self, want: usize) -> &[u8] {
        let left = self.data.len() - self.pos;
        let len = want.min(left);
        let k = self.script.get(self.at).copied().unwrap_or(usize::MAX);
        self.at += 1;
        let n = if len == 0 { 0 } else if k == usize::MAX { len } else if k == usize::MAX - 1 { (len / 2).max(1) } else if k == usize::MAX - 2 { len.saturating_sub(1).max(1) } else { k.min(len).max(1) };
        let s = &self.data[self.pos..self.pos + n];
        self.pos += n;
        s
    }
}
impl io::Read for ScriptedReads { fn read(&mut self, b: &mut [u8]) -> io::Result<usize> { let s = self.take(b.len()); b[..s.len()].copy_from_slice(s); Ok(s.len()) } }
impl io::Write for ScriptedReads { fn write(&mut self, b: &[u8]) -> io::Result<usize> { Ok(b.len()) } fn flush(&mut self) -> io::Result<()> { Ok(()) } }
impl AsyncRead for ScriptedReads { fn poll_read(mut self: Pin<&mut Self>, _cx: &mut Context<'_>, b: &mut ReadBuf<'_>) -> Poll<io::Result<()>> { let want = b.remaining(); let s = self.take(want); b.put_slice(s); Poll::Ready(Ok(())) } }
impl AsyncWrite for ScriptedReads {
    fn poll_write(self: Pin<&mut Self>, _cx: &mut Context<'_>, b: &[u8]) -> Poll<io::Result<usize>> { Poll::Ready(Ok(b.len())) }
    fn poll_flush(self: Pin<&mut Self>, _cx: &mut Context<'_>) -> Poll<io::Result<()>> { Poll::Ready(Ok(())) }
    fn poll_shutdown(self: Pin<&mut Self>, _cx: &mut Context<'_>) -> Poll<io::Result<()>> { Poll::Ready(Ok(())) }
}

pub struct ScriptedReadCase { pub tokio: bool, pub compressed: bool, pub script: Vec<usize> }
impl ScriptedReadCase {
    pub fn label(&self) -> String {
        let show = |k: &usize| if *k == usize::MAX { "all".to_string() } else if *k == usize::MAX - 1 { "half".into() } else if *k == usize::MAX - 2 { "all-but-one".into() } else { k.to_string() };
        format!("scripted-reads#{}#{}#delivering {:?} then whatever is asked", if self.tokio { "tokio" } else { "blocking" }, if self.compressed { "compressed" } else { "uncompressed" }, self.script.iter().map(show).collect::<Vec<_>>())
    }
}
pub fn scripted_read_cases() -> Vec<ScriptedReadCase> {
    let choices = [usize::MAX, 1, 100, 256, 300, usize::MAX - 1, usize::MAX - 2];
    let mut out = vec![];
    for tokio in [false, true] { for compressed in [true, false] {
        for a in choices { for b in choices { for c in choices { for d in choices { out.push(ScriptedReadCase { tokio, compressed, script: vec![a, b, c, d] }); } } } }
    } }
    out
}
pub fn run_scripted_reads(case: &ScriptedReadCase) -> Result<(), String> {
    let codec = Codec::new(mode_of(case.compressed));
    let c = cycle(case.compressed);
    let packets = vec![c[0].clone(), c[4].clone(), c[1].clone(), c[3].clone(), c[0].clone()];
    let frames: Vec<Vec<u8>> = packets.iter().map(|p| codec.encode(p).map(|b| b.to_vec()).map_err(|e| format!("MACHINERY encode {e:?}"))).collect::<Result<_, _>>()?;
    let t = ScriptedReads { data: frames.concat(), pos: 0, script: case.script.clone(), at: 0 };
    let check = |k: usize, r: Result<Packet, insim::Error>| -> Result<bool, String> {
        if k == frames.len() { return match r { Err(insim::Error::Disconnected) => Ok(true), other => Err(format!("after the last frame the end of the stream was reported as {}", crate::e2::world::render(&other).chars().take(80).collect::<String>())) }; }
        match r {
            Ok(p) => { let again = codec.encode(&p).map_err(|e| format!("result {k} does not encode: {e:?}"))?; if again[..] != frames[k][..] { return Err(format!("result {k} is not frame {k} of the stream")); } Ok(false) },
            Err(e) => Err(format!("result {k} is {}", crate::e2::world::render(&Err(e)).chars().take(80).collect::<String>())),
        }
    };
    if case.tokio {
        let rt = tokio::runtime::Builder::new_current_thread().enable_time().start_paused(true).build().map_err(|e| format!("MACHINERY {e}"))?;
        let mut framed = insim::net::tokio_impl::Framed::new(Box::new(t), Codec::new(mode_of(case.compressed)));
        rt.block_on(async { let mut k = 0; loop { let r = framed.read().await; if check(k, r)? { return Ok(()); } k += 1; } })
    } else {
        let mut framed = insim::net::blocking_impl::Framed::new(Box::new(t), Codec::new(mode_of(case.compressed)));
        let mut k = 0;
        loop { let r = framed.read(); if check(k, r)? { return Ok(()); } k += 1; }
    }
}

// ---------------------------------------------------------------------------------------------
// Blocking connection, one keep-alive, a write side that FAILS in the middle of the reply: it accepts k bytes (k = 0..=3),
// answers one error of a given kind, then accepts everything.  Whatever the connection's retry policy, the wire never
// carries anything but a prefix of ONE reply, and the keep-alive is handed over only with that reply whole.

#[derive(Debug)]
struct FailingWrites { inbound: Vec<u8>, rpos: usize, accept: usize, kind: io::ErrorKind, state: u8, out: std::sync::Arc<std::sync::Mutex<Vec<u8>>> }
impl io::Read for FailingWrites {
    fn read(&mut self, b: &mut [u8]) -> io::Result<usize> { let n = b.len().min(self.inbound.len() - self.rpos); b[..n].copy_from_slice(&self.inbound[self.rpos..self.rpos + n]); self.rpos += n; Ok(n) }
}
impl io::Write for FailingWrites {
    fn write(&mut self, buf: &[u8]) -> io::Result<usize> {
        match self.state {
            0 if self.accept > 0 => { self.state = 1; let n = self.accept.min(buf.len()); self.out.lock().unwrap().extend_from_slice(&buf[..n]); Ok(n) },
            0 | 1 => { self.state = 2; Err(io::Error::new(self.kind, "verif: write fault")) },
            _ => { self.out.lock().unwrap().extend_from_slice(buf); Ok(buf.len()) },
        }
    }
    fn flush(&mut self) -> io::Result<()> { Ok(()) }
}

pub struct ReplyFaultCase { pub compressed: bool, pub accept: usize, pub kind: io::ErrorKind }
impl ReplyFaultCase { pub fn label(&self) -> String { format!("reply-write-fault#blocking#{}#{}-bytes-accepted-then-{:?}", if self.compressed { "compressed" } else { "uncompressed" }, self.accept, self.kind) } }
pub fn reply_fault_cases() -> Vec<ReplyFaultCase> {
    let mut v = vec![];
    for compressed in [true, false] { for accept in 0..=3usize { for kind in [io::ErrorKind::WouldBlock, io::ErrorKind::TimedOut, io::ErrorKind::Interrupted, io::ErrorKind::Other, io::ErrorKind::BrokenPipe, io::ErrorKind::WriteZero] { v.push(ReplyFaultCase { compressed, accept, kind }); } } }
    v
}
pub fn run_reply_fault(case: &ReplyFaultCase) -> Result<(), String> {
    let pong: Vec<u8> = vec![if case.compressed { 1 } else { 4 }, 3, 0, 0];
    let small: Vec<u8> = if case.compressed { vec![2, 4, 1, 0, 0, 0, 0, 0] } else { vec![8, 4, 1, 0, 0, 0, 0, 0] };
    let mut inbound = pong.clone();
    inbound.extend_from_slice(&small);
    let out = std::sync::Arc::new(std::sync::Mutex::new(Vec::<u8>::new()));
    let t = FailingWrites { inbound, rpos: 0, accept: case.accept, kind: case.kind, state: 0, out: out.clone() };
    let mut framed = insim::net::blocking_impl::Framed::new(Box::new(t), Codec::new(mode_of(case.compressed)));
    let first = framed.read();
    let written = out.lock().unwrap().clone();
    let whole = written == pong;
    let prefix = written.len() <= 4 && pong[..written.len()] == written[..];
    match &first {
        Ok(Packet::Tiny(t)) if t.reqi.0 == 0 && t.subt == TinyType::None => {
            if !whole { return Err(format!("the keep-alive was handed over with {} on the wire where exactly one reply {} is due", crate::report::hex(&written), crate::report::hex(&pong))); }
        },
        Ok(p) => return Err(format!("the first read returned {} where the keep-alive (or an error) is due", format!("{p:?}").chars().take(60).collect::<String>())),
        Err(_) => { if !prefix { return Err(format!("the read failed with {} on the wire, which is not the beginning of one reply", crate::report::hex(&written))); } },
    }
    Ok(())
}

// ---------------------------------------------------------------------------------------------
// The write side of the 2^32-byte session (thorough tier): one connection writes more than 4 GiB of maximum-size
// frames; the transport checks every byte it is offered against the frame sequence (library built with overflow checks).

#[derive(Debug)]
struct CheckingSink { frame: Vec<u8>, pos: u64, bad: Option<u64> }
impl CheckingSink {
    fn offer(&mut self, buf: &[u8]) {
        let l = self.frame.len() as u64;
        for (k, b) in buf.iter().enumerate() { if self.bad.is_none() && *b != self.frame[((self.pos + k as u64) % l) as usize] { self.bad = Some(self.pos + k as u64); } }
        self.pos += buf.len() as u64;
    }
}
#[derive(Debug)]
struct SharedSink(std::sync::Arc<std::sync::Mutex<CheckingSink>>);
impl io::Read for SharedSink { fn read(&mut self, _b: &mut [u8]) -> io::Result<usize> { Ok(0) } }
impl io::Write for SharedSink { fn write(&mut self, b: &[u8]) -> io::Result<usize> { self.0.lock().unwrap().offer(b); Ok(b.len()) } fn flush(&mut self) -> io::Result<()> { Ok(()) } }
impl AsyncRead for SharedSink { fn poll_read(self: Pin<&mut Self>, _cx: &mut Context<'_>, _b: &mut ReadBuf<'_>) -> Poll<io::Result<()>> { Poll::Ready(Ok(())) } }
impl AsyncWrite for SharedSink {
    fn poll_write(self: Pin<&mut Self>, _cx: &mut Context<'_>, b: &[u8]) -> Poll<io::Result<usize>> { self.0.lock().unwrap().offer(b); Poll::Ready(Ok(b.len())) }
    fn poll_flush(self: Pin<&mut Self>, _cx: &mut Context<'_>) -> Poll<io::Result<()>> { Poll::Ready(Ok(())) }
    fn poll_shutdown(self: Pin<&mut Self>, _cx: &mut Context<'_>) -> Poll<io::Result<()>> { Poll::Ready(Ok(())) }
}

pub fn run_long_writes(tokio: bool, compressed: bool) -> Result<u64, String> {
    let codec = Codec::new(mode_of(compressed));
    let p = cycle(compressed)[0].clone();
    let frame = codec.encode(&p).map_err(|e| format!("MACHINERY encode {e:?}"))?.to_vec();
    let n = (1u64 << 32) / frame.len() as u64 + 1100;
    let sink = std::sync::Arc::new(std::sync::Mutex::new(CheckingSink { frame: frame.clone(), pos: 0, bad: None }));
    let t = SharedSink(sink.clone());
    let r: Result<(), String> = if tokio {
        let rt = tokio::runtime::Builder::new_current_thread().enable_time().start_paused(true).build().map_err(|e| format!("MACHINERY {e}"))?;
        let mut framed = insim::net::tokio_impl::Framed::new(Box::new(t), Codec::new(mode_of(compressed)));
        rt.block_on(async { for k in 0..n { framed.write(p.clone()).await.map_err(|e| format!("write #{k} failed: {e}"))?; } Ok(()) })
    } else {
        let mut framed = insim::net::blocking_impl::Framed::new(Box::new(t), Codec::new(mode_of(compressed)));
        (|| { for k in 0..n { framed.write(p.clone()).map_err(|e| format!("write #{k} failed: {e}"))?; } Ok(()) })()
    };
    r?;
    let s = sink.lock().unwrap();
    if let Some(at) = s.bad { return Err(format!("byte {at} of the outbound stream is not the byte of the frame sequence")); }
    if s.pos != n * frame.len() as u64 { return Err(format!("{} bytes reached the transport where {} writes of {} bytes returned", s.pos, n, frame.len())); }
    Ok(n)
}


// ---------------------------------------------------------------------------------------------
// A stall in the MIDDLE of a frame longer than any counter of 16 bits: the transport accepts 5 bytes, answers "not
// ready" 70 000 times, then takes the rest - and the same stall in front of the next frame.

#[derive(Debug)]
struct Staller { first: usize, stalls_left: u32, taken: usize, phase: u8, out: std::sync::Arc<std::sync::Mutex<Vec<u8>>> }
impl Staller {
    fn answer(&mut self, buf: &[u8]) -> Option<usize> {
        match self.phase {
            0 => { self.phase = 1; let n = self.first.min(buf.len()); self.out.lock().unwrap().extend_from_slice(&buf[..n]); Some(n) },
            1 => { if self.stalls_left > 0 { self.stalls_left -= 1; None } else { self.phase = 2; let _ = self.taken; self.out.lock().unwrap().extend_from_slice(buf); Some(buf.len()) } },
            _ => { self.out.lock().unwrap().extend_from_slice(buf); Some(buf.len()) },
        }
    }
}
impl io::Read for Staller { fn read(&mut self, _b: &mut [u8]) -> io::Result<usize> { Ok(0) } }
impl io::Write for Staller {
    fn write(&mut self, buf: &[u8]) -> io::Result<usize> { match self.answer(buf) { Some(n) => Ok(n), None => Err(io::Error::new(io::ErrorKind::Interrupted, "verif: not ready")) } }
    fn flush(&mut self) -> io::Result<()> { Ok(()) }
}
impl AsyncRead for Staller { fn poll_read(self: Pin<&mut Self>, _cx: &mut Context<'_>, _b: &mut ReadBuf<'_>) -> Poll<io::Result<()>> { Poll::Ready(Ok(())) } }
impl AsyncWrite for Staller {
    fn poll_write(mut self: Pin<&mut Self>, cx: &mut Context<'_>, buf: &[u8]) -> Poll<io::Result<usize>> { match self.answer(buf) { Some(n) => Poll::Ready(Ok(n)), None => { cx.waker().wake_by_ref(); Poll::Pending } } }
    fn poll_flush(self: Pin<&mut Self>, _cx: &mut Context<'_>) -> Poll<io::Result<()>> { Poll::Ready(Ok(())) }
    fn poll_shutdown(self: Pin<&mut Self>, _cx: &mut Context<'_>) -> Poll<io::Result<()>> { Poll::Ready(Ok(())) }
}
pub fn run_stall(tokio: bool, compressed: bool) -> Result<(), String> {
    let codec = Codec::new(mode_of(compressed));
    let c = cycle(compressed);
    let ps = vec![c[5].clone(), c[1].clone(), c[3].clone()];
    let mut want = vec![];
    for p in &ps { want.extend_from_slice(&codec.encode(p).map_err(|e| format!("MACHINERY encode {e:?}"))?); }
    let out = std::sync::Arc::new(std::sync::Mutex::new(Vec::<u8>::new()));
    let t = Staller { first: 5, stalls_left: 70_000, taken: 0, phase: 0, out: out.clone() };
    let results: Vec<Result<(), String>> = if tokio {
        let rt = tokio::runtime::Builder::new_current_thread().enable_time().start_paused(true).build().map_err(|e| format!("MACHINERY {e}"))?;
        let mut framed = insim::net::tokio_impl::Framed::new(Box::new(t), Codec::new(mode_of(compressed)));
        rt.block_on(async { let mut v = vec![]; for p in &ps { v.push(framed.write(p.clone()).await.map_err(|e| e.to_string())); } v })
    } else {
        let mut framed = insim::net::blocking_impl::Framed::new(Box::new(t), Codec::new(mode_of(compressed)));
        ps.iter().map(|p| framed.write(p.clone()).map_err(|e| e.to_string())).collect()
    };
    for (i, r) in results.iter().enumerate() { if let Err(e) = r { return Err(format!("write #{i} returned {e} although the transport never failed")); } }
    let got = out.lock().unwrap();
    if *got != want { return Err(format!("the transport received {} bytes where the three frames are {} bytes", got.len(), want.len())); }
    Ok(())
}
