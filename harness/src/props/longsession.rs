//! C05 "long session": ONE connection receives more than 2^32 (thorough) / 2^24 + 2^16 (quick)
//! bytes - reassembly does not depend on how much a connection has already received.  A single
//! deterministic execution per (implementation, mode, read size rule): the session length is the
//! dimension being pushed past every counter width below 64 bits that the platform offers.
//!
//! Oracle: the k-th result re-encodes (real codec, judged by C01-C04) to the k-th frame sent, and
//! end of stream after the last frame is reported as `Disconnected`.

use std::{
    io,
    pin::Pin,
    task::{Context, Poll},
};

use insim::{identifiers::RequestId, insim::*, net::Codec, Packet};
use tokio::io::{AsyncRead, AsyncWrite, ReadBuf};

use super::c02::mode_of;

#[derive(Debug)]
struct Cyclic {
    pat2: Vec<u8>,
    plen: usize,
    pos: u64,
    total: u64,
    /// 0: whatever is asked for; n: at most n bytes per read
    cap: usize,
}

impl Cyclic {
    fn take(&mut self, want: usize) -> &[u8] {
        let left = self.total - self.pos;
        let mut n = want.min(self.pat2.len() - self.plen);
        if self.cap > 0 { n = n.min(self.cap); }
        if (n as u64) > left { n = left as usize; }
        let off = (self.pos % self.plen as u64) as usize;
        self.pos += n as u64;
        &self.pat2[off..off + n]
    }
}

impl io::Read for Cyclic {
    fn read(&mut self, buf: &mut [u8]) -> io::Result<usize> {
        let s = self.take(buf.len());
        buf[..s.len()].copy_from_slice(s);
        Ok(s.len())
    }
}
impl io::Write for Cyclic {
    fn write(&mut self, buf: &[u8]) -> io::Result<usize> { Ok(buf.len()) }
    fn flush(&mut self) -> io::Result<()> { Ok(()) }
}
impl AsyncRead for Cyclic {
    fn poll_read(mut self: Pin<&mut Self>, _cx: &mut Context<'_>, buf: &mut ReadBuf<'_>) -> Poll<io::Result<()>> {
        let want = buf.remaining();
        let s = self.take(want);
        buf.put_slice(s);
        Poll::Ready(Ok(()))
    }
}
impl AsyncWrite for Cyclic {
    fn poll_write(self: Pin<&mut Self>, _cx: &mut Context<'_>, buf: &[u8]) -> Poll<io::Result<usize>> { Poll::Ready(Ok(buf.len())) }
    fn poll_flush(self: Pin<&mut Self>, _cx: &mut Context<'_>) -> Poll<io::Result<()>> { Poll::Ready(Ok(())) }
    fn poll_shutdown(self: Pin<&mut Self>, _cx: &mut Context<'_>) -> Poll<io::Result<()>> { Poll::Ready(Ok(())) }
}

fn cycle(compressed: bool) -> Vec<Packet> {
    let cars = if compressed { 36 } else { 8 };
    vec![
        Packet::Mci(Mci { reqi: RequestId(0), info: (0..cars).map(|i| CompCar { node: i, lap: 1, ..Default::default() }).collect() }),
        Packet::Small(Small { reqi: RequestId(2), subt: SmallType::Vta(VtnAction::End) }),
        Packet::Mso(Mso { msg: "hi".into(), ..Default::default() }),
        Packet::Tiny(Tiny { reqi: RequestId(1), subt: TinyType::Ping }),
        Packet::Mci(Mci { reqi: RequestId(0), info: (0..cars).map(|i| CompCar { node: i + 1, lap: 2, ..Default::default() }).collect() }),
        Packet::Mst(Mst { reqi: RequestId(3), msg: "hello world".into() }),
    ]
}

pub struct Case {
    pub tokio: bool,
    pub compressed: bool,
    pub cap: usize,
    pub min_bytes: u64,
}

impl Case {
    pub fn label(&self) -> String {
        format!("{}#{}#{}#{}-bytes", if self.tokio { "tokio" } else { "blocking" }, if self.compressed { "compressed" } else { "uncompressed" },
            if self.cap == 0 { "reads-as-asked".to_string() } else { format!("reads-of-{}", self.cap) }, self.min_bytes)
    }
}

/// Ok(frames received) or Err(what went wrong at which frame).
pub fn run(case: &Case) -> Result<u64, String> {
    let codec = Codec::new(mode_of(case.compressed));
    let frames: Vec<Vec<u8>> = cycle(case.compressed).iter().map(|p| codec.encode(p).map(|b| b.to_vec()).map_err(|e| format!("MACHINERY encode {e:?}"))).collect::<Result<_, _>>()?;
    let pattern: Vec<u8> = frames.concat();
    let plen = pattern.len();
    let cycles = case.min_bytes / plen as u64 + 2;
    let total = cycles * plen as u64;
    let mut pat2 = vec![];
    while pat2.len() < 65536 + plen { pat2.extend_from_slice(&pattern); }
    pat2.extend_from_slice(&pattern);
    let t = Cyclic { pat2, plen, pos: 0, total, cap: case.cap };
    let want = cycles * frames.len() as u64;
    let check = |k: u64, r: Result<Packet, insim::Error>| -> Result<bool, String> {
        if k == want {
            return match r {
                Err(insim::Error::Disconnected) => Ok(true),
                other => Err(format!("after the last frame ({k} frames, {total} bytes) the end of the stream was reported as {}", crate::e2::world::render(&other).chars().take(80).collect::<String>())),
            };
        }
        match r {
            Ok(p) => {
                let again = codec.encode(&p).map_err(|e| format!("result {k} does not encode: {e:?}"))?;
                if again[..] != frames[(k % frames.len() as u64) as usize][..] {
                    return Err(format!("result {k} (about {} bytes into the session) is not frame {k} of the stream", k / frames.len() as u64 * plen as u64));
                }
                Ok(false)
            },
            Err(e) => Err(format!("result {k} (about {} bytes into the session) is {}", k / frames.len() as u64 * plen as u64, crate::e2::world::render(&Err(e)).chars().take(80).collect::<String>())),
        }
    };
    if case.tokio {
        let rt = tokio::runtime::Builder::new_current_thread().enable_time().start_paused(true).build().map_err(|e| format!("MACHINERY {e}"))?;
        let mut framed = insim::net::tokio_impl::Framed::new(Box::new(t), Codec::new(mode_of(case.compressed)));
        rt.block_on(async {
            let mut k = 0u64;
            loop {
                let r = framed.read().await;
                if check(k, r)? { return Ok(k); }
                k += 1;
            }
        })
    } else {
        let mut framed = insim::net::blocking_impl::Framed::new(Box::new(t), Codec::new(mode_of(case.compressed)));
        let mut k = 0u64;
        loop {
            let r = framed.read();
            if check(k, r)? { return Ok(k); }
            k += 1;
        }
    }
}

pub fn cases(thorough: bool) -> Vec<Case> {
    let mut out = vec![];
    let min_bytes = if thorough { (1u64 << 32) + (1 << 20) } else { (1u64 << 24) + (1 << 16) };
    for tokio in [false, true] {
        for compressed in [true, false] {
            out.push(Case { tokio, compressed, cap: 0, min_bytes });
            // 2^16 frames-worth is also passed with small reads: the count of READS grows past 2^16 / 2^24 too
            out.push(Case { tokio, compressed, cap: 7, min_bytes: if thorough { (1 << 28) + 4096 } else { (1 << 22) + 4096 } });
        }
    }
    out
}
