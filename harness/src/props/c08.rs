//! C08 - UDP datagrams are delivered intact for arbitrarily long sessions.
//! Explicit-state search over (receive buffer, spare capacity, adaptor buffer) driven through real
//! loopback sockets in lock-step (one datagram or one burst of 2-3 datagrams in flight, watchdog on every wait).

use std::{
    collections::BTreeMap,
    hash::{Hash, Hasher},
    io::{Read, Write},
    pin::Pin,
    sync::{atomic::{AtomicU64, Ordering}, Arc, Mutex},
    task::{Context, Poll},
    time::Duration,
};

use bytes::BytesMut;
use insim::{net::{blocking_impl, tokio_impl, Codec}, Packet};
use serde_json::json;
use stateright::{Checker, Model, Property};
use tokio::io::{AsyncRead, AsyncWrite, ReadBuf};

use super::c02::mode_of;
use crate::{e2::Impl, gen::baseline, report::{guard, hex, Tier}, spec};

const WATCHDOG_CONFIRM: Duration = Duration::from_secs(2);
const WATCHDOG_SEARCH: Duration = Duration::from_millis(400);
thread_local! { static WATCHDOG_CELL: std::cell::Cell<Duration> = const { std::cell::Cell::new(Duration::from_millis(400)) }; }
fn watchdog() -> Duration { WATCHDOG_CELL.with(|c| c.get()) }

#[derive(Debug)]
struct SpyB {
    inner: blocking_impl::UdpStream,
    cell: Arc<Mutex<Vec<u8>>>,
}
impl Read for SpyB {
    fn read(&mut self, buf: &mut [u8]) -> std::io::Result<usize> {
        let r = self.inner.read(buf);
        *self.cell.lock().unwrap() = self.inner.verif_buffered().to_vec();
        r
    }
}
impl Write for SpyB {
    fn write(&mut self, buf: &[u8]) -> std::io::Result<usize> {
        self.inner.write(buf)
    }
    fn flush(&mut self) -> std::io::Result<()> {
        self.inner.flush()
    }
}

#[derive(Debug)]
struct SpyT {
    inner: tokio_impl::UdpStream,
    cell: Arc<Mutex<Vec<u8>>>,
}
impl AsyncRead for SpyT {
    fn poll_read(mut self: Pin<&mut Self>, cx: &mut Context<'_>, buf: &mut ReadBuf<'_>) -> Poll<std::io::Result<()>> {
        let r = Pin::new(&mut self.inner).poll_read(cx, buf);
        let b = self.inner.verif_buffered().to_vec();
        *self.cell.lock().unwrap() = b;
        r
    }
}
impl AsyncWrite for SpyT {
    fn poll_write(mut self: Pin<&mut Self>, cx: &mut Context<'_>, buf: &[u8]) -> Poll<std::io::Result<usize>> {
        Pin::new(&mut self.inner).poll_write(cx, buf)
    }
    fn poll_flush(mut self: Pin<&mut Self>, cx: &mut Context<'_>) -> Poll<std::io::Result<()>> {
        Pin::new(&mut self.inner).poll_flush(cx)
    }
    fn poll_shutdown(mut self: Pin<&mut Self>, cx: &mut Context<'_>) -> Poll<std::io::Result<()>> {
        Pin::new(&mut self.inner).poll_shutdown(cx)
    }
}

/// A decodable frame of exactly `len` bytes (len multiple of 4).
fn frame(compressed: bool, len: usize, salt: u8) -> Vec<u8> {
    let size = if compressed { (len / 4) as u8 } else { len as u8 };
    match len {
        4 => vec![size, 3, salt.max(1), 3],
        _ => {
            // IS_MAL with (len - 8) / 4 skin ids
            let n = (len - 8) / 4;
            let mut v = vec![size, 65, salt, n as u8, 1, 0, 0, 0];
            for i in 0..n {
                v.extend_from_slice(&(0x0100_0000u32 + (i as u32) * 7 + salt as u32).to_le_bytes());
            }
            v
        },
    }
}

/// one step of a history = one datagram, or a burst of datagrams sent back to back before the
/// connection is read
type Step = Vec<Vec<usize>>;

fn compositions(compressed: bool, tier: Tier) -> Vec<Step> {
    let (singles, bursts) = compositions_raw(compressed, tier);
    let mut out: Vec<Step> = singles.into_iter().map(|d| vec![d]).collect();
    out.extend(bursts);
    // the empty step = a transient socket error (see run_blocking)
    out.push(vec![]);
    // an empty datagram inside a step = the application calls handshake() after the first packet of the step
    out.push(if compressed { vec![vec![4, 8, 4], vec![]] } else { vec![vec![4, 8, 4], vec![]] });
    out.push(if compressed { vec![vec![508, 512], vec![]] } else { vec![vec![100, 152], vec![]] });
    out
}

fn compositions_raw(compressed: bool, tier: Tier) -> (Vec<Vec<usize>>, Vec<Step>) {
    if compressed {
        let mut v = vec![vec![4], vec![12], vec![252], vec![1016], vec![1020], vec![508, 512]];
        if tier == Tier::Thorough {
            v.extend([vec![8], vec![508], vec![4; 255], vec![252; 4], vec![16], vec![64], vec![1000], vec![1012], vec![4, 1016], vec![8, 8, 8]]);
        }
        // bursts: two or three datagrams queued on the socket before the connection reads
        let mut b: Vec<Step> = vec![vec![vec![1016], vec![8]], vec![vec![600], vec![600]]];
        if tier == Tier::Thorough {
            b.extend([vec![vec![4], vec![4], vec![4]], vec![vec![508, 512], vec![1020]], vec![vec![8], vec![1016]]]);
        }
        (v, b)
    } else {
        let mut v = vec![vec![4], vec![12], vec![252], vec![252; 4], vec![100, 152]];
        if tier == Tier::Thorough {
            v.extend([vec![8], vec![4; 250], vec![16], vec![248], vec![252, 252]]);
        }
        let mut b: Vec<Step> = vec![vec![vec![252; 4], vec![12]], vec![vec![252, 252], vec![252, 252, 252]]];
        if tier == Tier::Thorough {
            b.extend([vec![vec![4], vec![4], vec![4]], vec![vec![12], vec![252; 4]]]);
        }
        (v, b)
    }
}

#[derive(Clone, Debug, Default)]
struct Run {
    /// per datagram: rendering of the packets read
    got: Vec<Vec<String>>,
    buffer: Vec<u8>,
    spare: usize,
    adaptor: Vec<u8>,
    problem: Option<(String, String)>,
}

fn expected(compressed: bool, frames: &[Vec<u8>]) -> Vec<String> {
    let codec = Codec::new(mode_of(compressed));
    frames.iter().map(|f| {
        let mut b = BytesMut::from(&f[..]);
        match codec.decode(&mut b) {
            Ok(Some(p)) => format!("Ok({p:?})"),
            other => format!("harness: frame does not decode: {other:?}"),
        }
    }).collect()
}

/// the datagrams of one step and all their frames in order
fn datagram(compressed: bool, comp: &Step, step: usize) -> (Vec<Vec<u8>>, Vec<Vec<u8>>) {
    let mut dgrams = vec![];
    let mut all = vec![];
    for (d, lens) in comp.iter().enumerate() {
        if lens.is_empty() { continue; } // marker: handshake after the first packet of the step has been read
        let frames: Vec<Vec<u8>> = lens.iter().enumerate().map(|(i, l)| frame(compressed, *l, ((step * 31 + d * 13 + i * 7) % 250) as u8 + 1)).collect();
        dgrams.push(frames.concat());
        all.extend(frames);
    }
    (dgrams, all)
}

fn sizes_of(d: &[Vec<u8>]) -> String {
    d.iter().map(|x| x.len().to_string()).collect::<Vec<_>>().join("+")
}

fn run_blocking(compressed: bool, comps: &[Step], hist: &[u8]) -> Run {
    let mut out = Run::default();
    let mut peer = std::net::UdpSocket::bind("127.0.0.1:0").unwrap();
    let sock = std::net::UdpSocket::bind("127.0.0.1:0").unwrap();
    sock.connect(peer.local_addr().unwrap()).unwrap();
    peer.connect(sock.local_addr().unwrap()).unwrap();
    sock.set_read_timeout(Some(watchdog())).unwrap();
    let (peer_addr, sock_addr) = (peer.local_addr().unwrap(), sock.local_addr().unwrap());
    let cell = Arc::new(Mutex::new(vec![]));
    let spy = SpyB { inner: blocking_impl::UdpStream::from(sock), cell: cell.clone() };
    let mut framed = blocking_impl::Framed::new(Box::new(spy), Codec::new(mode_of(compressed)));
    for (step, ci) in hist.iter().enumerate() {
        if comps[*ci as usize].is_empty() {
            // a transient socket error: the peer's port closes, one packet of ours bounces (ICMP port
            // unreachable), the next receive reports it; then the peer is back on the same port
            drop(peer);
            let _ = framed.write(insim::Packet::Tiny(insim::insim::Tiny { reqi: insim::identifiers::RequestId(1), subt: insim::insim::TinyType::Ping }));
            let r = framed.read();
            out.got.push(vec![format!("fault: {}", match &r { Ok(p) => format!("Ok({p:?})"), Err(e) => format!("Err({e})") })]);
            if let Ok(p) = r {
                out.problem = Some(("packet-from-nowhere".into(), format!("step #{step}: nothing was sent, yet read returned {p:?}")));
                return out;
            }
            peer = match std::net::UdpSocket::bind(peer_addr) {
                Ok(p) => p,
                Err(e) => {
                    out.problem = Some(("harness".into(), format!("cannot re-bind the peer port: {e}")));
                    return out;
                },
            };
            peer.connect(sock_addr).unwrap();
            continue;
        }
        let (bytes, frames) = datagram(compressed, &comps[*ci as usize], step);
        let want = expected(compressed, &frames);
        for d in &bytes {
            let _ = peer.send(d).unwrap();
        }
        // (loopback: a datagram is on the receiving socket's queue when send() returns)
        let mut got = vec![];
        let hs = comps[*ci as usize].iter().any(|d| d.is_empty());
        for k in 0..frames.len() {
            if hs && k == 1 {
                // the application (re)sends its ISI in the middle of a datagram's packets
                if let Err(e) = framed.handshake(insim::insim::Isi::default()) {
                    out.problem = Some(("harness".into(), format!("handshake failed: {e}")));
                    return out;
                }
            }
            match framed.read() {
                Ok(p) => got.push(format!("Ok({p:?})")),
                Err(e) => {
                    out.problem = Some(("packet-not-delivered".into(), format!("datagram #{step} ({} bytes, {} packet(s)): read #{k} returned {e} instead of the packet (data of the datagram was lost)", sizes_of(&bytes), frames.len())));
                    out.got.push(got);
                    return out;
                },
            }
        }
        if got != want {
            let i = got.iter().zip(&want).position(|(a, b)| a != b).unwrap_or(0);
            out.problem = Some(("packet-altered".into(), format!("datagram #{step} ({} bytes): packet #{i} differs: got {} expected {}", sizes_of(&bytes), got[i].chars().take(80).collect::<String>(), want[i].chars().take(80).collect::<String>())));
        }
        out.got.push(got);
        if out.problem.is_some() { return out; }
    }
    let (b, s) = framed.verif_buffer();
    out.buffer = b.to_vec();
    out.spare = s;
    out.adaptor = cell.lock().unwrap().clone();
    if !out.buffer.is_empty() || !out.adaptor.is_empty() {
        out.problem = Some(("bytes-left-behind".into(), format!("after all packets were read {} byte(s) remain in the connection buffer and {} in the adaptor", out.buffer.len(), out.adaptor.len())));
    }
    out
}

fn run_tokio(compressed: bool, comps: &[Step], hist: &[u8]) -> Run {
    let rt = tokio::runtime::Builder::new_current_thread().enable_io().enable_time().build().unwrap();
    rt.block_on(async {
        let mut out = Run::default();
        let mut peer = tokio::net::UdpSocket::bind("127.0.0.1:0").await.unwrap();
        let sock = tokio::net::UdpSocket::bind("127.0.0.1:0").await.unwrap();
        sock.connect(peer.local_addr().unwrap()).await.unwrap();
        peer.connect(sock.local_addr().unwrap()).await.unwrap();
        let (peer_addr, sock_addr) = (peer.local_addr().unwrap(), sock.local_addr().unwrap());
        let cell = Arc::new(Mutex::new(vec![]));
        let spy = SpyT { inner: tokio_impl::UdpStream::from(sock), cell: cell.clone() };
        let mut framed = tokio_impl::Framed::new(Box::new(spy), Codec::new(mode_of(compressed)));
        for (step, ci) in hist.iter().enumerate() {
            if comps[*ci as usize].is_empty() {
                drop(peer);
                let _ = tokio::time::timeout(watchdog(), framed.write(insim::Packet::Tiny(insim::insim::Tiny { reqi: insim::identifiers::RequestId(1), subt: insim::insim::TinyType::Ping }))).await;
                let r = tokio::time::timeout(watchdog(), framed.read()).await;
                out.got.push(vec![format!("fault: {}", match &r { Ok(Ok(p)) => format!("Ok({p:?})"), Ok(Err(e)) => format!("Err({e})"), Err(_) => "no error reported".into() })]);
                if let Ok(Ok(p)) = r {
                    out.problem = Some(("packet-from-nowhere".into(), format!("step #{step}: nothing was sent, yet read returned {p:?}")));
                    return out;
                }
                peer = match tokio::net::UdpSocket::bind(peer_addr).await {
                    Ok(p) => p,
                    Err(e) => {
                        out.problem = Some(("harness".into(), format!("cannot re-bind the peer port: {e}")));
                        return out;
                    },
                };
                peer.connect(sock_addr).await.unwrap();
                continue;
            }
            let (bytes, frames) = datagram(compressed, &comps[*ci as usize], step);
            let want = expected(compressed, &frames);
            for d in &bytes {
                let _ = peer.send(d).await.unwrap();
            }
            let mut got = vec![];
            let hs = comps[*ci as usize].iter().any(|d| d.is_empty());
            for k in 0..frames.len() {
                if hs && k == 1 {
                    if !matches!(tokio::time::timeout(WATCHDOG_CONFIRM, framed.handshake(insim::insim::Isi::default(), Duration::from_secs(2))).await, Ok(Ok(()))) {
                        out.problem = Some(("harness".into(), "handshake failed".into()));
                        return out;
                    }
                }
                match tokio::time::timeout(watchdog(), framed.read()).await {
                    Ok(Ok(p)) => got.push(format!("Ok({p:?})")),
                    Ok(Err(e)) => {
                        out.problem = Some(("packet-not-delivered".into(), format!("datagram #{step} ({} bytes, {} packet(s)): read #{k} returned {e}", sizes_of(&bytes), frames.len())));
                        out.got.push(got);
                        return out;
                    },
                    Err(_) => {
                        out.problem = Some(("packet-not-delivered".into(), format!("datagram #{step} ({} bytes, {} packet(s)) arrived with {} byte(s) of spare capacity: read #{k} never returned (data of the datagram was lost)", sizes_of(&bytes), frames.len(), framed.verif_buffer().1)));
                        out.got.push(got);
                        return out;
                    },
                }
            }
            if got != want {
                let i = got.iter().zip(&want).position(|(a, b)| a != b).unwrap_or(0);
                out.problem = Some(("packet-altered".into(), format!("datagram #{step} ({} bytes): packet #{i} differs: got {} expected {}", sizes_of(&bytes), got[i].chars().take(80).collect::<String>(), want[i].chars().take(80).collect::<String>())));
            }
            out.got.push(got);
            if out.problem.is_some() { return out; }
        }
        let (b, s) = framed.verif_buffer();
        out.buffer = b.to_vec();
        out.spare = s;
        out.adaptor = cell.lock().unwrap().clone();
        if !out.buffer.is_empty() || !out.adaptor.is_empty() {
            out.problem = Some(("bytes-left-behind".into(), format!("after all packets were read {} byte(s) remain in the connection buffer and {} in the adaptor", out.buffer.len(), out.adaptor.len())));
        }
        out
    })
}

fn run_once(imp: Impl, compressed: bool, comps: &[Step], hist: &[u8]) -> Run {
    match guard(|| match imp {
        Impl::Blocking => run_blocking(compressed, comps, hist),
        Impl::Tokio => run_tokio(compressed, comps, hist),
    }) {
        Ok(r) => r,
        Err(p) => Run { problem: Some(("panic".into(), p)), ..Default::default() },
    }
}

fn run(imp: Impl, compressed: bool, comps: &[Step], hist: &[u8]) -> Run {
    let r = run_once(imp, compressed, comps, hist);
    if r.problem.is_some() && watchdog() < WATCHDOG_CONFIRM {
        // never trust a short timer under load: re-execute the history with the long watchdog
        WATCHDOG_CELL.with(|c| c.set(WATCHDOG_CONFIRM));
        let again = run_once(imp, compressed, comps, hist);
        WATCHDOG_CELL.with(|c| c.set(WATCHDOG_SEARCH));
        return again;
    }
    r
}

#[derive(Clone, Debug)]
struct St {
    inst: u8,
    hist: Vec<u8>,
    canon: (usize, u64, u64),
    terminal: bool,
}
impl Hash for St {
    fn hash<H: Hasher>(&self, h: &mut H) { self.inst.hash(h); self.canon.hash(h); }
}
impl PartialEq for St {
    fn eq(&self, o: &Self) -> bool { self.inst == o.inst && self.canon == o.canon }
}

static VIOLATING: AtomicU64 = AtomicU64::new(0);

struct Inst { imp: Impl, compressed: bool, comps: Vec<Step>, label: String }

struct M {
    insts: Arc<Vec<Inst>>,
    found: Arc<Mutex<BTreeMap<String, (String, u8, Vec<u8>)>>>,
    transitions: Arc<AtomicU64>,
    classes: Arc<Mutex<BTreeMap<String, u64>>>,
    max_hist: usize,
}

impl M {
    fn make(&self, inst: u8, hist: Vec<u8>) -> St {
        let i = &self.insts[inst as usize];
        // every violating transition costs two watchdog periods; once a dozen have been confirmed the
        // search is cut short (breadth-first order: the shortest witnesses are already recorded)
        if VIOLATING.load(Ordering::Relaxed) >= 12 {
            return St { inst, canon: (usize::MAX, 0, 0), hist, terminal: true };
        }
        let r = run(i.imp, i.compressed, &i.comps, &hist);
        if r.problem.is_some() {
            let _ = VIOLATING.fetch_add(1, Ordering::Relaxed);
        }
        let _ = self.transitions.fetch_add(1, Ordering::Relaxed);
        let terminal = r.problem.is_some() || hist.len() >= self.max_hist;
        if let Some((cat, detail)) = &r.problem {
            let sig = format!("C08|{:?}|{}", i.imp, cat);
            let mut f = self.found.lock().unwrap();
            let better = f.get(&sig).map(|o| o.2.len() > hist.len()).unwrap_or(true);
            if better {
                let sizes: Vec<String> = hist.iter().map(|c| i.comps[*c as usize].iter().map(|d| d.iter().sum::<usize>().to_string()).collect::<Vec<_>>().join("+")).collect();
                let _ = f.insert(sig, (format!("{} after datagrams of {:?} bytes: {detail}", i.label, sizes), inst, hist.clone()));
            }
        }
        {
            let mut c = self.classes.lock().unwrap();
            *c.entry(if r.problem.is_some() { "violates".into() } else { format!("spare-capacity-{}xx", r.spare / 1000) }).or_insert(0) += 1;
        }
        // (the adaptor's own spare capacity is not part of the key: the current adaptors copy through
        // extend_from_slice and never depend on it; a product with the connection's spare capacity would be ~1500^2 states)
        St { inst, canon: (r.spare, crate::report::h64(&r.buffer), crate::report::h64(&r.adaptor)), hist, terminal }
    }
}

impl Model for M {
    type State = St;
    type Action = u8;
    fn init_states(&self) -> Vec<St> { (0..self.insts.len() as u8).map(|i| self.make(i, vec![])).collect() }
    fn actions(&self, s: &St, out: &mut Vec<u8>) {
        if !s.terminal { out.extend(0..self.insts[s.inst as usize].comps.len() as u8); }
    }
    fn next_state(&self, s: &St, a: u8) -> Option<St> {
        let mut h = s.hist.clone();
        h.push(a);
        Some(self.make(s.inst, h))
    }
    fn properties(&self) -> Vec<Property<Self>> { vec![Property::<Self>::always("side table", |_, _| true)] }
}

fn instances(tier: Tier) -> Vec<Inst> {
    let mut v = vec![];
    for imp in [Impl::Blocking, Impl::Tokio] {
        for c in [true, false] {
            v.push(Inst { imp, compressed: c, comps: compositions(c, tier), label: format!("udp#{}#{:?}", if c { "compressed" } else { "uncompressed" }, imp) });
        }
    }
    v
}

/// The adaptors as byte streams for a consumer other than Framed: whatever the sizes of the reads
/// (plain reads of k bytes, read_exact across datagram boundaries - which hands the adaptor a partly
/// filled buffer), the bytes read are the datagram payloads in order.
fn adaptor_stream_checks(acc: &mut crate::report::Acc) {
    let dgram_sets: Vec<Vec<usize>> = vec![vec![800, 800, 800, 800], vec![1020, 4, 1020, 4], vec![4; 12], vec![252, 1016, 8, 600], vec![1020, 1020, 1020]];
    let read_sets: Vec<Vec<usize>> = vec![vec![2000, 1200], vec![1, 3, 1019, 5], vec![1020, 1020], vec![7; 9], vec![3000], vec![1021, 1021]];
    // the tokio adaptor also implements std::io::Read (try_recv): plain reads of k bytes at a time
    for ds in &dgram_sets {
        for rs in &read_sets {
            let payloads: Vec<Vec<u8>> = ds.iter().enumerate().map(|(k, l)| (0..*l).map(|x| ((x * 7 + k * 31) % 251) as u8).collect()).collect();
            let want: Vec<u8> = payloads.concat();
            acc.eval();
            let desc = format!("tokio adaptor through std::io::Read: datagrams {ds:?} consumed by reads of at most {rs:?} bytes");
            let replay = json!({"site": "adaptor-stream", "case": desc});
            match guard(|| tokio_sync_read_case(&payloads, rs)) {
                Err(p) => acc.violate(0, "C08|Tokio|adaptor-stream|panic".into(), format!("{desc}: {p}"), replay),
                Ok(Err(e)) => acc.violate(0, "C08|Tokio|adaptor-stream|bytes-lost".into(), format!("{desc}: {e}"), replay),
                Ok(Ok(got)) if got == want => { acc.class("adaptor-stream-intact"); acc.nontrivial(); },
                Ok(Ok(got)) => {
                    let at = got.iter().zip(&want).position(|(a, b)| a != b).unwrap_or(got.len().min(want.len()));
                    acc.violate(0, "C08|Tokio|adaptor-stream|bytes-altered".into(), format!("{desc}: first difference at byte {at} ({} of {} bytes read)", got.len(), want.len()), replay)
                },
            }
        }
    }
    for imp in [Impl::Blocking, Impl::Tokio] {
        for ds in &dgram_sets {
            for rs in &read_sets {
                let total: usize = ds.iter().sum();
                let mut plan: Vec<usize> = vec![];
                let mut left = total;
                let mut j = 0;
                while left > 0 {
                    let n = rs[j % rs.len()].min(left);
                    plan.push(n);
                    left -= n;
                    j += 1;
                }
                let payloads: Vec<Vec<u8>> = ds.iter().enumerate().map(|(k, l)| (0..*l).map(|x| ((x * 7 + k * 31) % 251) as u8).collect()).collect();
                let want: Vec<u8> = payloads.concat();
                acc.eval();
                let desc = format!("{imp:?} datagrams {ds:?} consumed by read_exact of {plan:?}");
                let replay = json!({"site": "adaptor-stream", "case": desc});
                let r = guard(|| adaptor_stream_case(imp, &payloads, &plan));
                match r {
                    Err(p) => acc.violate(0, format!("C08|{imp:?}|adaptor-stream|panic"), format!("{desc}: {p}"), replay),
                    Ok(Err(e)) => acc.violate(0, format!("C08|{imp:?}|adaptor-stream|bytes-lost"), format!("{desc}: {e}"), replay),
                    Ok(Ok(got)) if got == want => { acc.class("adaptor-stream-intact"); acc.nontrivial(); },
                    Ok(Ok(got)) => {
                        let at = got.iter().zip(&want).position(|(a, b)| a != b).unwrap_or(got.len().min(want.len()));
                        acc.violate(0, format!("C08|{imp:?}|adaptor-stream|bytes-altered"), format!("{desc}: first difference at byte {at} ({} of {} bytes read)", got.len(), want.len()), replay)
                    },
                }
            }
        }
    }
}

fn tokio_sync_read_case(payloads: &[Vec<u8>], sizes: &[usize]) -> Result<Vec<u8>, String> {
    let rt = tokio::runtime::Builder::new_current_thread().enable_io().enable_time().build().unwrap();
    rt.block_on(async {
        let peer = tokio::net::UdpSocket::bind("127.0.0.1:0").await.map_err(|e| e.to_string())?;
        let sock = tokio::net::UdpSocket::bind("127.0.0.1:0").await.map_err(|e| e.to_string())?;
        sock.connect(peer.local_addr().unwrap()).await.map_err(|e| e.to_string())?;
        peer.connect(sock.local_addr().unwrap()).await.map_err(|e| e.to_string())?;
        let mut s = tokio_impl::UdpStream::from(sock);
        for p in payloads {
            let _ = peer.send(p).await.map_err(|e| e.to_string())?;
        }
        let total: usize = payloads.iter().map(|p| p.len()).sum();
        let mut got = vec![];
        let mut j = 0usize;
        let deadline = std::time::Instant::now() + WATCHDOG_CONFIRM;
        while got.len() < total {
            let k = sizes[j % sizes.len()].min(2048);
            let mut b = vec![0u8; k];
            match std::io::Read::read(&mut s, &mut b) {
                Ok(0) => return Err(format!("read returned 0 after {} of {total} byte(s)", got.len())),
                Ok(n) => { got.extend_from_slice(&b[..n]); j += 1; },
                Err(e) if e.kind() == std::io::ErrorKind::WouldBlock => {
                    if std::time::Instant::now() > deadline {
                        return Err(format!("no more data after {} of {total} byte(s) (bytes of a datagram were lost)", got.len()));
                    }
                    tokio::time::sleep(Duration::from_millis(1)).await;
                },
                Err(e) => return Err(format!("read failed after {} byte(s): {e}", got.len())),
            }
            if got.len() > total { break; }
        }
        Ok(got)
    })
}

fn adaptor_stream_case(imp: Impl, payloads: &[Vec<u8>], plan: &[usize]) -> Result<Vec<u8>, String> {
    match imp {
        Impl::Blocking => {
            let peer = std::net::UdpSocket::bind("127.0.0.1:0").map_err(|e| e.to_string())?;
            let sock = std::net::UdpSocket::bind("127.0.0.1:0").map_err(|e| e.to_string())?;
            sock.connect(peer.local_addr().unwrap()).map_err(|e| e.to_string())?;
            peer.connect(sock.local_addr().unwrap()).map_err(|e| e.to_string())?;
            sock.set_read_timeout(Some(WATCHDOG_CONFIRM)).unwrap();
            let mut s = blocking_impl::UdpStream::from(sock);
            for p in payloads {
                let _ = peer.send(p).map_err(|e| e.to_string())?;
            }
            let mut got = vec![];
            for n in plan {
                let mut b = vec![0u8; *n];
                s.read_exact(&mut b).map_err(|e| format!("read_exact({n}) after {} byte(s): {e}", got.len()))?;
                got.extend_from_slice(&b);
            }
            Ok(got)
        },
        Impl::Tokio => {
            use tokio::io::AsyncReadExt;
            let rt = tokio::runtime::Builder::new_current_thread().enable_io().enable_time().build().unwrap();
            rt.block_on(async {
                let peer = tokio::net::UdpSocket::bind("127.0.0.1:0").await.map_err(|e| e.to_string())?;
                let sock = tokio::net::UdpSocket::bind("127.0.0.1:0").await.map_err(|e| e.to_string())?;
                sock.connect(peer.local_addr().unwrap()).await.map_err(|e| e.to_string())?;
                peer.connect(sock.local_addr().unwrap()).await.map_err(|e| e.to_string())?;
                let mut s = tokio_impl::UdpStream::from(sock);
                for p in payloads {
                    let _ = peer.send(p).await.map_err(|e| e.to_string())?;
                }
                let mut got = vec![];
                for n in plan {
                    let mut b = vec![0u8; *n];
                    match tokio::time::timeout(WATCHDOG_CONFIRM, AsyncReadExt::read_exact(&mut s, &mut b)).await {
                        Err(_) => return Err(format!("read_exact({n}) after {} byte(s) never returned (bytes of a datagram were lost)", got.len())),
                        Ok(Err(e)) => return Err(format!("read_exact({n}) after {} byte(s): {e}", got.len())),
                        Ok(Ok(_)) => got.extend_from_slice(&b),
                    }
                }
                Ok(got)
            })
        },
    }
}

/// every kind's B1 packet leaves as exactly one datagram holding exactly its frame
/// The same datagram compositions through a connection made the way applications make it - the public
/// Builder (`insim::udp(..).compressed()/uncompressed().connect_blocking()/connect_async()`), with and
/// without a local address - instead of a hand-assembled adaptor + Framed.  One fresh connection per
/// composition; the peer learns the connection's address from the ISI it receives.
fn builder_connection_checks(acc: &mut crate::report::Acc, tier: Tier) {
    for imp in [Impl::Blocking, Impl::Tokio] {
        for compressed in [true, false] {
            let (singles, bursts) = compositions_raw(compressed, Tier::Thorough);
            let mut comps: Vec<Step> = singles.into_iter().map(|d| vec![d]).collect();
            comps.extend(bursts);
            // the largest datagram the protocol knows, full of packets, in either mode
            comps.push(vec![if compressed { vec![1020] } else { vec![252, 252, 252, 252, 12] }]);
            comps.push(vec![vec![4; 255]]);
            for (ci, comp) in comps.iter().enumerate() {
                for with_local in [false, true] {
                    if tier == Tier::Quick && with_local && ci % 3 != 0 { continue; }
                    acc.eval();
                    let (bytes, frames) = datagram(compressed, comp, ci);
                    let want = expected(compressed, &frames);
                    let label = format!("{} {} udp {} local address, datagram(s) of {} bytes holding {} packet(s)", if imp == Impl::Blocking { "connect_blocking" } else { "connect_async" }, if compressed { "compressed" } else { "uncompressed" }, if with_local { "with" } else { "without" }, sizes_of(&bytes), frames.len());
                    let replay = json!({"site": "builder-connection", "case": label});
                    let sig = |what: &str| format!("C08|{}|builder-connection|{what}", if imp == Impl::Blocking { "Blocking" } else { "Tokio" });
                    let n = frames.len();
                    let (tx, rx) = std::sync::mpsc::channel();
                    let bytes2 = bytes.clone();
                    // (a blocking connection made by the builder waits 90 s for a datagram that never comes:
                    // the case runs on its own thread and is given up on after 5 s)
                    let _ = std::thread::spawn(move || { let _ = tx.send(guard(|| builder_connection_case(imp, compressed, with_local, &bytes2, n))); });
                    match rx.recv_timeout(Duration::from_secs(5)) {
                        Err(_) => acc.violate(ci as u64, sig("packet-not-delivered"), format!("{label}: the packets were not all delivered within 5 s"), replay),
                        Ok(Err(p)) => acc.violate(ci as u64, sig("panic"), format!("{label}: {p}"), replay),
                        Ok(Ok(Err(e))) if e.starts_with("harness") => { eprintln!("MACHINERY: {label}: {e}"); std::process::exit(4); },
                        Ok(Ok(Err(e))) => acc.violate(ci as u64, sig("packet-not-delivered"), format!("{label}: {e}"), replay),
                        Ok(Ok(Ok(got))) if got == want => { acc.class("builder-connection-delivers-every-packet"); acc.nontrivial(); },
                        Ok(Ok(Ok(got))) => {
                            let i = got.iter().zip(&want).position(|(a, b)| a != b).unwrap_or(got.len().min(want.len()));
                            acc.violate(ci as u64, sig("packet-altered"), format!("{label}: packet #{i} differs: got {} expected {}", got.get(i).map(|x| x.chars().take(80).collect::<String>()).unwrap_or_default(), want.get(i).map(|x| x.chars().take(80).collect::<String>()).unwrap_or_default()), replay)
                        },
                    }
                }
            }
        }
    }
}

fn builder_connection_case(imp: Impl, compressed: bool, with_local: bool, dgrams: &[Vec<u8>], n: usize) -> Result<Vec<String>, String> {
    let peer = std::net::UdpSocket::bind("127.0.0.1:0").map_err(|e| format!("harness: {e}"))?;
    peer.set_read_timeout(Some(Duration::from_secs(2))).unwrap();
    let local = if with_local { let s = std::net::UdpSocket::bind("127.0.0.1:0").map_err(|e| format!("harness: {e}"))?; Some(s.local_addr().unwrap()) } else { None };
    let mut b = insim::udp(peer.local_addr().unwrap(), local).connect_timeout(Duration::from_secs(2)).verify_version(false);
    b = if compressed { b.compressed() } else { b.uncompressed() };
    let feed = |from: std::net::SocketAddr| -> Result<(), String> {
        for d in dgrams { let _ = peer.send_to(d, from).map_err(|e| format!("harness: send: {e}"))?; }
        Ok(())
    };
    let mut isi = [0u8; 2048];
    match imp {
        Impl::Blocking => {
            let mut conn = b.connect_blocking().map_err(|e| format!("harness: connect: {e}"))?;
            let (_, from) = peer.recv_from(&mut isi).map_err(|e| format!("harness: no ISI arrived: {e}"))?;
            feed(from)?;
            let mut got = vec![];
            for k in 0..n {
                match conn.read() {
                    Ok(p) => got.push(format!("Ok({p:?})")),
                    Err(e) => return Err(format!("read #{k} returned {e} instead of the packet")),
                }
            }
            Ok(got)
        },
        Impl::Tokio => {
            let rt = tokio::runtime::Builder::new_current_thread().enable_io().enable_time().build().map_err(|e| format!("harness: {e}"))?;
            rt.block_on(async {
                let mut conn = tokio::time::timeout(Duration::from_secs(2), b.connect_async()).await.map_err(|_| "harness: connect timed out".to_string())?.map_err(|e| format!("harness: connect: {e}"))?;
                let (_, from) = peer.recv_from(&mut isi).map_err(|e| format!("harness: no ISI arrived: {e}"))?;
                feed(from)?;
                let mut got = vec![];
                for k in 0..n {
                    match tokio::time::timeout(Duration::from_secs(3), conn.read()).await {
                        Ok(Ok(p)) => got.push(format!("Ok({p:?})")),
                        Ok(Err(e)) => return Err(format!("read #{k} returned {e} instead of the packet")),
                        Err(_) => return Err(format!("read #{k} did not return within 3 s: data of the datagram was lost")),
                    }
                }
                Ok(got)
            })
        },
    }
}

/// "Any number" of datagrams on one connection: 70 000 (a count kept in 16 bits wraps in there), in batches of 16 queued
/// on the socket before the connection reads them, cycling through single-packet, multi-packet and maximum-size datagrams.
fn many_datagrams_checks(acc: &mut crate::report::Acc) {
    for imp in [Impl::Blocking, Impl::Tokio] {
        for compressed in [true, false] {
            acc.eval();
            let label = format!("{} {} 70 000 datagrams on one connection", if imp == Impl::Blocking { "blocking" } else { "tokio" }, if compressed { "compressed" } else { "uncompressed" });
            let replay = json!({"site": "many-datagrams", "case": label});
            let sig = |what: &str| format!("C08|{}|many-datagrams|{what}", if imp == Impl::Blocking { "Blocking" } else { "Tokio" });
            let (tx, rx) = std::sync::mpsc::channel();
            let _ = std::thread::spawn(move || { let _ = tx.send(guard(|| many_datagrams_case(imp, compressed))); });
            match rx.recv_timeout(Duration::from_secs(60)) {
                Err(_) => acc.violate(0, sig("packet-not-delivered"), format!("{label}: the session did not finish within 60 s"), replay),
                Ok(Err(p)) => acc.violate(0, sig("panic"), format!("{label}: {p}"), replay),
                Ok(Ok(Err(e))) if e.starts_with("harness") => { eprintln!("MACHINERY: {label}: {e}"); std::process::exit(4); },
                Ok(Ok(Err(e))) => acc.violate(0, sig("packet-not-delivered-or-altered"), format!("{label}: {e}"), replay),
                Ok(Ok(Ok(n))) => { let _ = n; acc.class("many-datagrams-delivered"); acc.nontrivial(); },
            }
        }
    }
}

fn many_datagrams_case(imp: Impl, compressed: bool) -> Result<u64, String> {
    let comps: Vec<Vec<usize>> = if compressed { vec![vec![4], vec![8, 4], vec![252], vec![4, 4, 4, 4], vec![1016], vec![12, 508]] } else { vec![vec![4], vec![8, 4], vec![252], vec![4, 4, 4, 4], vec![100, 152], vec![12, 240]] };
    let total = 70_000usize;
    let batch = 16usize;
    let codec = Codec::new(mode_of(compressed));
    // expected renderings per composition (salt fixed per composition: the check is on count and order)
    let _ = &codec;
    let prepared: Vec<(Vec<u8>, Vec<String>)> = comps.iter().enumerate().map(|(ci, c)| { let (d, f) = datagram(compressed, &vec![c.clone()], ci); (d[0].clone(), expected(compressed, &f)) }).collect();
    let check = |k: usize, j: usize, got: &insim::Packet| -> Result<(), String> {
        if format!("Ok({got:?})") != prepared[k % comps.len()].1[j] { return Err(format!("packet {j} of datagram #{k} is not the packet sent")); }
        Ok(())
    };
    match imp {
        Impl::Blocking => {
            let peer = std::net::UdpSocket::bind("127.0.0.1:0").map_err(|e| format!("harness: {e}"))?;
            let sock = std::net::UdpSocket::bind("127.0.0.1:0").map_err(|e| format!("harness: {e}"))?;
            sock.connect(peer.local_addr().unwrap()).unwrap();
            peer.connect(sock.local_addr().unwrap()).unwrap();
            sock.set_read_timeout(Some(Duration::from_secs(2))).unwrap();
            let mut framed = blocking_impl::Framed::new(Box::new(blocking_impl::UdpStream::from(sock)), Codec::new(mode_of(compressed)));
            let mut k = 0usize;
            while k < total {
                let hi = (k + batch).min(total);
                for d in k..hi { let _ = peer.send(&prepared[d % comps.len()].0).map_err(|e| format!("harness: send {e}"))?; }
                for d in k..hi {
                    for j in 0..prepared[d % comps.len()].1.len() {
                        match framed.read() { Ok(p) => check(d, j, &p)?, Err(e) => return Err(format!("datagram #{d}: read of packet {j} returned {e}")) }
                    }
                }
                k = hi;
            }
            Ok(total as u64)
        },
        Impl::Tokio => {
            let rt = tokio::runtime::Builder::new_current_thread().enable_io().enable_time().build().map_err(|e| format!("harness: {e}"))?;
            rt.block_on(async {
                let peer = tokio::net::UdpSocket::bind("127.0.0.1:0").await.map_err(|e| format!("harness: {e}"))?;
                let sock = tokio::net::UdpSocket::bind("127.0.0.1:0").await.map_err(|e| format!("harness: {e}"))?;
                sock.connect(peer.local_addr().unwrap()).await.unwrap();
                peer.connect(sock.local_addr().unwrap()).await.unwrap();
                let mut framed = tokio_impl::Framed::new(Box::new(tokio_impl::UdpStream::from(sock)), Codec::new(mode_of(compressed)));
                let mut k = 0usize;
                while k < total {
                    let hi = (k + batch).min(total);
                    for d in k..hi { let _ = peer.send(&prepared[d % comps.len()].0).await.map_err(|e| format!("harness: send {e}"))?; }
                    for d in k..hi {
                        for j in 0..prepared[d % comps.len()].1.len() {
                            match tokio::time::timeout(Duration::from_secs(2), framed.read()).await {
                                Ok(Ok(p)) => check(d, j, &p)?,
                                Ok(Err(e)) => return Err(format!("datagram #{d}: read of packet {j} returned {e}")),
                                Err(_) => return Err(format!("datagram #{d}: read of packet {j} did not return within 2 s")),
                            }
                        }
                    }
                    k = hi;
                }
                Ok(total as u64)
            })
        },
    }
}

fn write_checks(acc: &mut crate::report::Acc) {
    let kinds = spec::load();
    for imp in [Impl::Blocking, Impl::Tokio] {
        for compressed in [true, false] {
            for k in &kinds {
                let vals = baseline(k, 1);
                let Some(f) = spec::ref_encode(k, &vals, compressed) else { continue };
                let codec = Codec::new(mode_of(compressed));
                let mut b = BytesMut::from(&f[..]);
                let Ok(Some(p)) = codec.decode(&mut b) else { continue };
                let Ok(want) = codec.encode(&p) else { continue };
                one_write(acc, imp, compressed, &k.name, p, want.to_vec());
            }
            // the largest frames of every counted kind (up to 1016 bytes in compressed mode)
            let codec = Codec::new(mode_of(compressed));
            for c in crate::typed::counted() {
                for n in [c.max, (1016 - c.header) / c.elem, (252 - c.header) / c.elem] {
                    let Some(p) = (c.make)(n) else { continue };
                    let Ok(Ok(want)) = guard(|| codec.encode(&p)) else { continue };
                    one_write(acc, imp, compressed, &format!("{} x{n}", c.kind), p, want.to_vec());
                }
            }
        }
    }
}

fn one_write(acc: &mut crate::report::Acc, imp: Impl, compressed: bool, name: &str, p: Packet, want: Vec<u8>) {
    {
        {
            {
                let k = NameOnly { name: name.to_string() };
                acc.eval();
                let r = guard(|| write_one(imp, compressed, p.clone()));
                let replay = json!({"site": "writes", "kind": k.name, "implementation": format!("{imp:?}"), "compressed": compressed});
                match r {
                    Ok(Ok(dgrams)) if dgrams.len() == 1 && dgrams[0][..] == want[..] => { acc.class("one-datagram-one-frame"); acc.nontrivial(); },
                    Ok(Ok(dgrams)) => acc.violate(0, format!("C08|{imp:?}|write-not-one-datagram"), format!("{} [{}]: peer received {} datagram(s) {:?} for the frame {}", k.name, if compressed { "compressed" } else { "uncompressed" }, dgrams.len(), dgrams.iter().map(|d| d.len()).collect::<Vec<_>>(), hex(&want[..want.len().min(24)])), replay),
                    Ok(Err(e)) => acc.violate(0, format!("C08|{imp:?}|write-failed"), format!("{}: {e}", k.name), replay),
                    Err(p) => acc.violate(0, format!("C08|{imp:?}|panic"), p, replay),
                }
            }
        }
    }
}

struct NameOnly { name: String }

fn write_one(imp: Impl, compressed: bool, p: Packet) -> Result<Vec<Vec<u8>>, String> {
    let peer = std::net::UdpSocket::bind("127.0.0.1:0").map_err(|e| e.to_string())?;
    peer.set_read_timeout(Some(WATCHDOG_CONFIRM)).unwrap();
    match imp {
        Impl::Blocking => {
            let sock = std::net::UdpSocket::bind("127.0.0.1:0").unwrap();
            sock.connect(peer.local_addr().unwrap()).unwrap();
            let mut framed = blocking_impl::Framed::new(Box::new(blocking_impl::UdpStream::from(sock)), Codec::new(mode_of(compressed)));
            framed.write(p).map_err(|e| e.to_string())?;
        },
        Impl::Tokio => {
            let rt = tokio::runtime::Builder::new_current_thread().enable_io().enable_time().build().unwrap();
            let addr = peer.local_addr().unwrap();
            rt.block_on(async {
                let sock = tokio::net::UdpSocket::bind("127.0.0.1:0").await.unwrap();
                sock.connect(addr).await.unwrap();
                let mut framed = tokio_impl::Framed::new(Box::new(tokio_impl::UdpStream::from(sock)), Codec::new(mode_of(compressed)));
                tokio::time::timeout(WATCHDOG_CONFIRM, framed.write(p)).await.map_err(|_| "write timed out".to_string())?.map_err(|e| e.to_string())
            })?;
        },
    }
    let mut out = vec![];
    let mut buf = [0u8; 2048];
    let n = peer.recv(&mut buf).map_err(|e| format!("no datagram arrived: {e}"))?;
    out.push(buf[..n].to_vec());
    peer.set_read_timeout(Some(Duration::from_millis(20))).unwrap();
    while let Ok(n) = peer.recv(&mut buf) {
        out.push(buf[..n].to_vec());
        if out.len() > 4 { break; }
    }
    Ok(out)
}

/// The peer's port is closed when the first packet is written (the kernel keeps the ICMP error for the socket), then the
/// peer comes up on that port and four more packets are written: every write that RETURNS Ok has left as exactly one
/// datagram holding its frame (a write that reports the error instead has told the caller).
fn writes_after_a_refused_one(imp: Impl, compressed: bool) -> Result<(Vec<bool>, Vec<Vec<u8>>, Vec<Vec<u8>>), String> {
    let codec = Codec::new(mode_of(compressed));
    let packets: Vec<Packet> = (1..=5u8).map(|k| Packet::Tiny(insim::insim::Tiny { reqi: insim::identifiers::RequestId(k), subt: insim::insim::TinyType::Ping })).collect();
    let frames: Vec<Vec<u8>> = packets.iter().map(|p| codec.encode(p).map(|b| b.to_vec()).map_err(|e| format!("harness: {e}"))).collect::<Result<_, _>>()?;
    let addr = { let s = std::net::UdpSocket::bind("127.0.0.1:0").map_err(|e| format!("harness: {e}"))?; s.local_addr().unwrap() };
    let mut oks = vec![];
    let peer;
    match imp {
        Impl::Blocking => {
            let sock = std::net::UdpSocket::bind("127.0.0.1:0").unwrap();
            sock.connect(addr).unwrap();
            let mut framed = blocking_impl::Framed::new(Box::new(blocking_impl::UdpStream::from(sock)), Codec::new(mode_of(compressed)));
            oks.push(framed.write(packets[0].clone()).is_ok());
            std::thread::sleep(Duration::from_millis(30));
            peer = std::net::UdpSocket::bind(addr).map_err(|e| format!("harness: cannot bind the peer port: {e}"))?;
            for p in &packets[1..] { oks.push(framed.write(p.clone()).is_ok()); }
        },
        Impl::Tokio => {
            let rt = tokio::runtime::Builder::new_current_thread().enable_io().enable_time().build().unwrap();
            let (o, p2) = rt.block_on(async {
                let sock = tokio::net::UdpSocket::bind("127.0.0.1:0").await.unwrap();
                sock.connect(addr).await.unwrap();
                let mut framed = tokio_impl::Framed::new(Box::new(tokio_impl::UdpStream::from(sock)), Codec::new(mode_of(compressed)));
                let mut o = vec![];
                o.push(matches!(tokio::time::timeout(WATCHDOG_CONFIRM, framed.write(packets[0].clone())).await, Ok(Ok(()))));
                tokio::time::sleep(Duration::from_millis(30)).await;
                let p2 = std::net::UdpSocket::bind(addr).map_err(|e| format!("harness: cannot bind the peer port: {e}"))?;
                for p in &packets[1..] { o.push(matches!(tokio::time::timeout(WATCHDOG_CONFIRM, framed.write(p.clone())).await, Ok(Ok(())))); }
                Ok::<_, String>((o, p2))
            })?;
            oks = o;
            peer = p2;
        },
    }
    peer.set_read_timeout(Some(Duration::from_millis(300))).unwrap();
    let mut got = vec![];
    let mut buf = [0u8; 2048];
    while let Ok(n) = peer.recv(&mut buf) { got.push(buf[..n].to_vec()); if got.len() > 8 { break; } }
    Ok((oks, got, frames))
}

fn write_fault_checks(acc: &mut crate::report::Acc) {
    for imp in [Impl::Blocking, Impl::Tokio] {
        for compressed in [true, false] {
            acc.eval();
            let label = format!("{} {}: a packet written while the peer's port is closed, then four more once it is open", if imp == Impl::Blocking { "blocking" } else { "tokio" }, if compressed { "compressed" } else { "uncompressed" });
            let replay = json!({"site": "writes-after-a-refused-one", "case": label});
            match guard(|| writes_after_a_refused_one(imp, compressed)) {
                Err(p) => acc.violate(0, format!("C08|{imp:?}|write|panic"), format!("{label}: {p}"), replay),
                Ok(Err(e)) => { eprintln!("MACHINERY: {label}: {e}"); std::process::exit(4); },
                Ok(Ok((oks, got, frames))) => {
                    // what must have arrived: the frames of the writes 2..5 that returned Ok, in order (the first went to a closed port)
                    let want: Vec<&Vec<u8>> = (1..5).filter(|k| oks[*k]).map(|k| &frames[k]).collect();
                    if got.iter().collect::<Vec<_>>() == want { acc.class("accepted-writes-left-as-datagrams"); acc.nontrivial(); }
                    else { acc.violate(0, format!("C08|{imp:?}|write|accepted-but-not-sent"), format!("{label}: the writes returned {oks:?}; the peer received {:?} where the frames of the accepted ones are {:?}", got.iter().map(|g| crate::report::hex(g)).collect::<Vec<_>>(), want.iter().map(|g| crate::report::hex(g)).collect::<Vec<_>>()), replay); }
                },
            }
        }
    }
}

pub fn run_check(tier: Tier, replay: Option<String>) -> i32 {
    let insts = Arc::new(instances(tier));
    if let Some(path) = replay {
        let v = super::replay_value(&path);
        let inst = v.get("instance_index").and_then(|x| x.as_u64()).unwrap_or(0) as usize;
        let hist: Vec<u8> = serde_json::from_value(v.get("history").cloned().unwrap_or(json!([]))).unwrap_or_default();
        let i = &insts[inst.min(insts.len() - 1)];
        WATCHDOG_CELL.with(|c| c.set(WATCHDOG_CONFIRM));
        let a = run(i.imp, i.compressed, &i.comps, &hist);
        let b = run(i.imp, i.compressed, &i.comps, &hist);
        if a.problem.as_ref().map(|p| &p.0) != b.problem.as_ref().map(|p| &p.0) {
            eprintln!("MACHINERY: replay is not deterministic");
            return 4;
        }
        println!("replay {}: {:?}", i.label, a.problem);
        return if a.problem.is_some() { 1 } else { 0 };
    }
    let started = std::time::Instant::now();
    let mut results = vec![];
    for threads in [16usize, 6] {
        let m = M { insts: insts.clone(), found: Arc::new(Mutex::new(BTreeMap::new())), transitions: Arc::new(AtomicU64::new(0)), classes: Arc::new(Mutex::new(BTreeMap::new())), max_hist: 40 };
        let (found, trans, classes) = (m.found.clone(), m.transitions.clone(), m.classes.clone());
        let ch = m.checker().threads(threads).spawn_bfs().join();
        results.push((ch.unique_state_count() as u64, trans.load(Ordering::Relaxed), ch.max_depth() as u64, found.lock().unwrap().clone(), classes.lock().unwrap().clone()));
        if tier == Tier::Quick { break; }
    }
    if results.len() == 2 && results[0].0 != results[1].0 && VIOLATING.load(Ordering::Relaxed) == 0 {
        eprintln!("MACHINERY: unique state count differs between runs ({} vs {})", results[0].0, results[1].0);
        return 4;
    }
    let (states, transitions, depth, found, classes) = results.remove(0);
    let mut acc = crate::report::Acc::new();
    acc.evals = transitions;
    acc.nontrivial = states;
    acc.classes = classes;
    // a found witness is replayed twice before it is reported
    for (sig, (detail, inst, hist)) in &found {
        let i = &insts[*inst as usize];
        WATCHDOG_CELL.with(|c| c.set(WATCHDOG_CONFIRM));
        let again = run(i.imp, i.compressed, &i.comps, hist);
        WATCHDOG_CELL.with(|c| c.set(WATCHDOG_SEARCH));
        if again.problem.is_none() {
            eprintln!("MACHINERY: witness for {sig} did not reproduce on replay (loopback timing?)");
            return 4;
        }
        acc.violate(hist.len() as u64, sig.clone(), detail.clone(), json!({"engine": "E2-udp", "instance_index": inst, "history": hist}));
    }
    write_checks(&mut acc);
    adaptor_stream_checks(&mut acc);
    builder_connection_checks(&mut acc, tier);
    many_datagrams_checks(&mut acc);
    write_fault_checks(&mut acc);
    acc.samples.push(json!({"instance": insts[0].label, "history (datagram sizes)": [1020, 1020, 1020, 1020, 1020, 1016, 8]}));
    let mut extra = serde_json::Map::new();
    let _ = extra.insert("states".into(), json!(states));
    let _ = extra.insert("transitions".into(), json!(transitions));
    let _ = extra.insert("traces_validated_against_impl".into(), json!(transitions));
    let _ = extra.insert("max_depth".into(), json!(depth));
    crate::report::finish(crate::report::Outcome {
        property: "C08".into(), tier, level: "model_checking", acc,
        rule: "states = (connection receive buffer, spare capacity, adaptor buffer) reached by datagram histories; actions = one datagram of each composition {one frame of 4, 8, 12, 252, 508, 1016, 1020 B; 508+512; 255 x 4 B; 4 x 252 B (compressed) | 4, 8, 12, 252, 4 x 252, 250 x 4, 100+152 (uncompressed)} followed by as many read() calls as it holds packets; every transition re-executes the whole history on fresh loopback sockets".into(),
        exhaustive: VIOLATING.load(Ordering::Relaxed) < 12, extra,
        assumptions: vec![
            "loopback UDP with one datagram (or one burst of 2-3 datagrams, < 3 kB) in flight preserves boundaries and order; every wait carries a 2 s watchdog that turns a hang into a reported violation".into(),
            "writes: every kind's B1 packet, both implementations and modes, must arrive as exactly one datagram equal to Codec::encode(p)".into(),
            "writes-after-a-refused-one: a packet written while the peer's port is closed, then four more after the peer has come up - every write that returned Ok left as one datagram".into(),
            "many-datagrams: 70 000 datagrams (6 compositions in a cycle, batches of 16 queued before the connection reads) on one connection per implementation and mode".into(),
            "builder-connection: every datagram composition (single and burst) again through connections made by the public Builder (blocking / tokio x mode x with / without a local address), one fresh connection each".into(),
        ],
        started,
    })
}
