//! C20 - the WebSocket relay transport carries the same byte stream as TCP.
//! Every execution runs on a fresh loopback WebSocket connection against a tungstenite server
//! living in the harness; the schedule space (partitions of the byte stream into binary messages,
//! interleaved non-binary messages, caller read sizes) is enumerated exhaustively within bounds.

use std::{sync::Arc, time::Duration};

use bytes::BytesMut;
use futures_util::{SinkExt, StreamExt};
use insim::{net::{tokio_impl::{Framed, WebsocketStream}, Codec, Mode}, Packet};
use serde_json::json;
use tokio::io::AsyncReadExt;
use tokio_tungstenite::tungstenite::Message;

use super::e2props::{f_badcim, f_keepalive, f_mso, f_small, f_tiny, f_unknown};
use crate::{e2::world::render, gen::baseline, report::{guard, hex, Acc, Site, Tier}, spec};

const WATCHDOG: Duration = Duration::from_secs(2);

thread_local! {
    /// how many messages the server should wait for from the client before it stops (write tests)
    static EXPECT_FROM_CLIENT: std::cell::Cell<usize> = const { std::cell::Cell::new(0) };
    static LATE_START_MS: std::cell::Cell<u64> = const { std::cell::Cell::new(0) };
    static LISTENER: std::net::TcpListener = {
        let l = std::net::TcpListener::bind("127.0.0.1:0").expect("bind");
        l.set_nonblocking(true).expect("nonblocking");
        l
    };
}

#[derive(Clone, Debug)]
pub enum Msg {
    Bin(Vec<u8>),
    Text,
    /// a text message with this content
    TextOf(String),
    Ping,
}

fn to_ws(m: &Msg) -> Message {
    match m {
        Msg::Bin(b) => Message::Binary(b.clone()),
        Msg::Text => Message::Text("hello".into()),
        Msg::TextOf(s) => Message::Text(s.clone().into()),
        Msg::Ping => Message::Ping(vec![1, 2, 3]),
    }
}

/// Runs `client` against a loopback server that sends `script` and then closes when told to.
/// Returns (client result, messages the server received from the client).
fn with_server<T: Send + 'static>(
    script: Vec<Msg>,
    client: impl FnOnce(WebsocketStream, tokio::sync::oneshot::Sender<()>) -> std::pin::Pin<Box<dyn std::future::Future<Output = T> + Send>> + Send + 'static,
) -> Result<(T, Vec<Message>), String> {
    let rt = tokio::runtime::Builder::new_current_thread().enable_io().enable_time().build().map_err(|e| e.to_string())?;
    rt.block_on(async move {
        // one listening port per worker thread (thousands of short connections would otherwise
        // exhaust the ephemeral port range through TIME_WAIT)
        let std_listener = LISTENER.with(|l| l.try_clone()).map_err(|e| e.to_string())?;
        let listener = tokio::net::TcpListener::from_std(std_listener).map_err(|e| e.to_string())?;
        let addr = listener.local_addr().unwrap();
        let (close_tx, close_rx) = tokio::sync::oneshot::channel::<()>();
        let expect = EXPECT_FROM_CLIENT.with(|c| c.get());
        let server = tokio::spawn(async move {
            let (stream, _) = listener.accept().await.map_err(|e| e.to_string())?;
            let mut ws = tokio_tungstenite::accept_async(stream).await.map_err(|e| e.to_string())?;
            for m in &script {
                ws.send(to_ws(m)).await.map_err(|e| e.to_string())?;
            }
            let mut received = vec![];
            let mut close_rx = close_rx;
            let mut closing = false;
            loop {
                if expect > 0 && received.len() >= expect {
                    // everything expected has arrived: a short grace period for anything unexpected
                    while let Ok(Some(Ok(x))) = tokio::time::timeout(Duration::from_millis(60), ws.next()).await {
                        if matches!(x, Message::Close(_)) { break; }
                        if !matches!(x, Message::Pong(_)) { received.push(x); }
                    }
                    break;
                }
                tokio::select! {
                    _ = &mut close_rx, if !closing => {
                        closing = true;
                        let _ = ws.close(None).await;
                    },
                    m = ws.next() => {
                        match m {
                            Some(Ok(Message::Close(_))) | None => break,
                            Some(Ok(Message::Pong(_))) => {},
                            Some(Ok(x)) => received.push(x),
                            Some(Err(_)) => break,
                        }
                    },
                    _ = tokio::time::sleep(WATCHDOG) => break,
                }
            }
            Ok::<_, String>(received)
        });
        let tcp = tokio::time::timeout(WATCHDOG, tokio::net::TcpStream::connect(addr)).await.map_err(|_| "connect timed out".to_string())?.map_err(|e| e.to_string())?;
        // as the library's own connect does: without it Nagle + delayed ACK hold a second small message back for ~40 ms
        let _ = tcp.set_nodelay(true);
        // reset on close: no TIME_WAIT on the client side
        let _ = tcp.set_linger(Some(Duration::ZERO));
        let (ws, _) = tokio::time::timeout(WATCHDOG, tokio_tungstenite::client_async(format!("ws://{addr}/connect"), tokio_tungstenite::MaybeTlsStream::Plain(tcp)))
            .await.map_err(|_| "websocket handshake timed out".to_string())?.map_err(|e| e.to_string())?;
        let out = client(WebsocketStream::from(ws), close_tx).await;
        let received = tokio::time::timeout(Duration::from_secs(5), server).await.map_err(|_| "server did not finish".to_string())?.map_err(|e| e.to_string())??;
        Ok((out, received))
    })
}

/// Level 1: the adaptor as a byte stream. Returns bytes read before close and the result of the read after close.
fn adaptor_reads(script: Vec<Msg>, total: usize, read_size: usize) -> Result<(Vec<u8>, Result<usize, String>), String> {
    adaptor_reads_after(script, total, read_size, 0)
}

/// `delay_ms`: the client starts reading only after the server has had time to send everything
fn adaptor_reads_after(script: Vec<Msg>, total: usize, read_size: usize, delay_ms: u64) -> Result<(Vec<u8>, Result<usize, String>), String> {
    EXPECT_FROM_CLIENT.with(|c| c.set(0));
    let r = with_server(script, move |mut ws, close| Box::pin(async move {
        if delay_ms > 0 {
            tokio::time::sleep(Duration::from_millis(delay_ms)).await;
        }
        let mut got = vec![];
        let mut buf = vec![0u8; read_size];
        while got.len() < total {
            match tokio::time::timeout(WATCHDOG, ws.read(&mut buf)).await {
                Err(_) => return (got, Err("read never returned (bytes lost)".to_string())),
                Ok(Err(e)) => return (got, Err(format!("read error {e}"))),
                Ok(Ok(0)) => return (got, Err("stream ended early".to_string())),
                Ok(Ok(n)) => got.extend_from_slice(&buf[..n]),
            }
        }
        let _ = close.send(());
        let after = match tokio::time::timeout(WATCHDOG, ws.read(&mut buf)).await {
            Err(_) => Err("read after close never returned".to_string()),
            Ok(Err(e)) => Err(format!("read error after close: {e}")),
            Ok(Ok(n)) => Ok(n),
        };
        (got, after)
    }))?;
    Ok(r.0)
}

/// ... through `read_exact` (one ReadBuf kept across polls, so the adaptor is handed a partly filled buffer): spans of `span` bytes
fn adaptor_reads_exact(script: Vec<Msg>, total: usize, span: usize) -> Result<(Vec<u8>, Result<usize, String>), String> {
    EXPECT_FROM_CLIENT.with(|c| c.set(0));
    let r = with_server(script, move |mut ws, close| Box::pin(async move {
        let mut got = vec![];
        while got.len() < total {
            let n = span.min(total - got.len());
            let mut buf = vec![0u8; n];
            match tokio::time::timeout(WATCHDOG, ws.read_exact(&mut buf)).await {
                Err(_) => return (got, Err("read_exact never returned (bytes lost)".to_string())),
                Ok(Err(e)) => return (got, Err(format!("read_exact error {e}"))),
                Ok(Ok(_)) => got.extend_from_slice(&buf),
            }
        }
        let _ = close.send(());
        let mut buf = [0u8; 8];
        let after = match tokio::time::timeout(WATCHDOG, ws.read(&mut buf)).await {
            Err(_) => Err("read after close never returned".to_string()),
            Ok(Err(e)) => Err(format!("read error after close: {e}")),
            Ok(Ok(n)) => Ok(n),
        };
        (got, after)
    }))?;
    Ok(r.0)
}

/// Level 2: a connection over the adaptor. Returns the rendered results of read() until Disconnected/error.
fn framed_reads(script: Vec<Msg>, expect_results: usize) -> Result<Vec<String>, String> {
    EXPECT_FROM_CLIENT.with(|c| c.set(0));
    let late = LATE_START_MS.with(|c| c.get());
    let r = with_server(script, move |ws, close| Box::pin(async move {
        if late > 0 { tokio::time::sleep(Duration::from_millis(late)).await; }
        let mut framed = Framed::new(Box::new(ws), Codec::new(Mode::Uncompressed));
        let mut out = vec![];
        for _ in 0..expect_results {
            match tokio::time::timeout(WATCHDOG, framed.read()).await {
                Err(_) => { out.push("HANG".to_string()); return out; },
                Ok(r) => out.push(render(&r)),
            }
        }
        let _ = close.send(());
        match tokio::time::timeout(WATCHDOG, framed.read()).await {
            Err(_) => out.push("HANG".to_string()),
            Ok(r) => out.push(render(&r)),
        }
        out
    }))?;
    Ok(r.0)
}

fn framed_write(p: Packet, compressed: bool) -> Result<Vec<Message>, String> {
    EXPECT_FROM_CLIENT.with(|c| c.set(1));
    let r = with_server(vec![], move |ws, close| Box::pin(async move {
        let mut framed = Framed::new(Box::new(ws), Codec::new(if compressed { Mode::Compressed } else { Mode::Uncompressed }));
        let r = tokio::time::timeout(WATCHDOG, framed.write(p)).await;
        // keep the connection open until the server has seen what it expects (it stops by itself)
        tokio::time::sleep(Duration::from_millis(150)).await;
        let _ = close.send(());
        match r { Err(_) => Err("write timed out".to_string()), Ok(Err(e)) => Err(e.to_string()), Ok(Ok(())) => Ok(()) }
    }))?;
    EXPECT_FROM_CLIENT.with(|c| c.set(0));
    r.0?;
    Ok(r.1)
}

fn framed_write_many(ps: Vec<Packet>) -> Result<Vec<Message>, String> {
    EXPECT_FROM_CLIENT.with(|c| c.set(ps.len()));
    let r = with_server(vec![], move |ws, close| Box::pin(async move {
        if std::env::var("C20_DEBUG_RAW").is_ok() {
            // debugging aid: bypass Framed, write through the adaptor with AsyncWriteExt
            use tokio::io::AsyncWriteExt;
            let mut ws = ws;
            let codec = Codec::new(Mode::Uncompressed);
            for p in ps {
                let b = codec.encode(&p).unwrap();
                ws.write_all(&b).await.map_err(|e| e.to_string())?;
                if std::env::var("C20_DEBUG_FLUSH").is_ok() { ws.flush().await.map_err(|e| e.to_string())?; }
            }
            tokio::time::sleep(Duration::from_millis(300)).await;
            let _ = close.send(());
            return Ok(());
        }
        let mut framed = Framed::new(Box::new(ws), Codec::new(Mode::Uncompressed));
        for p in ps {
            match tokio::time::timeout(WATCHDOG, framed.write(p)).await {
                Err(_) => return Err("write timed out".to_string()),
                Ok(Err(e)) => return Err(e.to_string()),
                Ok(Ok(())) => {},
            }
        }
        tokio::time::sleep(Duration::from_millis(150)).await;
        let _ = close.send(());
        Ok(())
    }))?;
    EXPECT_FROM_CLIENT.with(|c| c.set(0));
    r.0?;
    Ok(r.1)
}

/// Back-pressure: the server does not read until the client's writes stall (the socket buffers are
/// full); then it drains.  Returns (packets whose write returned Ok, binary messages the server got).
fn back_pressure(compressed: bool, keepalive: bool) -> Result<(Vec<Vec<u8>>, Vec<Vec<u8>>, usize), String> {
    let rt = tokio::runtime::Builder::new_current_thread().enable_io().enable_time().build().map_err(|e| e.to_string())?;
    rt.block_on(async move {
        let std_listener = LISTENER.with(|l| l.try_clone()).map_err(|e| e.to_string())?;
        let listener = tokio::net::TcpListener::from_std(std_listener).map_err(|e| e.to_string())?;
        let addr = listener.local_addr().unwrap();
        let (go_tx, go_rx) = tokio::sync::oneshot::channel::<()>();
        let server = tokio::spawn(async move {
            let (stream, _) = listener.accept().await.map_err(|e| e.to_string())?;
            let mut ws = tokio_tungstenite::accept_async(stream).await.map_err(|e| e.to_string())?;
            if keepalive {
                // a keep-alive is waiting for the client while its own writes are blocked
                ws.send(Message::Binary(if compressed { vec![1, 3, 0, 0] } else { vec![4, 3, 0, 0] }.into())).await.map_err(|e| e.to_string())?;
            }
            let _ = go_rx.await;
            let mut got: Vec<Vec<u8>> = vec![];
            loop {
                // until the last marker has arrived (20 s without anything = it never will)
                match tokio::time::timeout(Duration::from_secs(20), ws.next()).await {
                    Err(_) => break,
                    Ok(None) | Ok(Some(Err(_))) => break,
                    Ok(Some(Ok(Message::Binary(b)))) => {
                        let last = b.windows(8).any(|w| w == if keepalive { &b"marker 4"[..] } else { &b"marker 2"[..] });
                        got.push(b.to_vec());
                        if last {
                            // a short grace period for anything that should not follow
                            while let Ok(Some(Ok(Message::Binary(b)))) = tokio::time::timeout(Duration::from_millis(200), ws.next()).await {
                                got.push(b.to_vec());
                            }
                            break;
                        }
                    },
                    Ok(Some(Ok(Message::Close(_)))) => break,
                    Ok(Some(Ok(_))) => {},
                }
            }
            Ok::<_, String>(got)
        });
        let tcp = tokio::time::timeout(WATCHDOG, tokio::net::TcpStream::connect(addr)).await.map_err(|_| "connect timed out".to_string())?.map_err(|e| e.to_string())?;
        let _ = tcp.set_nodelay(true);
        let (ws, _) = tokio::time::timeout(WATCHDOG, tokio_tungstenite::client_async(format!("ws://{addr}/connect"), tokio_tungstenite::MaybeTlsStream::Plain(tcp)))
            .await.map_err(|_| "websocket handshake timed out".to_string())?.map_err(|e| e.to_string())?;
        let codec = Codec::new(if compressed { Mode::Compressed } else { Mode::Uncompressed });
        let mut framed = Framed::new(Box::new(WebsocketStream::from(ws)), Codec::new(if compressed { Mode::Compressed } else { Mode::Uncompressed }));
        let mut written: Vec<Vec<u8>> = vec![];
        // numbered 136-byte packets until a write does not come back within 300 ms (or 16 MB went out)
        for n in 0..120_000u32 {
            let p = Packet::Mtc(insim::insim::Mtc { text: format!("packet {n:08} {}", "x".repeat(100)), ..Default::default() });
            let frame = codec.encode(&p).map_err(|e| e.to_string())?.to_vec();
            match tokio::time::timeout(Duration::from_millis(300), framed.write(p)).await {
                Err(_) => break, // stalled: this one may or may not arrive, at most once
                Ok(Err(e)) => return Err(format!("write #{n} failed: {e}")),
                Ok(Ok(())) => written.push(frame),
            }
        }
        let stalled_at = written.len();
        if keepalive {
            // the application polls for input while blocked: the keep-alive is taken, its reply cannot leave,
            // and the read is given up (a select! against a timer)
            let _ = tokio::time::timeout(Duration::from_millis(400), framed.read()).await;
        }
        let _ = go_tx.send(());
        // the peer drains; the application goes on writing (what had been accepted into the sink while the
        // socket was full leaves with the next writes - nothing flushes it for an idle application, which
        // is a matter of latency, not of this property)
        tokio::time::sleep(Duration::from_millis(400)).await;
        for n in 0..3u32 {
            let p = Packet::Mtc(insim::insim::Mtc { text: format!("marker {n}"), ..Default::default() });
            let frame = codec.encode(&p).map_err(|e| e.to_string())?.to_vec();
            match tokio::time::timeout(Duration::from_secs(5), framed.write(p)).await {
                Err(_) => return Err(format!("marker write #{n} stalled although the peer is reading")),
                Ok(Err(e)) => return Err(format!("marker write #{n} failed: {e}")),
                Ok(Ok(())) => written.push(frame),
            }
            tokio::time::sleep(Duration::from_millis(100)).await;
        }
        if keepalive {
            // the keep-alive is handed over now at the latest
            let _ = tokio::time::timeout(Duration::from_secs(5), framed.read()).await;
            for n in 3..5u32 {
                let p = Packet::Mtc(insim::insim::Mtc { text: format!("marker {n}"), ..Default::default() });
                let frame = codec.encode(&p).map_err(|e| e.to_string())?.to_vec();
                match tokio::time::timeout(Duration::from_secs(5), framed.write(p)).await {
                    Ok(Ok(())) => written.push(frame),
                    other => return Err(format!("marker write #{n}: {other:?}")),
                }
            }
        }
        // keep the connection alive while the server drains
        let got = tokio::time::timeout(Duration::from_secs(60), server).await.map_err(|_| "server did not finish".to_string())?.map_err(|e| e.to_string())??;
        drop(framed);
        Ok((written, got, stalled_at))
    })
}

/// The application's writes are blocked (the peer does not read) and the peer has sent: `lead` non-binary / empty
/// messages, then a SMALL in a binary message.  Reading does not depend on the write side: the SMALL is
/// delivered while the writer is still blocked, as it would be over TCP.
/// lead: 0 nothing, 1 ping, 2 text, 3 pong, 4 empty binary, 5 three pings, 6 ping + text + ping
fn read_while_blocked(compressed: bool, lead: u8) -> Result<Result<String, String>, String> {
    let rt = tokio::runtime::Builder::new_current_thread().enable_io().enable_time().build().map_err(|e| e.to_string())?;
    rt.block_on(async move {
        let std_listener = LISTENER.with(|l| l.try_clone()).map_err(|e| e.to_string())?;
        let listener = tokio::net::TcpListener::from_std(std_listener).map_err(|e| e.to_string())?;
        let addr = listener.local_addr().unwrap();
        let (go_tx, go_rx) = tokio::sync::oneshot::channel::<()>();
        let small: Vec<u8> = if compressed { vec![2, 4, 1, 0, 0, 0, 0, 0] } else { vec![8, 4, 1, 0, 0, 0, 0, 0] };
        let small2 = small.clone();
        let server = tokio::spawn(async move {
            let (stream, _) = listener.accept().await.map_err(|e| e.to_string())?;
            let mut ws = tokio_tungstenite::accept_async(stream).await.map_err(|e| e.to_string())?;
            let leads: Vec<Message> = match lead {
                0 => vec![],
                1 => vec![Message::Ping(vec![1, 2, 3].into())],
                2 => vec![Message::Text("hello".into())],
                3 => vec![Message::Pong(vec![9].into())],
                4 => vec![Message::Binary(Vec::<u8>::new().into())],
                5 => vec![Message::Ping(vec![1].into()), Message::Ping(vec![2].into()), Message::Ping(vec![3].into())],
                _ => vec![Message::Ping(vec![1].into()), Message::Text("x".into()), Message::Ping(vec![2].into())],
            };
            for m in leads { ws.send(m).await.map_err(|e| e.to_string())?; }
            ws.send(Message::Binary(small2.into())).await.map_err(|e| e.to_string())?;
            let _ = go_rx.await;
            // drain until the client goes away
            while let Ok(Some(Ok(_))) = tokio::time::timeout(Duration::from_secs(5), ws.next()).await {}
            Ok::<_, String>(())
        });
        let tcp = tokio::time::timeout(WATCHDOG, tokio::net::TcpStream::connect(addr)).await.map_err(|_| "connect timed out".to_string())?.map_err(|e| e.to_string())?;
        let _ = tcp.set_nodelay(true);
        let (ws, _) = tokio::time::timeout(WATCHDOG, tokio_tungstenite::client_async(format!("ws://{addr}/connect"), tokio_tungstenite::MaybeTlsStream::Plain(tcp)))
            .await.map_err(|_| "websocket handshake timed out".to_string())?.map_err(|e| e.to_string())?;
        let mut framed = Framed::new(Box::new(WebsocketStream::from(ws)), Codec::new(if compressed { Mode::Compressed } else { Mode::Uncompressed }));
        let mut stalled = false;
        for n in 0..120_000u32 {
            let p = Packet::Mtc(insim::insim::Mtc { text: format!("packet {n:08} {}", "x".repeat(100)), ..Default::default() });
            match tokio::time::timeout(Duration::from_millis(300), framed.write(p)).await {
                Err(_) => { stalled = true; break; },
                Ok(Err(e)) => return Err(format!("write #{n} failed: {e}")),
                Ok(Ok(())) => {},
            }
        }
        if !stalled { return Err("the writer never stalled".into()); }
        // the writer is blocked; what the peer sent is waiting to be read
        let verdict = match tokio::time::timeout(Duration::from_secs(3), framed.read()).await {
            Err(_) => Err("the packet the peer sent was not delivered within 3 s while the application's writes are blocked".to_string()),
            Ok(r) => {
                let got = crate::e2::world::render(&r);
                if got.starts_with("Ok(Small(") { Ok(got) } else { Err(format!("read returned {} where the peer's SMALL is due", got.chars().take(80).collect::<String>())) }
            },
        };
        let _ = go_tx.send(());
        drop(framed);
        let _ = tokio::time::timeout(Duration::from_secs(20), server).await;
        Ok(verdict)
    })
}

fn partition(stream: &[u8], mask: u64) -> Vec<Vec<u8>> {
    // bit i of mask set = cut after byte i
    let mut out = vec![];
    let mut cur = vec![];
    for (i, b) in stream.iter().enumerate() {
        cur.push(*b);
        if i + 1 == stream.len() || mask & (1 << i) != 0 {
            out.push(std::mem::take(&mut cur));
        }
    }
    out
}

pub fn sites(tier: Tier) -> Vec<Site> {
    let mut sites = vec![];
    let read_sizes: Arc<Vec<usize>> = Arc::new(vec![1, 2, 3, 4, 7, 64, 1020, 6120]);
    // 1a. every partition of an N-byte stream into binary messages x every caller read size
    {
        let n: usize = if tier == Tier::Thorough { 12 } else { 8 };
        let stream: Vec<u8> = (0..n).map(|i| 0x41 + i as u8).collect();
        let parts = 1u64 << (n - 1);
        let rs = read_sizes.clone();
        sites.push(Site::new("adaptor-partitions", parts * rs.len() as u64,
            &format!("every partition of a {n}-byte stream into binary messages (2^{}) x caller read-buffer size {{1,2,3,4,7,64,1020,6120}}", n - 1),
            move |i, acc| {
                let mask = i / rs.len() as u64;
                let size = rs[(i % rs.len() as u64) as usize];
                let msgs = partition(&stream, mask);
                let script: Vec<Msg> = msgs.iter().map(|m| Msg::Bin(m.clone())).collect();
                acc.eval();
                let replay = json!({"site": "adaptor-partitions", "index": i, "messages": msgs.iter().map(|m| m.len()).collect::<Vec<_>>(), "read_size": size});
                judge_adaptor(acc, i, guard(|| adaptor_reads(script, stream.len(), size)), &stream, &format!("messages {:?}, read size {size}", msgs.iter().map(|m| m.len()).collect::<Vec<_>>()), replay);
            }));
    }
    // 1a'. the same partitions read with read_exact (the caller's buffer arrives partly filled at the adaptor)
    {
        let n: usize = if tier == Tier::Thorough { 12 } else { 8 };
        let stream: Vec<u8> = (0..n).map(|i| 0x41 + i as u8).collect();
        let parts = 1u64 << (n - 1);
        let spans: Vec<usize> = vec![2, 3, 5, n];
        sites.push(Site::new("adaptor-read-exact", parts * spans.len() as u64,
            &format!("every partition of a {n}-byte stream into binary messages (2^{}) x read_exact of {{2, 3, 5, {n}}} bytes at a time", n - 1),
            move |i, acc| {
                let mask = i / spans.len() as u64;
                let span = spans[(i % spans.len() as u64) as usize];
                let msgs = partition(&stream, mask);
                let script: Vec<Msg> = msgs.iter().map(|m| Msg::Bin(m.clone())).collect();
                acc.eval();
                let replay = json!({"site": "adaptor-read-exact", "index": i, "messages": msgs.iter().map(|m| m.len()).collect::<Vec<_>>(), "span": span});
                judge_adaptor(acc, i, guard(|| adaptor_reads_exact(script, stream.len(), span)), &stream, &format!("messages {:?}, read_exact of {span}", msgs.iter().map(|m| m.len()).collect::<Vec<_>>()), replay);
            }));
    }
    // 1a''. ... over a longer stream (the adaptor's staging buffer has been used, emptied and reused) in larger pieces
    {
        let total = 6200usize;
        let stream: Vec<u8> = (0..total).map(|i| ((i * 7 + i / 251) % 251) as u8 + 1).collect();
        let msg_sizes: Vec<usize> = vec![1, 3, 100, 600, 1020, 1021, 3000, 6200];
        let spans: Vec<usize> = vec![2, 7, 100, 1019, 1500, 6200];
        let n = (msg_sizes.len() * spans.len() * 2) as u64;
        sites.push(Site::new("adaptor-read-exact-long", n,
            "a 6200-byte stream in binary messages of {1, 3, 100, 600, 1020, 1021, 3000, 6200} bytes x read_exact of {2, 7, 100, 1019, 1500, 6200} bytes at a time x {every message of that size, sizes alternating with 5-byte messages}",
            move |i, acc| {
                let alt = i % 2 == 1;
                let span = spans[((i / 2) % spans.len() as u64) as usize];
                let m = msg_sizes[(i / 2 / spans.len() as u64) as usize];
                let mut script: Vec<Msg> = vec![];
                let mut at = 0usize;
                let mut k = 0usize;
                while at < total {
                    let want = if alt && k % 2 == 1 { 5 } else { m };
                    let n = want.min(total - at);
                    script.push(Msg::Bin(stream[at..at + n].to_vec()));
                    at += n;
                    k += 1;
                }
                acc.eval();
                let replay = json!({"site": "adaptor-read-exact-long", "index": i, "message_size": m, "alternating": alt, "span": span});
                judge_adaptor(acc, i, guard(|| adaptor_reads_exact(script, total, span)), &stream, &format!("messages of {m} bytes{}, read_exact of {span}", if alt { " alternating with 5-byte ones" } else { "" }), replay);
            }));
    }
    // 1a-text. what a text message SAYS is nobody's business: texts of every length around round numbers, ASCII and with
    // 2-, 3- and 4-byte characters at every alignment, in front of, between and behind binary messages
    {
        let stream: Vec<u8> = (0..6).map(|i| 0x61 + i as u8).collect();
        let mut texts: Vec<String> = vec![String::new(), "a".repeat(300), "a".repeat(70_000)];
        for lead in 0..4usize {
            for ch in ['\u{e9}', '\u{30a2}', '\u{1f600}'] {
                for n in [30usize, 40, 60, 64, 100, 128, 150, 256, 1024] { texts.push(format!("{}{}", "!".repeat(lead), ch.to_string().repeat(n))); }
            }
        }
        let texts = Arc::new(texts);
        let n = texts.len() as u64 * 3;
        sites.push(Site::new("text-contents", n,
            "a 6-byte stream in two binary messages with one text message {in front, between, behind}: empty, 300 and 70 000 ASCII characters, runs of 30..1024 two-, three- and four-byte characters behind 0..3 ASCII characters",
            move |i, acc| {
                let t = &texts[(i / 3) as usize];
                let mut script: Vec<Msg> = vec![Msg::Bin(stream[..2].to_vec()), Msg::Bin(stream[2..].to_vec())];
                script.insert((i % 3) as usize, Msg::TextOf(t.clone()));
                acc.eval();
                let replay = json!({"site": "text-contents", "index": i, "text_bytes": t.len(), "position": i % 3});
                judge_adaptor(acc, i, guard(|| adaptor_reads(script, stream.len(), 64)), &stream, &format!("a text message of {} bytes ({:?}...) at position {}", t.len(), t.chars().take(6).collect::<String>(), i % 3), replay);
            }));
    }
    // 1a-exact. one binary message of exactly k x 1020 bytes (the adaptor's buffer size), k = 1..=7, and of the sizes either
    // side, then the peer says nothing more: what has arrived is handed over without waiting for more
    {
        let mut sizes: Vec<usize> = vec![];
        for k in 1..=7usize { for d in [-4i64, 0, 4] { sizes.push((k as i64 * 1020 + d) as usize); } }
        let sizes = Arc::new(sizes);
        let n = sizes.len() as u64 * 2;
        sites.push(Site::new("exact-multiples-then-quiet", n,
            "one binary message of k x 1020 - 4, k x 1020, k x 1020 + 4 bytes (k = 1..=7) read with buffers of {6120, 64} bytes while the peer stays quiet",
            move |i, acc| {
                let size = sizes[(i / 2) as usize];
                let read = if i % 2 == 0 { 6120 } else { 64 };
                let stream: Vec<u8> = (0..size).map(|x| ((x * 11 + x / 253) % 251) as u8 + 1).collect();
                acc.eval();
                let replay = json!({"site": "exact-multiples-then-quiet", "index": i, "message_bytes": size, "read_size": read});
                judge_adaptor(acc, i, guard(|| adaptor_reads(vec![Msg::Bin(stream.clone())], stream.len(), read)), &stream, &format!("one message of {size} bytes, read size {read}, the peer quiet afterwards"), replay);
            }));
    }
    // 1b. non-binary messages (text, ping, empty binary) interleaved at every boundary, budget 2
    {
        let stream: Vec<u8> = (0..6).map(|i| 0x61 + i as u8).collect();
        let mut scripts: Vec<Vec<Msg>> = vec![];
        for mask in 0..(1u64 << 5) {
            let msgs = partition(&stream, mask);
            let slots = msgs.len() + 1;
            // choose up to 2 slots and a kind for each
            let kinds = [Msg::Text, Msg::Ping, Msg::Bin(vec![])];
            for a in 0..slots {
                for ka in 0..3 {
                    // one extra
                    let mut s = vec![];
                    for (j, m) in msgs.iter().enumerate() {
                        if j == a { s.push(kinds[ka].clone()); }
                        s.push(Msg::Bin(m.clone()));
                    }
                    if a == msgs.len() { s.push(kinds[ka].clone()); }
                    scripts.push(s);
                    if tier == Tier::Thorough {
                        for b in a..slots {
                            for kb in 0..3 {
                                let mut s2 = vec![];
                                for (j, m) in msgs.iter().enumerate() {
                                    if j == a { s2.push(kinds[ka].clone()); }
                                    if j == b { s2.push(kinds[kb].clone()); }
                                    s2.push(Msg::Bin(m.clone()));
                                }
                                if a == msgs.len() { s2.push(kinds[ka].clone()); }
                                if b == msgs.len() { s2.push(kinds[kb].clone()); }
                                scripts.push(s2);
                            }
                        }
                    }
                }
            }
        }
        let scripts = Arc::new(scripts);
        let n = scripts.len() as u64 * 2;
        sites.push(Site::new("adaptor-interleaved", n,
            "every partition of a 6-byte stream x a text / ping / empty-binary message inserted at every boundary (one insertion in quick, every pair in thorough) x read size {3, 64}",
            move |i, acc| {
                let script = scripts[(i / 2) as usize].clone();
                let size = if i % 2 == 0 { 3 } else { 64 };
                acc.eval();
                let desc = format!("{:?} read size {size}", script.iter().map(|m| match m { Msg::Bin(b) => format!("bin{}", b.len()), Msg::Text => "text".into(), Msg::TextOf(t) => format!("text{}", t.len()), Msg::Ping => "ping".into() }).collect::<Vec<_>>());
                let replay = json!({"site": "adaptor-interleaved", "index": i, "script": desc});
                let stream: Vec<u8> = (0..6).map(|i| 0x61 + i as u8).collect();
                judge_adaptor(acc, i, guard(|| adaptor_reads(script, 6, size)), &stream, &desc, replay);
            }));
    }
    // 1b'. "any number" of non-binary messages: 300 in a row (all text, all ping, alternating), in front of,
    // between and behind the binary messages, already queued when the client reads and while it reads
    {
        sites.push(Site::new("adaptor-storm", 3 * 3 * 2 * 2,
            "300 consecutive non-binary messages {text, ping, alternating} x position {front, middle, end} x read size {3, 64} x {client reads at once, client reads after everything was sent}",
            move |i, acc| {
                let kind = i % 3;
                let posn = (i / 3) % 3;
                let size = if (i / 9) % 2 == 0 { 3 } else { 64 };
                let delay = if (i / 18) % 2 == 0 { 0 } else { 40 };
                let storm: Vec<Msg> = (0..300).map(|j| match kind { 0 => Msg::Text, 1 => Msg::Ping, _ => if j % 2 == 0 { Msg::Text } else { Msg::Ping } }).collect();
                let a = Msg::Bin(b"abc".to_vec());
                let b = Msg::Bin(b"def".to_vec());
                let mut script = vec![];
                match posn {
                    0 => { script.extend(storm); script.push(a); script.push(b); },
                    1 => { script.push(a); script.extend(storm); script.push(b); },
                    _ => { script.push(a); script.push(b); script.extend(storm); },
                }
                acc.eval();
                let desc = format!("300 x {} at {} read size {size} delay {delay} ms", ["text", "ping", "text/ping"][kind as usize], ["front", "middle", "end"][posn as usize]);
                let replay = json!({"site": "adaptor-storm", "index": i, "script": desc});
                judge_adaptor(acc, i, guard(|| adaptor_reads_after(script, 6, size, delay)), b"abcdef", &desc, replay);
            }));
    }
    // 1c. messages larger than the adaptor's 1020-byte buffer
    {
        let rs = read_sizes.clone();
        // (one message of 8 MiB + 4 bytes with the three largest read sizes only)
        {
            let big_rs: Vec<usize> = { let mut v: Vec<usize> = rs.to_vec(); v.sort(); v.into_iter().rev().take(3).collect() };
            sites.push(Site::new("adaptor-huge", big_rs.len() as u64,
                "one binary message of 8 MiB + 4 bytes x the three largest read sizes",
                move |i, acc| {
                    let size = big_rs[i as usize];
                    let l = 8 * 1024 * 1024 + 4;
                    let m: Vec<u8> = (0..l).map(|j| ((j * 7) % 251) as u8).collect();
                    acc.eval();
                    let desc = format!("one message of {l} bytes read size {size}");
                    let replay = json!({"site": "adaptor-huge", "index": i, "case": desc});
                    let stream = m.clone();
                    judge_adaptor(acc, i, guard(|| adaptor_reads(vec![Msg::Bin(m)], l, size)), &stream, &desc, replay);
                }));
        }
        sites.push(Site::new("adaptor-large", rs.len() as u64 * 6,
            "one binary message of 2000 bytes; 1020 + 1 bytes; 3 x 1500 bytes; one of 70 000 bytes; 65 536 + 4 bytes; one of 200 000 bytes x every read size",
            move |i, acc| {
                let size = rs[(i % rs.len() as u64) as usize];
                let lens: Vec<usize> = match i / rs.len() as u64 { 0 => vec![2000], 1 => vec![1020, 1], 2 => vec![1500, 1500, 1500], 3 => vec![70_000], 4 => vec![65_536, 4], _ => vec![200_000] };
                let mut stream = vec![];
                let mut script = vec![];
                for (k, l) in lens.iter().enumerate() {
                    let m: Vec<u8> = (0..*l).map(|j| ((j * 7 + k * 13) % 251) as u8).collect();
                    stream.extend_from_slice(&m);
                    script.push(Msg::Bin(m));
                }
                acc.eval();
                let desc = format!("messages {lens:?} read size {size}");
                let replay = json!({"site": "adaptor-large", "index": i, "case": desc});
                let total = stream.len();
                judge_adaptor(acc, i, guard(|| adaptor_reads(script, total, size)), &stream, &desc, replay);
            }));
    }
    // 2. a connection over the adaptor: frame sequences x message partitions, same results as TCP
    {
        let alpha: Vec<(&str, Vec<u8>)> = vec![("ka", f_keepalive(false)), ("ping", f_tiny(false, 0, 3)), ("small", f_small(false)), ("unk", f_unknown(false)), ("badcim", f_badcim(false)), ("mso", f_mso(false))];
        let mut cases: Vec<(String, Vec<Vec<u8>>, Vec<Vec<u8>>)> = vec![];
        let maxlen = if tier == Tier::Thorough { 3 } else { 2 };
        let mut seqs: Vec<Vec<usize>> = vec![];
        let mut cur: Vec<Vec<usize>> = vec![vec![]];
        for _ in 0..maxlen {
            let mut next = vec![];
            for s in &cur { for a in 0..alpha.len() { let mut t = s.clone(); t.push(a); next.push(t); } }
            seqs.extend(next.iter().cloned());
            cur = next;
        }
        for s in seqs {
            let frames: Vec<Vec<u8>> = s.iter().map(|a| alpha[*a].1.clone()).collect();
            let label: Vec<&str> = s.iter().map(|a| alpha[*a].0).collect();
            let stream = frames.concat();
            let n = stream.len();
            let mut masks: Vec<u64> = vec![];
            if n <= 12 { masks.extend(0..(1u64 << (n - 1))); }
            else {
                masks.push(0); // one message
                let mut fm = 0u64; let mut acc = 0; for f in &frames { acc += f.len(); if acc < n { fm |= 1 << (acc - 1); } } masks.push(fm); // one per frame
                for cut in 0..(n - 1) { masks.push(1 << cut); masks.push(fm | (1 << cut)); }
                masks.push((1u64 << (n - 1)) - 1); // byte by byte
                masks.sort(); masks.dedup();
            }
            for m in masks {
                cases.push((format!("{} / cuts {m:#x}", label.join("+")), frames.clone(), partition(&stream, m)));
            }
        }
        let cases = Arc::new(cases);
        sites.push(Site::new("connection", cases.len() as u64,
            "every frame sequence of length <= 2 (quick) / <= 3 (thorough) over {keep-alive, TINY_PING, SMALL, unknown type, undecodable CIM, MSO} (uncompressed, as the relay uses) x every partition of the byte stream into binary messages (streams <= 12 B) or {one message, one per frame, every single cut, byte by byte} (longer)",
            move |i, acc| {
                let (label, frames, msgs) = &cases[i as usize];
                acc.eval();
                let script: Vec<Msg> = msgs.iter().map(|m| Msg::Bin(m.clone())).collect();
                let codec = Codec::new(Mode::Uncompressed);
                let mut want: Vec<String> = frames.iter().map(|f| { let mut b = BytesMut::from(&f[..]); render(&match codec.decode(&mut b) { Ok(Some(p)) => Ok(p), Ok(None) => Err(insim::Error::Disconnected), Err(e) => Err(e) }) }).collect();
                want.push("Err(Disconnected)".into());
                let replay = json!({"site": "connection", "index": i, "case": label, "messages": msgs.iter().map(|m| m.len()).collect::<Vec<_>>()});
                let n = frames.len();
                match guard(|| framed_reads(script, n)) {
                    Err(p) => acc.violate(i, "C20|connection|panic".into(), format!("{label}: {p}"), replay),
                    Ok(Err(e)) => { eprintln!("MACHINERY: websocket harness failed: {e}"); std::process::exit(4); },
                    Ok(Ok(got)) => {
                        if got == want { acc.class("same-as-tcp"); acc.nontrivial(); }
                        else {
                            let cat = if got.iter().any(|g| g == "HANG") { "packet-never-delivered" } else if got.last() != want.last() { "close-not-disconnected" } else { "results-differ-from-tcp" };
                            acc.violate(i, format!("C20|connection|{cat}"), format!("{label} in messages {:?}: results {:?}, over TCP {:?}", msgs.iter().map(|m| m.len()).collect::<Vec<_>>(), got.iter().map(|s| s.chars().take(40).collect::<String>()).collect::<Vec<_>>(), want.iter().map(|s| s.chars().take(40).collect::<String>()).collect::<Vec<_>>()), replay);
                        }
                    },
                }
            }));
    }
    // 2b. "any number" of messages on one connection: 70 000 (a count kept in 16 bits wraps in there) - one frame per
    // message, two frames per message, frames split over two messages, text and pings in between
    sites.push(Site::new("many-messages", 2,
        "one connection receiving 70 000 messages {SMALL, MSO + TINY_PING in one message, text, an MSO split over two messages, a ping} in a cycle, read early / read after the peer has sent for 300 ms: the results are those over TCP, then Disconnected",
        move |i, acc| {
            acc.eval();
            let codec = Codec::new(Mode::Uncompressed);
            let small: Vec<u8> = vec![8, 4, 1, 0, 0, 0, 0, 0];
            let mso: Vec<u8> = vec![12, 11, 0, 0, 0, 0, 0, 0, b'h', b'i', 0, 0];
            let ping: Vec<u8> = vec![4, 3, 5, 3];
            let mut script: Vec<Msg> = vec![];
            let mut frames: Vec<&Vec<u8>> = vec![];
            let mut k = 0usize;
            while script.len() < 70_000 {
                match k % 5 {
                    0 => { script.push(Msg::Bin(small.clone())); frames.push(&small); },
                    1 => { let mut m = mso.clone(); m.extend_from_slice(&ping); script.push(Msg::Bin(m)); frames.push(&mso); frames.push(&ping); },
                    2 => script.push(Msg::Text),
                    3 => { script.push(Msg::Bin(mso[..5].to_vec())); script.push(Msg::Bin(mso[5..].to_vec())); frames.push(&mso); },
                    _ => script.push(Msg::Ping),
                }
                k += 1;
            }
            let mut want: Vec<String> = frames.iter().map(|f| { let mut b = BytesMut::from(&f[..]); render(&match codec.decode(&mut b) { Ok(Some(p)) => Ok(p), Ok(None) => Err(insim::Error::Disconnected), Err(e) => Err(e) }) }).collect();
            want.push("Err(Disconnected)".into());
            let n = frames.len();
            let replay = json!({"site": "many-messages", "index": i});
            LATE_START_MS.with(|c| c.set(if i == 1 { 300 } else { 0 }));
            let r = guard(|| framed_reads(script, n));
            LATE_START_MS.with(|c| c.set(0));
            match r {
                Err(p) => acc.violate(i, "C20|connection|panic".into(), format!("70 000 messages: {p}"), replay),
                Ok(Err(e)) => { eprintln!("MACHINERY: websocket harness failed: {e}"); std::process::exit(4); },
                Ok(Ok(got)) => {
                    if got == want { acc.class("same-as-tcp"); acc.nontrivial(); }
                    else {
                        let at = got.iter().zip(&want).position(|(a, b)| a != b).unwrap_or(got.len().min(want.len()));
                        acc.violate(i, "C20|connection|results-differ-from-tcp".into(), format!("70 000 messages on one connection: result #{at} is {:?}, over TCP {:?} ({} results, {} due)", got.get(at).map(|s| s.chars().take(60).collect::<String>()), want.get(at).map(|s| s.chars().take(60).collect::<String>()), got.len(), want.len()), replay);
                    }
                },
            }
        }));
    // 3. every written packet leaves as exactly one binary message holding exactly its frame
    {
        let kinds = spec::load();
        let mut packets: Vec<(String, Packet, Vec<u8>, bool)> = vec![];
        for compressed in [false, true] {
            let codec = Codec::new(if compressed { Mode::Compressed } else { Mode::Uncompressed });
            for k in &kinds {
                let vals = baseline(k, 1);
                let Some(f) = spec::ref_encode(k, &vals, compressed) else { continue };
                let mut b = BytesMut::from(&f[..]);
                let Ok(Some(p)) = codec.decode(&mut b) else { continue };
                let Ok(w) = codec.encode(&p) else { continue };
                packets.push((format!("{} {}", k.name, if compressed { "compressed" } else { "uncompressed" }), p, w.to_vec(), compressed));
            }
            // the largest frames each counted kind can produce in this mode
            for c in crate::typed::counted() {
                for n in [c.max, c.max / 2, (1016 - c.header) / c.elem, (252 - c.header) / c.elem] {
                    let Some(p) = (c.make)(n) else { continue };
                    let Ok(Ok(w)) = guard(|| codec.encode(&p)) else { continue };
                    packets.push((format!("{} x{n} ({} B) {}", c.kind, w.len(), if compressed { "compressed" } else { "uncompressed" }), p, w.to_vec(), compressed));
                }
            }
        }
        let packets = Arc::new(packets);
        sites.push(Site::new("writes", packets.len() as u64, "every kind's B1 packet and the largest frames of every counted kind (up to 1016 B), in both size modes, written through a connection over the adaptor", move |i, acc| {
            let (name, p, want, compressed) = &packets[i as usize];
            acc.eval();
            let replay = json!({"site": "writes", "index": i, "kind": name});
            match guard(|| framed_write(p.clone(), *compressed)) {
                Err(pn) => acc.violate(i, "C20|write|panic".into(), format!("{name}: {pn}"), replay),
                Ok(Err(e)) => acc.violate(i, "C20|write|failed".into(), format!("{name}: {e}"), replay),
                Ok(Ok(msgs)) => {
                    if msgs.len() == 1 && matches!(&msgs[0], Message::Binary(b) if b[..] == want[..]) { acc.class("one-binary-message"); acc.nontrivial(); }
                    else { acc.violate(i, "C20|write|not-one-binary-message".into(), format!("{name}: the server received {} message(s) {:?} for the frame {}", msgs.len(), msgs.iter().map(|m| format!("{}:{}", if m.is_binary() { "binary" } else { "other" }, m.len())).collect::<Vec<_>>(), hex(&want[..want.len().min(20)])), replay); }
                },
            }
        }));
    }
    // 3b. consecutive writes stay separate messages, in order
    {
        use insim::{identifiers::RequestId, insim::{Mst, Small, SmallType, Tiny, TinyType}};
        let pk: Vec<(&str, Packet)> = vec![
            ("tiny", Packet::Tiny(Tiny { reqi: RequestId(1), subt: TinyType::Ping })),
            ("small", Packet::Small(Small { reqi: RequestId(2), subt: SmallType::Tms(true) })),
            ("mst", Packet::Mst(Mst { reqi: RequestId(3), msg: "hello".into() })),
        ];
        let pk = Arc::new(pk);
        sites.push(Site::new("writes-sequence", 9 + 27, "every sequence of 2 and 3 writes over {TINY, SMALL, MST}: the server must see one binary message per write, in order", move |i, acc| {
            let idx: Vec<usize> = if i < 9 { vec![(i / 3) as usize, (i % 3) as usize] } else { let j = i - 9; vec![(j / 9) as usize, ((j / 3) % 3) as usize, (j % 3) as usize] };
            let ps: Vec<Packet> = idx.iter().map(|k| pk[*k].1.clone()).collect();
            let label: Vec<&str> = idx.iter().map(|k| pk[*k].0).collect();
            let codec = Codec::new(Mode::Uncompressed);
            let want: Vec<Vec<u8>> = ps.iter().map(|p| codec.encode(p).unwrap().to_vec()).collect();
            acc.eval();
            let replay = json!({"site": "writes-sequence", "index": i, "packets": label});
            match guard(|| framed_write_many(ps)) {
                Err(pn) => acc.violate(i, "C20|write|panic".into(), format!("{label:?}: {pn}"), replay),
                Ok(Err(e)) => acc.violate(i, "C20|write|failed".into(), format!("{label:?}: {e}"), replay),
                Ok(Ok(msgs)) => {
                    let ok = msgs.len() == want.len() && msgs.iter().zip(&want).all(|(m, w)| matches!(m, Message::Binary(b) if b[..] == w[..]));
                    if ok { acc.class("one-message-per-write"); acc.nontrivial(); }
                    else { acc.violate(i, "C20|write|not-one-binary-message-per-write".into(), format!("{label:?}: the server received {:?}", msgs.iter().map(|m| format!("{}:{}", if m.is_binary() { "binary" } else { "other" }, m.len())).collect::<Vec<_>>()), replay); }
                },
            }
        }));
    }
    // back-pressure: the peer does not read, the socket buffers fill, writes stall, then the peer drains
    sites.push(Site::new("write-back-pressure", 4, "numbered 136-byte packets written until a write stalls against a peer that does not read (both modes; with and without a keep-alive that arrives while the writes are blocked and whose read is given up); the peer then drains: every packet whose write returned is there exactly once, in order, one per binary message, and the keep-alive is answered by exactly one message of its own",
        |i, acc| {
            let compressed = i % 2 == 0;
            let keepalive = i >= 2;
            acc.eval();
            let replay = json!({"site": "write-back-pressure", "index": i, "mode": if compressed { "compressed" } else { "uncompressed" }, "keepalive": keepalive});
            match guard(|| back_pressure(compressed, keepalive)) {
                Err(p) => acc.violate(i, "C20|write|panic".into(), p, replay),
                Ok(Err(e)) => { eprintln!("MACHINERY: websocket back-pressure harness failed: {e}"); std::process::exit(4); },
                Ok(Ok((written, mut got, stalled_at))) => {
                    if keepalive {
                        // exactly one message that is the reply and nothing but the reply
                        let pong: Vec<u8> = if compressed { vec![1, 3, 0, 0] } else { vec![4, 3, 0, 0] };
                        let n_pong = got.iter().filter(|m| **m == pong).count();
                        if n_pong != 1 {
                            acc.violate(i, "C20|write|keep-alive-reply-not-a-message-of-its-own".into(), format!("{n_pong} binary message(s) hold exactly the keep-alive reply (1 expected); messages shorter than 16 bytes: {:?}", got.iter().filter(|m| m.len() < 16).map(|m| hex(m)).collect::<Vec<_>>()), replay);
                            return;
                        }
                        got.retain(|m| *m != pong);
                    }
                    // the write that stalled (and was given up) may have got its packet into the sink: it
                    // then sits at position `stalled_at`, once; take it out before comparing
                    if got.len() == written.len() + 1 && got.get(stalled_at) != written.get(stalled_at) {
                        let _ = got.remove(stalled_at);
                    }
                    let n = written.len();
                    let first_bad = got.iter().zip(&written).position(|(a, b)| a != b);
                    if first_bad.is_none() && got.len() == n {
                        acc.class("back-pressure-intact");
                        acc.nontrivial();
                    } else {
                        let at = first_bad.unwrap_or(n.min(got.len()));
                        acc.violate(i, "C20|write|not-one-binary-message-per-write".into(),
                            format!("{n} writes returned, the peer received {} binary messages; first difference at message {at}: got {:?}, written {:?}", got.len(),
                                got.get(at).map(|m| String::from_utf8_lossy(&m[8..m.len().min(28)]).to_string()), written.get(at).map(|m| String::from_utf8_lossy(&m[8..m.len().min(28)]).to_string())), replay);
                    }
                },
            }
        }));
    sites.push(Site::new("read-while-writer-blocked", 14, "the application's writes are blocked against a peer that does not read; the peer has sent {nothing, a ping, a text, a pong, an empty binary message, three pings, ping + text + ping} and then a SMALL (both modes): the SMALL is delivered within 3 s, as it would be over TCP",
        |i, acc| {
            let compressed = i % 2 == 0;
            let lead = (i / 2) as u8;
            acc.eval();
            let lname = ["nothing", "a ping", "a text", "a pong", "an empty binary message", "three pings", "ping + text + ping"][lead as usize];
            let replay = json!({"site": "read-while-writer-blocked", "index": i, "mode": if compressed { "compressed" } else { "uncompressed" }, "lead": lname});
            match guard(|| read_while_blocked(compressed, lead)) {
                Err(p) => acc.violate(i, "C20|read|panic".into(), p, replay),
                Ok(Err(e)) => { eprintln!("MACHINERY: websocket blocked-writer harness failed: {e}"); std::process::exit(4); },
                Ok(Ok(Ok(_))) => { acc.class("delivered-while-writer-blocked"); acc.nontrivial(); },
                Ok(Ok(Err(e))) => acc.violate(i, "C20|read|held-back-by-the-blocked-writer".into(), format!("{} mode, {lname} in front of the packet: {e}", if compressed { "compressed" } else { "uncompressed" }), replay),
            }
        }));
    sites
}

fn judge_adaptor(acc: &mut Acc, i: u64, r: Result<Result<(Vec<u8>, Result<usize, String>), String>, String>, stream: &[u8], desc: &str, replay: serde_json::Value) {
    match r {
        Err(p) => acc.violate(i, "C20|adaptor|panic".into(), format!("{desc}: {p}"), replay),
        Ok(Err(e)) => { eprintln!("MACHINERY: websocket harness failed: {e}"); std::process::exit(4); },
        Ok(Ok((got, after))) => {
            if got != stream {
                let cat = if got.len() < stream.len() { "bytes-lost" } else { "bytes-altered" };
                acc.violate(i, format!("C20|adaptor|{cat}"), format!("{desc}: read {} of {} bytes ({}; {:?})", got.len(), stream.len(), hex(&got[..got.len().min(24)]), after.as_ref().err()), replay);
            } else if after != Ok(0) {
                acc.violate(i, "C20|adaptor|close-is-not-end-of-stream".into(), format!("{desc}: after the server closed, read returned {after:?}"), replay);
            } else {
                acc.class("byte-stream-intact");
                acc.nontrivial();
            }
        },
    }
}

pub fn run(tier: Tier, replay: Option<String>) -> i32 {
    let s = sites(tier);
    super::run_e1("C20", tier, "model_checking", replay, s,
        "schedule space enumerated exhaustively within bounds: all partitions of an 8/12-byte stream into binary messages x 8 caller read sizes; text / ping / empty-binary messages inserted at every boundary; messages above the 1020-byte adaptor buffer; connection level: frame sequences x message partitions compared with the TCP reference read loop; every kind written as one binary message. Every case runs on a fresh loopback WebSocket connection (tungstenite server inside the harness)",
        vec![
            "loopback TCP; every await carries a 2 s watchdog".into(),
            "per-frame expectation = the real codec on that frame alone".into(),
        ],
        |acc, extra| {
            let _ = extra.insert("states".into(), json!(acc.distinct_nontrivial()));
            let _ = extra.insert("transitions".into(), json!(acc.evals));
            let _ = extra.insert("traces_validated_against_impl".into(), json!(acc.evals));
        })
}
