//! C18 - the handshake carries exactly the configured connection options.
//! Explicit-state search over the real Builder (state reached by replaying a setter history),
//! plus connects against loopback listeners.

use std::{
    collections::BTreeMap,
    hash::{Hash, Hasher},
    io::Read,
    net::SocketAddr,
    sync::{atomic::{AtomicU64, Ordering}, Arc, Mutex},
    time::Duration,
};

use insim::{identifiers::RequestId, insim::{Isi, IsiFlags}, net::Codec, Builder, Packet};
use serde_json::json;
use stateright::{Checker, Model, Property};

use super::c02::mode_of;
use crate::report::{guard, h64, hex, Tier};

#[derive(Clone, Debug, PartialEq, Eq, Hash, serde::Serialize, serde::Deserialize)]
pub enum Set {
    Flag(u8, bool),
    Flags(u8),
    Prefix(u8),
    Interval(u8),
    IName(u8),
    Admin(u8),
    Reqi(u8),
    Tcp,
    UdpNone,
    /// udp with a local address: index into `udp_pairs()` (address families, ports whose bytes differ)
    UdpSome(u8),
    Compressed,
    Uncompressed,
    Relay,
    /// the options that must not change the ISI or the handshake: 0 relay_websocket(true) 1 connect_timeout
    /// 2 verify_version(false) 3 tcp_nodelay(false) 4 relay_select_host 5 relay_spectator_password
    /// 6 relay_admin_password 7 relay_websocket(false)
    Other(u8),
}

const FLAG_BITS: [u16; 10] = [5, 2, 3, 4, 6, 7, 8, 9, 10, 11]; // mci local mso_cols nlp con obh hlv axm_load axm_edit req_join
fn remote() -> SocketAddr { "127.0.0.1:29999".parse().unwrap() }
fn local() -> SocketAddr { "127.0.0.1:30001".parse().unwrap() }
/// (remote, local) pairs for `udp(remote, Some(local))`: the announced port is the local address's port
/// whatever the two address families are (an IPv6 wildcard socket talks to IPv4 peers as well).
fn udp_pairs() -> Vec<(SocketAddr, SocketAddr)> {
    let p = |s: &str| -> SocketAddr { s.parse().unwrap() };
    vec![
        (remote(), local()),
        (remote(), p("[::]:30002")),
        (p("[::1]:29999"), p("[::1]:30003")),
        (p("[::1]:29999"), p("0.0.0.0:513")),
        (remote(), p("127.0.0.1:65535")),
        (p("10.1.2.3:1"), p("192.168.0.9:256")),
        // a loopback local address towards a remote that is not (a relation between the two arguments)
        (p("192.168.1.5:29999"), p("127.0.0.1:30005")),
        (p("[2001:db8::1]:29999"), p("[::1]:30006")),
    ]
}

fn apply(b: Builder, s: &Set) -> Builder {
    match s {
        Set::Flag(i, on) => match i {
            0 => b.isi_flag_mci(*on),
            1 => b.isi_flag_local(*on),
            2 => b.isi_flag_mso_cols(*on),
            3 => b.isi_flag_nlp(*on),
            4 => b.isi_flag_con(*on),
            5 => b.isi_flag_obh(*on),
            6 => b.isi_flag_hlv(*on),
            7 => b.isi_flag_axm_load(*on),
            8 => b.isi_flag_axm_edit(*on),
            _ => b.isi_flag_req_join(*on),
        },
        Set::Flags(k) => b.isi_flags(match k { 0 => IsiFlags::empty(), 1 => IsiFlags::all(), 2 => IsiFlags::MCI | IsiFlags::CON, _ => IsiFlags::from_bits_retain(0xf003 | (1 << 4) | (1 << 5)) }),
        Set::Prefix(k) => b.isi_prefix(match k { 0 => None, _ => Some('!') }),
        Set::Interval(k) => b.isi_interval(match k { 0 => None, 1 => Some(Duration::ZERO), 2 => Some(Duration::from_secs(1)), 3 => Some(Duration::from_micros(500)), 4 => Some(Duration::from_nanos(1)), _ => Some(Duration::from_micros(16_667)) }),
        Set::IName(k) => b.isi_iname(match k { 0 => None, _ => Some("x".to_string()) }),
        Set::Admin(k) => b.isi_admin_password(match k { 0 => None, _ => Some("pw".to_string()) }),
        Set::Reqi(k) => b.isi_reqi(RequestId(*k)),
        Set::Tcp => b.tcp(remote()),
        Set::UdpNone => b.udp(remote(), None),
        Set::UdpSome(k) => { let (r, l) = udp_pairs()[*k as usize]; b.udp(r, Some(l)) },
        Set::Compressed => b.compressed(),
        Set::Uncompressed => b.uncompressed(),
        Set::Relay => b.relay(),
        Set::Other(k) => match k {
            0 => b.relay_websocket(true),
            1 => b.connect_timeout(Duration::from_secs(3)),
            2 => b.verify_version(false),
            3 => b.tcp_nodelay(false),
            4 => b.relay_select_host(Some("some host".to_string())),
            5 => b.relay_spectator_password(Some("spec".to_string())),
            6 => b.relay_admin_password(Some("adm".to_string())),
            _ => b.relay_websocket(false),
        },
    }
}

/// The boring reference builder: documented defaults, later calls override earlier ones.
#[derive(Clone, Debug, Default)]
struct Ref {
    flags: u16,
    prefix: Option<char>,
    interval: Option<Duration>,
    iname: Option<String>,
    admin: Option<String>,
    reqi: u8,
    proto: u8, // 0 tcp 1 udp 2 relay
    udp_local: Option<SocketAddr>,
}

fn ref_apply(r: &mut Ref, s: &Set) {
    match s {
        Set::Flag(i, on) => { let bit = 1u16 << FLAG_BITS[*i as usize]; if *on { r.flags |= bit } else { r.flags &= !bit } },
        Set::Flags(k) => r.flags = match k { 0 => 0, 1 => 0b1111_1111_1100, 2 => (1 << 5) | (1 << 6), _ => 0xf003 | (1 << 4) | (1 << 5) },
        Set::Prefix(k) => r.prefix = if *k == 0 { None } else { Some('!') },
        Set::Interval(k) => r.interval = match k { 0 => None, 1 => Some(Duration::ZERO), 2 => Some(Duration::from_secs(1)), 3 => Some(Duration::from_micros(500)), 4 => Some(Duration::from_nanos(1)), _ => Some(Duration::from_micros(16_667)) },
        Set::IName(k) => r.iname = if *k == 0 { None } else { Some("x".into()) },
        Set::Admin(k) => r.admin = if *k == 0 { None } else { Some("pw".into()) },
        Set::Reqi(k) => r.reqi = *k,
        Set::Tcp => r.proto = 0,
        Set::UdpNone => { r.proto = 1; r.udp_local = None },
        Set::UdpSome(k) => { r.proto = 1; r.udp_local = Some(udp_pairs()[*k as usize].1) },
        Set::Relay => r.proto = 2,
        Set::Compressed | Set::Uncompressed | Set::Other(_) => {},
    }
}

fn ref_isi(r: &Ref) -> String {
    let udpport = if r.proto == 1 { r.udp_local.map(|a| a.port()).unwrap_or(0) } else { 0 };
    isi_text(r.reqi, udpport, r.flags, 9, r.prefix.unwrap_or('\0'), r.interval.unwrap_or(Duration::ZERO), r.admin.as_deref().unwrap_or(""), r.iname.as_deref().unwrap_or("insim.rs"))
}

fn isi_text(reqi: u8, udpport: u16, flags: u16, version: u8, prefix: char, interval: Duration, admin: &str, iname: &str) -> String {
    format!("reqi={reqi} udpport={udpport} flags={flags:#06x} version={version} prefix={:?} interval={interval:?} admin={admin:?} iname={iname:?}", prefix)
}

fn real_isi(i: &Isi) -> String {
    isi_text(i.reqi.0, i.udpport, i.flags.bits(), i.version, i.prefix, i.interval, &i.admin, &i.iname)
}

fn alphabet(tier: Tier) -> Vec<Set> {
    let mut v = vec![];
    let nflags = if tier == Tier::Thorough { 10 } else { 5 };
    for i in 0..nflags {
        v.push(Set::Flag(i, true));
        v.push(Set::Flag(i, false));
    }
    // (the fourth value carries the six bits InSim leaves unnamed: a wholesale replacement keeps them, a flag helper touches its own bit only)
    for k in 0..4 { v.push(Set::Flags(k)); }
    for k in 0..2 { v.push(Set::Prefix(k)); }
    // (intervals below the field's resolution and with a remainder: the builder passes on what it was given, the codec floors)
    for k in 0..(if tier == Tier::Thorough { 6 } else { 4 }) { v.push(Set::Interval(k)); }
    for k in 0..2 { v.push(Set::IName(k)); }
    for k in 0..2 { v.push(Set::Admin(k)); }
    for k in [0u8, 1, 255] { v.push(Set::Reqi(k)); }
    v.extend([Set::Tcp, Set::UdpNone, Set::Compressed, Set::Uncompressed, Set::Relay]);
    // quick: same family, IPv6 wildcard towards IPv4, IPv4 local towards IPv6 with a port whose two bytes differ; thorough: all six
    for k in 0..udp_pairs().len() as u8 { if tier == Tier::Thorough || [0, 1, 3, 6].contains(&k) { v.push(Set::UdpSome(k)); } }
    v
}

#[derive(Clone, Debug)]
struct St { hist: Vec<u8>, canon: (u64, u64), bad: bool }
impl Hash for St { fn hash<H: Hasher>(&self, h: &mut H) { self.canon.hash(h); self.bad.hash(h); } }
impl PartialEq for St { fn eq(&self, o: &Self) -> bool { self.canon == o.canon && self.bad == o.bad } }

struct M {
    alpha: Arc<Vec<Set>>,
    found: Arc<Mutex<BTreeMap<String, (String, Vec<u8>)>>>,
    transitions: Arc<AtomicU64>,
    classes: Arc<Mutex<BTreeMap<String, u64>>>,
}

fn execute(alpha: &[Set], hist: &[u8]) -> (String, Result<String, String>, String) {
    // (debug rendering of the real builder, real isi or panic, reference isi)
    let mut b = Builder::default();
    let mut r = Ref::default();
    for a in hist {
        let s = &alpha[*a as usize];
        b = apply(b, s);
        ref_apply(&mut r, s);
    }
    let dbg = format!("{b:?}");
    let isi = guard(|| real_isi(&b.isi()));
    (dbg, isi, ref_isi(&r))
}

impl M {
    fn make(&self, hist: Vec<u8>) -> St {
        let _ = self.transitions.fetch_add(1, Ordering::Relaxed);
        let (dbg, isi, want) = execute(&self.alpha, &hist);
        let mut bad = false;
        let last = hist.last().map(|a| format!("{:?}", self.alpha[*a as usize])).unwrap_or_else(|| "default".into());
        let last_kind: String = last.chars().take_while(|c| c.is_alphabetic()).collect();
        let problem = match &isi {
            Err(p) => Some((format!("isi-panics|after-{last_kind}"), format!("Builder::isi() panicked: {p}"))),
            Ok(got) if *got != want => {
                // which field?
                let field = got.split(' ').zip(want.split(' ')).find(|(a, b)| a != b).map(|(a, _)| a.split('=').next().unwrap_or("?").to_string()).unwrap_or_default();
                Some((format!("isi-field-{field}"), format!("ISI is {got}, the configured options give {want}")))
            },
            _ => None,
        };
        if let Some((cat, detail)) = problem {
            bad = true;
            let sig = format!("C18|builder|{cat}");
            let mut f = self.found.lock().unwrap();
            if f.get(&sig).map(|o| o.1.len() > hist.len()).unwrap_or(true) {
                let calls: Vec<String> = hist.iter().map(|a| format!("{:?}", self.alpha[*a as usize])).collect();
                let _ = f.insert(sig, (format!("after setters {calls:?}: {detail}"), hist.clone()));
            }
        }
        {
            let mut c = self.classes.lock().unwrap();
            *c.entry(if bad { "violates".to_string() } else { format!("ok/after-{last_kind}") }).or_insert(0) += 1;
        }
        St { hist, canon: (h64(dbg.as_bytes()), h64(want.as_bytes())), bad }
    }
}

impl Model for M {
    type State = St;
    type Action = u8;
    fn init_states(&self) -> Vec<St> { vec![self.make(vec![])] }
    fn actions(&self, s: &St, out: &mut Vec<u8>) { if !s.bad { out.extend(0..self.alpha.len() as u8) } }
    fn next_state(&self, s: &St, a: u8) -> Option<St> { let mut h = s.hist.clone(); h.push(a); Some(self.make(h)) }
    fn properties(&self) -> Vec<Property<Self>> { vec![Property::<Self>::always("side table", |_, _| true)] }
}

// ---- connect part ---------------------------------------------------------------------------

fn isi_configs() -> Vec<(&'static str, Vec<Set>)> {
    vec![
        ("default", vec![]),
        ("flags+interval", vec![Set::Flags(2), Set::Interval(2)]),
        ("flags+sub-millisecond-interval", vec![Set::Flags(2), Set::Interval(3)]),
        ("prefix", vec![Set::Prefix(1)]),
        ("iname+admin", vec![Set::IName(1), Set::Admin(1)]),
        ("reqi255", vec![Set::Reqi(255)]),
        ("all-flags", vec![Set::Flags(1), Set::Flag(0, false)]),
        // the builder was a relay builder before it became a direct one
        ("was-relay", vec![Set::Relay]),
        ("was-relay+flags", vec![Set::Flag(3, true), Set::Relay, Set::Flag(0, true)]),
        // every option that has nothing to do with the ISI, alone and together, on a plain and on a former relay builder
        ("other-options", (0..8).map(Set::Other).collect()),
        ("relay-options", vec![Set::Other(4), Set::Other(5), Set::Other(6)]),
        ("was-relay+relay-options", vec![Set::Relay, Set::Other(4), Set::Other(5), Set::Other(6), Set::Other(0)]),
        ("relay-host", vec![Set::Other(4)]),
    ]
}

fn free_udp_addr() -> SocketAddr {
    let s = std::net::UdpSocket::bind("127.0.0.1:0").unwrap();
    s.local_addr().unwrap()
}
fn free_udp_addr_on(ip: &str) -> Result<SocketAddr, String> {
    let s = std::net::UdpSocket::bind(format!("{ip}:0")).map_err(|e| e.to_string())?;
    s.local_addr().map_err(|e| e.to_string())
}
/// Does this host carry a datagram from an IPv6 wildcard socket to an IPv4 loopback peer, and between
/// two IPv6 loopback sockets?  (Asked of the operating system with plain std sockets, before the
/// library is involved: where the answer is no, those connects are left out and the evidence says so.)
fn v6_usable() -> (bool, bool) {
    let try_pair = |from: &str, to: &str| -> bool {
        let (Ok(a), Ok(b)) = (std::net::UdpSocket::bind(from), std::net::UdpSocket::bind(to)) else { return false };
        let _ = b.set_read_timeout(Some(Duration::from_millis(500)));
        let Ok(dst) = b.local_addr() else { return false };
        if a.connect(dst).is_err() || a.send(b"probe").is_err() { return false; }
        let mut buf = [0u8; 16];
        matches!(b.recv(&mut buf), Ok(5))
    };
    (try_pair("[::]:0", "127.0.0.1:0"), try_pair("[::1]:0", "[::1]:0"))
}

fn connect_case(transport: u8, compressed: bool, tokio_impl: bool, sets: &[Set], mode_first: bool) -> Result<(Vec<Vec<u8>>, Vec<u8>), String> {
    // returns (what the peer received: tcp = [all bytes until EOF], udp = datagrams; expected frame)
    let mut b = Builder::default();
    // the size mode is chosen before or after the other options: the last choice stands either way
    if mode_first { b = if compressed { b.compressed() } else { b.uncompressed() }; }
    for s in sets { b = apply(b, s); }
    if !mode_first { b = if compressed { b.compressed() } else { b.uncompressed() }; }
    b = b.connect_timeout(Duration::from_secs(2));
    let codec = Codec::new(mode_of(compressed));
    match transport {
        0 => {
            let l = std::net::TcpListener::bind("127.0.0.1:0").map_err(|e| e.to_string())?;
            b = b.tcp(l.local_addr().unwrap());
            let want = codec.encode(&Packet::Isi(b.isi())).map_err(|e| e.to_string())?.to_vec();
            if tokio_impl {
                let rt = tokio::runtime::Builder::new_current_thread().enable_io().enable_time().build().unwrap();
                let conn = rt.block_on(async { tokio::time::timeout(Duration::from_secs(2), b.connect_async()).await }).map_err(|_| "connect_async timed out".to_string())?.map_err(|e| e.to_string())?;
                let (mut s, _) = l.accept().map_err(|e| e.to_string())?;
                drop(conn);
                drop(rt);
                s.set_read_timeout(Some(Duration::from_secs(2))).unwrap();
                let mut got = vec![];
                let _ = s.read_to_end(&mut got).map_err(|e| e.to_string())?;
                Ok((vec![got], want))
            } else {
                let conn = b.connect_blocking().map_err(|e| e.to_string())?;
                let (mut s, _) = l.accept().map_err(|e| e.to_string())?;
                drop(conn);
                s.set_read_timeout(Some(Duration::from_secs(2))).unwrap();
                let mut got = vec![];
                let _ = s.read_to_end(&mut got).map_err(|e| e.to_string())?;
                Ok((vec![got], want))
            }
        },
        _ => {
            let peer = std::net::UdpSocket::bind(if transport == 4 { "[::1]:0" } else { "127.0.0.1:0" }).map_err(|e| e.to_string())?;
            peer.set_read_timeout(Some(Duration::from_secs(2))).unwrap();
            let mut want_isi;
            if transport == 1 {
                b = b.udp(peer.local_addr().unwrap(), None);
                // no local address: LFS answers to the source port, UDPPort stays 0
                let mut r = Builder::default();
                for s in sets { r = apply(r, s); }
                want_isi = r.isi();
                want_isi.udpport = 0;
            } else {
                // (5: the local port NUMBER equals the remote's, on another loopback address)
                let la = match transport { 2 => free_udp_addr(), 3 => free_udp_addr_on("[::]")?, 5 => std::net::SocketAddr::from(([127, 0, 0, 2], peer.local_addr().unwrap().port())), _ => free_udp_addr_on("[::1]")? };
                b = b.udp(peer.local_addr().unwrap(), Some(la));
                let mut r = Builder::default();
                for s in sets { r = apply(r, s); }
                want_isi = r.isi();
                want_isi.udpport = la.port();
            }
            let want = codec.encode(&Packet::Isi(want_isi)).map_err(|e| e.to_string())?.to_vec();
            let _conn_keepalive;
            if tokio_impl {
                let rt = tokio::runtime::Builder::new_current_thread().enable_io().enable_time().build().unwrap();
                let conn = rt.block_on(async { tokio::time::timeout(Duration::from_secs(2), b.connect_async()).await }).map_err(|_| "connect_async timed out".to_string())?.map_err(|e| e.to_string())?;
                _conn_keepalive = Some((None, Some((conn, rt))));
            } else {
                let conn = b.connect_blocking().map_err(|e| e.to_string())?;
                _conn_keepalive = Some((Some(conn), None));
            }
            let mut out = vec![];
            let mut buf = [0u8; 2048];
            let n = peer.recv(&mut buf).map_err(|e| format!("no datagram arrived: {e}"))?;
            out.push(buf[..n].to_vec());
            peer.set_read_timeout(Some(Duration::from_millis(20))).unwrap();
            while let Ok(n) = peer.recv(&mut buf) {
                out.push(buf[..n].to_vec());
                if out.len() > 3 { break; }
            }
            Ok((out, want))
        },
    }
}

pub fn run(tier: Tier, replay: Option<String>) -> i32 {
    let alpha = Arc::new(alphabet(tier));
    if let Some(path) = replay {
        let v = super::replay_value(&path);
        if let Some(h) = v.get("history") {
            let hist: Vec<u8> = serde_json::from_value(h.clone()).unwrap_or_default();
            let a = execute(&alpha, &hist);
            let b = execute(&alpha, &hist);
            if a.1 != b.1 { eprintln!("MACHINERY: replay not deterministic"); return 4; }
            println!("replay: real {:?}\n        want {}", a.1, a.2);
            return if a.1.as_deref() == Ok(a.2.as_str()) { 0 } else { 1 };
        }
        println!("replay: connect cases are re-run by the check itself");
        return 0;
    }
    let started = std::time::Instant::now();
    let mut runs = vec![];
    for threads in [16usize, 7] {
        let m = M { alpha: alpha.clone(), found: Arc::new(Mutex::new(BTreeMap::new())), transitions: Arc::new(AtomicU64::new(0)), classes: Arc::new(Mutex::new(BTreeMap::new())) };
        let (found, trans, classes) = (m.found.clone(), m.transitions.clone(), m.classes.clone());
        let ch = m.checker().threads(threads).spawn_bfs().join();
        runs.push((ch.unique_state_count() as u64, trans.load(Ordering::Relaxed), ch.max_depth() as u64, found.lock().unwrap().clone(), classes.lock().unwrap().clone()));
        if tier == Tier::Thorough { break; }
    }
    if runs.len() == 2 && runs[0].0 != runs[1].0 && runs[0].3.is_empty() {
        eprintln!("MACHINERY: unique state count differs between runs ({} vs {})", runs[0].0, runs[1].0);
        return 4;
    }
    let (states, transitions, depth, found, classes) = runs.remove(0);
    let mut acc = crate::report::Acc::new();
    acc.evals = transitions;
    acc.nontrivial = states;
    acc.classes = classes;
    for (sig, (detail, hist)) in &found {
        acc.violate(hist.len() as u64, sig.clone(), detail.clone(), json!({"engine": "E2-builder", "history": hist}));
    }
    // connect part
    let mut connects = 0u64;
    let (dual_stack, v6_loopback) = v6_usable();
    // can this host bind 127.0.0.2 (any address of 127/8 is loopback on Linux)?
    let second_loopback = std::net::UdpSocket::bind("127.0.0.2:0").is_ok();
    for transport in 0..6u8 {
        if (transport == 3 && !dual_stack) || (transport == 4 && !v6_loopback) || (transport == 5 && !second_loopback) { continue; }
        for compressed in [true, false] {
            for tokio_impl in [false, true] {
                for (cname, sets) in isi_configs() {
                  for mode_first in [false, true] {
                    connects += 1;
                    acc.eval();
                    let tname = ["tcp", "udp-without-local-address", "udp-with-local-address", "udp-with-ipv6-wildcard-local-address-to-ipv4-peer", "udp-ipv6-loopback-both-ends", "udp-local-port-number-equals-the-remote-port"][transport as usize];
                    let label = format!("{tname} {} {} isi={cname} mode chosen {}", if compressed { "compressed" } else { "uncompressed" }, if tokio_impl { "connect_async" } else { "connect_blocking" }, if mode_first { "first" } else { "last" });
                    let replay = json!({"site": "connect", "case": label});
                    match guard(|| connect_case(transport, compressed, tokio_impl, &sets, mode_first)) {
                        Err(p) => acc.violate(0, format!("C18|connect|{tname}|{}|panic", if tokio_impl { "tokio" } else { "blocking" }), format!("{label}: panicked: {p}"), replay),
                        Ok(Err(e)) => acc.violate(0, format!("C18|connect|{tname}|{}|failed", if tokio_impl { "tokio" } else { "blocking" }), format!("{label}: {e}"), replay),
                        Ok(Ok((got, want))) => {
                            if got.len() == 1 && got[0] == want { acc.class("isi-first-and-only-frame"); acc.nontrivial(); }
                            else { acc.violate(0, format!("C18|connect|{tname}|{}|peer-received-other-bytes", if tokio_impl { "tokio" } else { "blocking" }), format!("{label}: peer received {:?} where the handshake is exactly {}", got.iter().map(|g| hex(g)).collect::<Vec<_>>(), hex(&want)), replay); }
                        },
                    }
                  }
                }
            }
        }
    }
    // every subset of the eight options that have nothing to do with the ISI, on three base builders
    for base in 0..3u8 {
        for mask in 0..256u32 {
            acc.eval();
            let mut sets: Vec<Set> = match base { 0 => vec![], 1 => vec![Set::Flags(2), Set::Prefix(1), Set::Reqi(255)], _ => vec![Set::Relay, Set::IName(1)] };
            for k in 0..8u8 { if mask & (1 << k) != 0 { sets.push(Set::Other(k)); } }
            let mut b = Builder::default();
            let mut r = Ref::default();
            for s in &sets { b = apply(b, s); ref_apply(&mut r, s); }
            let replay = json!({"site": "other-options", "base": base, "mask": mask});
            match guard(|| real_isi(&b.isi())) {
                Err(p) => acc.violate(mask as u64, "C18|builder|isi-panics|other-options".into(), format!("options {mask:#010b} on base {base}: {p}"), replay),
                Ok(got) if got == ref_isi(&r) => { acc.class("other-options-leave-the-isi-alone"); acc.nontrivial(); },
                Ok(got) => acc.violate(mask as u64, "C18|builder|isi-changed-by-unrelated-option".into(), format!("options {mask:#010b} on base {base}: ISI is {got}, the configured options give {}", ref_isi(&r)), replay),
            }
        }
    }
    // text arguments: names and passwords of every length 0..=40, with a 2-, 3- or 4-byte character at
    // every offset, carets and page switches at the cut - isi() must not panic and must encode to the
    // frame of an ISI carrying exactly that text (the text field rule itself is C11's)
    let mut texts: Vec<String> = vec![];
    for n in 0..=40usize {
        texts.push("a".repeat(n));
    }
    for wide in ["\u{e9}", "\u{65e5}", "\u{1f600}", "\u{448}", "^"] {
        for off in 0..=20usize {
            texts.push(format!("{}{wide}{}", "a".repeat(off), "b".repeat(3)));
            texts.push(format!("{}{wide}{wide}", "a".repeat(off)));
        }
    }
    // ... and every string of the text generator for a 16-byte field (lengths 0..=32 in ten families incl. runs of
    // characters of no code page - 4 bytes of UTF-8 for one '?' on the wire -, and texts of 2^8 .. 2^17 characters)
    for (_, s) in crate::textgen::strings(16) { if !texts.contains(&s) { texts.push(s); } }
    let mut text_cases = 0u64;
    for which in 0..2u8 {
        for t in &texts {
            for base in 0..2u8 {
                text_cases += 1;
                acc.eval();
                let mut b = Builder::default();
                if base == 1 { b = b.udp(remote(), Some(local())).isi_flag_mci(true).isi_prefix(Some('!')); }
                b = if which == 0 { b.isi_admin_password(Some(t.clone())) } else { b.isi_iname(Some(t.clone())) };
                let replay = json!({"site": "text-arguments", "field": if which == 0 { "admin" } else { "iname" }, "text": t});
                let got = guard(|| {
                    let isi = b.isi();
                    let mut want = isi.clone();
                    if which == 0 { want.admin = t.clone(); } else { want.iname = t.clone(); }
                    let codec = Codec::new(mode_of(false));
                    (codec.encode(&Packet::Isi(isi)).map(|x| x.to_vec()).map_err(|e| e.to_string()), codec.encode(&Packet::Isi(want)).map(|x| x.to_vec()).map_err(|e| e.to_string()))
                });
                match got {
                    Err(p) => acc.violate(text_cases, format!("C18|builder|isi-panics|text-{}", if which == 0 { "admin" } else { "iname" }), format!("{} = {t:?}: isi() or its encoding panicked: {p}", if which == 0 { "admin password" } else { "name" }), replay),
                    Ok((a, w)) if a == w => { acc.class("text-argument-carried"); acc.nontrivial(); },
                    Ok((a, w)) => acc.violate(text_cases, format!("C18|builder|isi-text-{}", if which == 0 { "admin" } else { "iname" }), format!("{t:?}: ISI frame {:?} where an ISI carrying that text encodes to {:?}", a.map(|x| hex(&x)), w.map(|x| hex(&x))), replay),
                }
            }
        }
    }
    acc.samples.push(json!({"history": ["Flag(0, true)", "UdpSome(0)", "Tcp", "Reqi(255)"], "note": "udp_local_address survives a later tcp()"}));
    let mut extra = serde_json::Map::new();
    let _ = extra.insert("states".into(), json!(states));
    let _ = extra.insert("transitions".into(), json!(transitions));
    let _ = extra.insert("traces_validated_against_impl".into(), json!(transitions));
    let _ = extra.insert("max_depth".into(), json!(depth));
    let _ = extra.insert("alphabet".into(), json!(alpha.len()));
    let _ = extra.insert("connect_cases".into(), json!(connects));
    let _ = extra.insert("host_carries_ipv6_wildcard_to_ipv4".into(), json!(dual_stack));
    let _ = extra.insert("host_carries_ipv6_loopback".into(), json!(v6_loopback));
    crate::report::finish(crate::report::Outcome {
        property: "C18".into(), tier, level: "model_checking", acc,
        rule: format!("all builder states reachable with a {}-setter alphabet ({} flag helpers on/off, wholesale flags x4 (one with the unnamed bits set), prefix x2, interval x4 (quick) / x6 (thorough; sub-millisecond ones among them), iname x2, admin x2, reqi x3, tcp, udp without a local address and with 4 (quick) / 8 (thorough) (remote, local) address pairs across both address families, compressed, uncompressed, relay); every transition replays the setter history on a fresh Builder and compares isi() with a reference builder; plus {connects} connects (tcp / udp without / with local address - IPv4, IPv6 wildcard towards an IPv4 peer, IPv6 loopback where the host carries them, a local port number equal to the remote's - x mode x blocking/tokio x 12 ISI configurations incl. a builder that was a relay builder before and every option unrelated to the ISI x size mode chosen first / last); every subset of the 8 unrelated options on 3 base builders against loopback peers; plus names and passwords of every length 0..=40, with multi-byte characters / carets at every offset 0..=20, and every string of the text generator for a 16-byte field (ten families, lengths 0..=32, characters of no code page, texts of 2^8..2^17 characters)", alpha.len(), if tier == Tier::Thorough { 10 } else { 5 }),
        exhaustive: true, extra,
        assumptions: vec!["state key = Debug rendering of the real Builder + the reference ISI".into(), "UDP without a local address is expected to announce UDPPort 0 (LFS then replies to the source port)".into()],
        started,
    })
}
