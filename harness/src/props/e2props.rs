//! C05, C06, C07, C09, C19 - explicit-state search over the real connection objects.

use std::sync::Arc;

use insim::{identifiers::RequestId, insim::*, net::Codec, Packet};
use serde_json::json;

use super::c02::mode_of;
use crate::{
    e2::{self, judge::judge, Chunks, Impl, Instance, Program},
    gen::baseline,
    report::Tier,
    spec,
};

pub fn sz(compressed: bool, len: usize) -> u8 {
    if compressed { (len / 4) as u8 } else { len as u8 }
}

pub fn f_keepalive(c: bool) -> Vec<u8> { vec![sz(c, 4), 3, 0, 0] }
pub fn f_tiny(c: bool, reqi: u8, subt: u8) -> Vec<u8> { vec![sz(c, 4), 3, reqi, subt] }
pub fn f_small(c: bool) -> Vec<u8> { vec![sz(c, 8), 4, 1, 0, 0, 0, 0, 0] }
pub fn f_unknown(c: bool) -> Vec<u8> { vec![sz(c, 4), 200, 0, 0] }
pub fn f_badcim(c: bool) -> Vec<u8> { vec![sz(c, 8), 64, 0, 0, 9, 0, 0, 0] }
pub fn f_mso(c: bool) -> Vec<u8> { vec![sz(c, 12), 11, 0, 0, 0, 0, 0, 0, b'h', b'i', 0, 0] }
/// frames whose packet parser wants more bytes than the frame announces: the result must not
/// depend on what happens to be buffered behind them
pub fn f_short_small(c: bool) -> Vec<u8> { vec![sz(c, 4), 4, 9, 1] }
pub fn f_mso_no_nul(c: bool) -> Vec<u8> { vec![sz(c, 12), 11, 0, 0, 0, 0, 0, 0, b'a', b'b', b'c', b'd'] }
pub fn f_mci_overcount(c: bool) -> Vec<u8> {
    let mut v = vec![sz(c, 32), 38, 0, 3];
    for i in 0..28 { v.push(i as u8 + 1); }
    v
}
pub fn f_big(c: bool, len: usize, ty: u8) -> Vec<u8> {
    let mut v = vec![sz(c, len), ty, 7, 0];
    for i in 4..len { v.push((i % 251) as u8); }
    v
}
pub fn f_mci(c: bool, n: usize) -> Vec<u8> {
    let len = 4 + 28 * n;
    let mut v = vec![sz(c, len), 38, 0, n as u8];
    for i in 0..(28 * n) { v.push((i % 13) as u8); }
    v
}
pub fn f_ver(c: bool, insimver: u8) -> Vec<u8> { f_ver_r(c, insimver, 1) }
/// ... with any request id (0 = unsolicited, n = the answer to somebody's request)
pub fn f_ver_r(c: bool, insimver: u8, reqi: u8) -> Vec<u8> {
    let mut v = vec![sz(c, 20), 2, reqi, 0];
    v.extend_from_slice(b"0.7F\0\0\0\0");
    v.extend_from_slice(b"S3\0\0\0\0");
    v.push(insimver);
    v.push(0);
    v
}

fn sequences<T: Clone>(alpha: &[T], maxlen: usize) -> Vec<Vec<T>> {
    let mut out: Vec<Vec<T>> = vec![];
    let mut cur: Vec<Vec<T>> = vec![vec![]];
    for _ in 0..maxlen {
        let mut next = vec![];
        for s in &cur {
            for a in alpha {
                let mut t = s.clone();
                t.push(a.clone());
                next.push(t);
            }
        }
        out.extend(next.iter().cloned());
        cur = next;
    }
    out
}

fn finish(property: &str, tier: Tier, replay: Option<String>, instances: Vec<Instance>, rule: &str, assumptions: Vec<String>) -> i32 {
    finish_with(property, tier, replay, instances, rule, assumptions, vec![])
}

fn finish_with(property: &str, tier: Tier, replay: Option<String>, instances: Vec<Instance>, rule: &str, assumptions: Vec<String>, extra: Vec<(&str, serde_json::Value)>) -> i32 {
    let j: Arc<e2::Judge> = Arc::new(judge);
    if let Some(path) = replay {
        return e2::replay_file(&path, &instances, &*j);
    }
    let started = std::time::Instant::now();
    e2::start_hang_watchdog(property, tier, 60);
    let e = e2::explore(property, instances.clone(), j);
    e2::finish_e2(property, tier, e, &instances, rule, assumptions, started, extra)
}

// ---------------------------------------------------------------------------------------------

pub fn c05_instances(tier: Tier) -> Vec<Instance> {
    let mut out = vec![];
    let thorough = tier == Tier::Thorough;
    for c in [true, false] {
        let mut alpha: Vec<(&str, Vec<u8>)> = vec![
            ("ka", f_keepalive(c)), ("ping", f_tiny(c, 0, 3)), ("small", f_small(c)),
            ("unk", f_unknown(c)), ("badcim", f_badcim(c)), ("mso", f_mso(c)),
            ("shortsmall", f_short_small(c)), ("msononul", f_mso_no_nul(c)),
        ];
        if thorough {
            alpha.push(("mciover", f_mci_overcount(c)));
            alpha.push(("big252", f_big(c, 252, 200)));
            if c { alpha.push(("big1020", f_big(c, 1020, 201))); }
        }
        for seq in sequences(&alpha, if thorough { 4 } else { 3 }) {
            let label: Vec<&str> = seq.iter().map(|x| x.0).collect();
            let frames: Vec<Vec<u8>> = seq.iter().map(|x| x.1.clone()).collect();
            let total: usize = frames.iter().map(|f| f.len()).sum();
            for imp in [Impl::Blocking, Impl::Tokio] {
                let mut i = Instance::new(&format!("short#{}#{}#{}", if c { "compressed" } else { "uncompressed" }, label.join("+"), imp_name(imp)), imp, c, frames.clone());
                i.chunks = if total <= 48 { Chunks::All } else { Chunks::Boundary };
                i.fail_budget = if thorough { 2 } else { 1 };
                i.fail_kinds = if total <= 16 { vec![0, 1, 2, 3] } else { vec![0, 3] };
                // the clock is an input of the async read (90 s timeout): 30 s steps, never 90 s in a row
                // three steps in a row reach the 90 s read timeout: Err(Timeout), and nothing buffered is lost
                // (single frames and pairs over {keep-alive, SMALL, unknown}; one step for the other pairs)
                let to = seq.len() == 1 || (seq.len() == 2 && label.iter().all(|l| matches!(*l, "ka" | "small" | "unk")));
                i.tick_budget = if imp == Impl::Tokio && seq.len() <= 2 { if to { 3 } else { 1 } } else { 0 };
                i.allow_timeout = to;
                i.storm_budget = if seq.len() <= 2 { 1 } else { 0 };
                // the transport's coding style is not the connection's business: one that initialises the whole buffer it
                // is handed before it reads into it (TLS streams, std::io bridges) - pairs of frames, every partition
                if imp == Impl::Tokio && seq.len() <= 2 {
                    let mut v = i.clone();
                    v.label = format!("{}#init-unfilled", i.label);
                    v.init_unfilled = true;
                    v.tick_budget = 0;
                    v.storm_budget = 0;
                    out.push(v);
                }
                out.push(i);
            }
        }
        // sessions longer than the 6120-byte receive buffer: the spare capacity shrinks to 0 and the
        // allocation is reclaimed with frames straddling the reclaim
        let long: Vec<Vec<u8>> = if c {
            let n = if thorough { 16 } else { 9 };
            (0..n).map(|i| if i % 2 == 0 { f_big(c, 1020, 200) } else { f_mci(c, 36) }).collect()
        } else {
            let n = if thorough { 64 } else { 30 };
            (0..n).map(|i| if i % 3 == 0 { f_big(c, 252, 200) } else if i % 3 == 1 { f_mci(c, 8) } else { f_keepalive(c) }).collect()
        };
        // frames LONGER than their packet needs (padding behind a keep-alive and behind a SMALL): what a
        // frame announces, not what its parser consumes, decides where the next one starts
        {
            let pad_ka = { let mut v = vec![sz(c, 8), 3, 0, 0]; v.extend_from_slice(&[0; 4]); v };
            let pad_small = { let mut v = f_small(c); v[0] = sz(c, 12); v.extend_from_slice(&[0; 4]); v };
            let alpha2: Vec<(&str, Vec<u8>)> = vec![("padka", pad_ka), ("padsmall", pad_small), ("ping", f_tiny(c, 0, 3)), ("unk", f_unknown(c))];
            for seq in sequences(&alpha2, 3) {
                if !seq.iter().any(|x| x.0.starts_with("pad")) { continue; }
                let label: Vec<&str> = seq.iter().map(|x| x.0).collect();
                let frames: Vec<Vec<u8>> = seq.iter().map(|x| x.1.clone()).collect();
                for imp in [Impl::Blocking, Impl::Tokio] {
                    let mut i = Instance::new(&format!("padded#{}#{}#{}", if c { "compressed" } else { "uncompressed" }, label.join("+"), imp_name(imp)), imp, c, frames.clone());
                    i.chunks = Chunks::All;
                    i.fail_budget = 1;
                    i.fail_kinds = vec![0];
                    out.push(i);
                }
            }
        }
        // every alignment of a frame boundary with the last byte of the receive allocation: a repeating
        // pattern of all short frame kinds (decodable, undecodable, over-running, keep-alive, one
        // 252-byte undecodable frame), shifted by k leading 4-byte frames, delivered as much at a time
        // as the connection will take - the first read fills the 6120-byte buffer to its last byte
        let pattern: Vec<Vec<u8>> = vec![
            f_unknown(c), f_keepalive(c), f_small(c), f_badcim(c), f_mso(c), f_short_small(c),
            f_tiny(c, 0, 3), f_mso_no_nul(c), f_mci_overcount(c), f_big(c, 252, 200),
        ];
        let plen: usize = pattern.iter().map(|f| f.len()).sum();
        for shift in 0..(plen / 4) {
            let mut frames: Vec<Vec<u8>> = (0..shift).map(|j| f_tiny(c, (j % 200) as u8 + 1, 3)).collect();
            let mut total = shift * 4;
            'fill: loop {
                for f in &pattern {
                    frames.push(f.clone());
                    total += f.len();
                    if total > 13_500 { break 'fill; }
                }
            }
            for imp in [Impl::Blocking, Impl::Tokio] {
                let mut i = Instance::new(&format!("aligned#{}#shift{}#{}", if c { "compressed" } else { "uncompressed" }, shift, imp_name(imp)), imp, c, frames.clone());
                i.chunks = Chunks::Fill(thorough && shift % 8 == 0);
                i.fail_budget = 1;
                i.fail_kinds = vec![0];
                out.push(i);
            }
        }
        for imp in [Impl::Blocking, Impl::Tokio] {
            let mut i = Instance::new(&format!("long#{}#{}", if c { "compressed" } else { "uncompressed" }, imp_name(imp)), imp, c, long.clone());
            i.chunks = Chunks::Boundary;
            i.fail_budget = 1;
            i.fail_kinds = vec![0];
            out.push(i);
        }
    }
    out
}

fn imp_name(i: Impl) -> &'static str {
    match i { Impl::Blocking => "blocking", Impl::Tokio => "tokio" }
}

fn long_session_violation(case: &super::longsession::Case, what: &str) -> i32 {
    let path = format!("/verif/replays/C05/long-session-{}.json", case.label().replace('#', "-"));
    println!("VIOLATION property=C05 replay={path}");
    println!("  signature: C05|long-session|{}", case.label());
    println!("  witness:   one connection fed a repeating stream of whole frames, {}: {what}", case.label());
    let _ = std::fs::create_dir_all("/verif/replays/C05");
    let _ = std::fs::write(&path, json!({"property": "C05", "site": "long-session", "tokio": case.tokio, "compressed": case.compressed, "cap": case.cap, "min_bytes": case.min_bytes, "exact": case.exact}).to_string());
    1
}

pub fn c05(tier: Tier, replay: Option<String>) -> i32 {
    use rayon::prelude::*;
    use super::longsession as ls;
    if let Some(path) = &replay {
        if let Ok(v) = std::fs::read_to_string(path).map_err(|e| e.to_string()).and_then(|s| serde_json::from_str::<serde_json::Value>(&s).map_err(|e| e.to_string())) {
            if v["site"] == "scripted-reads" {
                let sr = ls::scripted_read_cases();
                let Some(c) = sr.get(v["index"].as_u64().unwrap_or(0) as usize) else { return 4 };
                return match crate::report::guard(|| ls::run_scripted_reads(c)) {
                    Ok(Ok(())) => { println!("replay: {} - held", c.label()); 0 },
                    Ok(Err(e)) if e.starts_with("MACHINERY") => { eprintln!("{e}"); 4 },
                    Ok(Err(e)) => { println!("VIOLATION property=C05 replay={path}\n  witness: {}: {e}", c.label()); 1 },
                    Err(p) => { println!("VIOLATION property=C05 replay={path}\n  witness: {}: panicked: {p}", c.label()); 1 },
                };
            }
            if v["site"] == "builder-tcp" {
                let case = ls::TcpCase { tokio: v["tokio"].as_bool().unwrap_or(false), compressed: v["compressed"].as_bool().unwrap_or(true), nodelay: v["nodelay"].as_bool().unwrap_or(true), chunk: v["chunk"].as_u64().unwrap_or(0) as usize };
                return match crate::report::guard(|| ls::run_tcp(&case)) {
                    Ok(Ok(())) => { println!("replay: {} - held", case.label()); 0 },
                    Ok(Err(e)) if e.starts_with("harness") => { eprintln!("MACHINERY: {e}"); 4 },
                    Ok(Err(e)) => { println!("VIOLATION property=C05 replay={path}\n  witness: {}: {e}", case.label()); 1 },
                    Err(p) => { println!("VIOLATION property=C05 replay={path}\n  witness: {}: panicked: {p}", case.label()); 1 },
                };
            }
            if v["site"] == "long-session" {
                let case = ls::Case { tokio: v["tokio"].as_bool().unwrap_or(false), compressed: v["compressed"].as_bool().unwrap_or(true), cap: v["cap"].as_u64().unwrap_or(0) as usize, min_bytes: v["min_bytes"].as_u64().unwrap_or(0), exact: v["exact"].as_u64() };
                return match crate::report::guard(|| ls::run(&case)) {
                    Ok(Ok(n)) => { println!("replay: {} frames received in order, then Disconnected - held", n); 0 },
                    Ok(Err(e)) if e.starts_with("MACHINERY") => { eprintln!("{e}"); 4 },
                    Ok(Err(e)) => long_session_violation(&case, &e),
                    Err(p) => long_session_violation(&case, &format!("read panicked: {p}")),
                };
            }
        }
    }
    let long = std::time::Instant::now();
    let cases = ls::cases(tier == Tier::Thorough);
    let mut long_frames = 0u64;
    if replay.is_none() {
        let results: Vec<Result<Result<u64, String>, String>> = cases.par_iter().map(|c| crate::report::guard(|| ls::run(c))).collect();
        for (c, r) in cases.iter().zip(results) {
            match r {
                Ok(Ok(n)) => long_frames += n,
                Ok(Err(e)) if e.starts_with("MACHINERY") => { eprintln!("{e}"); return 4; },
                Ok(Err(e)) => return long_session_violation(c, &e),
                Err(p) => return long_session_violation(c, &format!("read panicked: {p}")),
            }
        }
        eprintln!("C05 long-session: {} connections, {} frames, {:.1}s", cases.len(), long_frames, long.elapsed().as_secs_f64());
    }
    // connections made by the public Builder over loopback TCP (each on its own thread, given up on after 12 s:
    // a blocking connection made by the builder waits 90 s for bytes that never come)
    let tcp = ls::tcp_cases();
    if replay.is_none() {
        let results: Vec<Option<Result<Result<(), String>, String>>> = tcp.par_iter().map(|c| {
            let (tx, rx) = std::sync::mpsc::channel();
            let c2 = ls::TcpCase { tokio: c.tokio, compressed: c.compressed, nodelay: c.nodelay, chunk: c.chunk };
            let _ = std::thread::spawn(move || { let _ = tx.send(crate::report::guard(|| ls::run_tcp(&c2))); });
            rx.recv_timeout(std::time::Duration::from_secs(12)).ok()
        }).collect();
        for (c, r) in tcp.iter().zip(results) {
            let what = match r {
                Some(Ok(Ok(()))) => continue,
                Some(Ok(Err(e))) if e.starts_with("harness") => { eprintln!("MACHINERY: {}: {e}", c.label()); return 4; },
                Some(Ok(Err(e))) => e,
                Some(Err(p)) => format!("panicked: {p}"),
                None => "the session did not finish within 12 s".to_string(),
            };
            let path = format!("/verif/replays/C05/{}.json", c.label().replace('#', "-"));
            println!("VIOLATION property=C05 replay={path}");
            println!("  signature: C05|builder-tcp|{}", if c.tokio { "tokio" } else { "blocking" });
            println!("  witness:   {}: {what}", c.label());
            let _ = std::fs::create_dir_all("/verif/replays/C05");
            let _ = std::fs::write(&path, json!({"property": "C05", "site": "builder-tcp", "tokio": c.tokio, "compressed": c.compressed, "nodelay": c.nodelay, "chunk": c.chunk}).to_string());
            return 1;
        }
    }
    // scripted reads: the first four reads deliver a scripted number of bytes each (a reader that learns is seen)
    let sr = ls::scripted_read_cases();
    if replay.is_none() {
        let results: Vec<Result<Result<(), String>, String>> = sr.par_iter().map(|c| crate::report::guard(|| ls::run_scripted_reads(c))).collect();
        for (idx, (c, r)) in sr.iter().zip(results).enumerate() {
            let what = match r { Ok(Ok(())) => continue, Ok(Err(e)) if e.starts_with("MACHINERY") => { eprintln!("{e}"); return 4; }, Ok(Err(e)) => e, Err(p) => format!("panicked: {p}") };
            let path = format!("/verif/replays/C05/scripted-reads-{idx}.json");
            println!("VIOLATION property=C05 replay={path}");
            println!("  signature: C05|scripted-reads|{}", if c.tokio { "tokio" } else { "blocking" });
            println!("  witness:   {}: {what}", c.label());
            let _ = std::fs::create_dir_all("/verif/replays/C05");
            let _ = std::fs::write(&path, json!({"property": "C05", "site": "scripted-reads", "index": idx, "case": c.label()}).to_string());
            return 1;
        }
    }
    let labels: Vec<String> = cases.iter().map(|c| c.label()).collect();
    let tcp_labels = tcp.len();
    finish_with("C05", tier, replay, c05_instances(tier),
        "instances = (mode, implementation, inbound frame sequence): all sequences of length <= 3 (quick) / <= 4 (thorough) over {keep-alive, TINY_PING, SMALL, unknown type, undecodable CIM, MSO, SMALL announced as 4 bytes, MSO without terminator (+ MCI claiming more cars than it holds, 252 B and 1020 B frames)} with EVERY partition of the byte stream into reads (state-merged), <= 1 (2) injected transient errors of 4 kinds, EOF at any point; plus sessions of 9-16 kB (> the 6120-byte buffer) with boundary-relative chunk choices; states merged on (receive buffer bytes, spare capacity, stream position, budgets, suspended side)",
        vec![
            "per-frame content expectation is the real codec applied to that frame alone (the codec is judged by C01-C04)".into(),
            "blocking and tokio instances are compared with the same reference read loop, hence with each other".into(),
            "long sessions use the chunk set {1, to-boundary-1, to-boundary, to-boundary+1, boundary+next frame, everything} instead of every k".into(),
            "the long-session connections (one execution each, run before the search; a failure there is reported at once) push the session length, not the schedule: whole-frame repeating stream, reads as large as asked or 7 bytes".into(),
            "builder-tcp: 40 sessions over real loopback TCP through connections made by the public Builder (blocking / tokio x mode x nodelay x peer writing everything at once / 1 / 3 / 1021 / 4096 bytes at a time); the kernel cuts the reads, so these add the way the connection was made, not schedules".into(),
            "scripted-reads (one execution each): two maximum-size frames, a SMALL, a TINY and another maximum-size frame, the first four reads delivering each of {all that is asked, 1, 100, 256, 300, half, all but one} bytes (7^4 scripts x implementation x mode)".into(),
        ],
        vec![("long_session_connections", json!(labels)), ("long_session_frames", json!(long_frames)), ("builder_tcp_connections", json!(tcp_labels))])
}

// ---------------------------------------------------------------------------------------------

/// Packets the codec refuses part-way through (some of their bytes are already produced when the
/// out-of-range value is met): the connection reports the refusal and nothing of them reaches the wire.
pub fn refused_packets() -> Vec<(&'static str, Packet)> {
    let mut hs: Vec<PlayerHandicap> = (0..20u8).map(|k| PlayerHandicap { plid: insim::identifiers::PlayerId(k + 1), h_mass: 10, h_tres: 5, ..Default::default() }).collect();
    if let Some(l) = hs.last_mut() { l.h_mass = 250; }
    let mut hcp = Hcp::default();
    if let Some(l) = hcp.info.last_mut() { l.h_tres = 200; }
    vec![
        ("refused-isi-70s", Packet::Isi(Isi { interval: std::time::Duration::from_secs(70), iname: "x".repeat(16), admin: "y".repeat(16), ..Default::default() })),
        ("refused-plh", Packet::Plh(Plh { hcaps: hs, ..Default::default() })),
        ("refused-hcp", Packet::Hcp(hcp)),
    ]
}

fn c06_packets() -> Vec<(&'static str, Packet)> {
    let mci = Packet::Mci(Mci { reqi: RequestId(0), info: (0..8).map(|i| CompCar { node: i, lap: 1, ..Default::default() }).collect() });
    vec![
        ("tiny", Packet::Tiny(Tiny { reqi: RequestId(1), subt: TinyType::Ping })),
        ("small", Packet::Small(Small { reqi: RequestId(2), subt: SmallType::Vta(VtnAction::End) })),
        ("mso", Packet::Mso(Mso { msg: "hi".into(), ..Default::default() })),
        ("mst", Packet::Mst(Mst { reqi: RequestId(3), msg: "hello world".into() })),
        ("mci", mci),
    ]
}

pub fn c06_instances(tier: Tier) -> Vec<Instance> {
    let mut out = vec![];
    let pk = c06_packets();
    let maxlen = if tier == Tier::Thorough { 3 } else { 2 };
    for c in [true, false] {
        for seq in sequences(&pk, maxlen) {
            let label: Vec<&str> = seq.iter().map(|x| x.0).collect();
            let ps: Vec<Packet> = seq.iter().map(|x| x.1.clone()).collect();
            for imp in [Impl::Blocking, Impl::Tokio] {
                let mut i = Instance::new(&format!("writes#{}#{}#{}", if c { "compressed" } else { "uncompressed" }, label.join("+"), imp_name(imp)), imp, c, vec![]);
                i.program = Program::Writes(ps.clone());
                i.script_writes = true;
                i.allow_eof = false;
                i.pending_budget = 2; // tokio: Pending; blocking: Interrupted
                i.tick_budget = if imp == Impl::Tokio { if tier == Tier::Thorough { 2 } else { 1 } } else { 0 };
                i.storm_budget = 1;
                if imp == Impl::Tokio && seq.len() <= 2 {
                    let mut v = i.clone();
                    v.label = format!("{}#vectored", i.label);
                    v.vectored = true;
                    v.tick_budget = 0;
                    out.push(v);
                }
                out.push(i);
            }
        }
    }
    // writes issued while a keep-alive reply is still half sent (the read that owed it was dropped)
    for c in [true, false] {
        out.extend(drop_write_instances(c, "after-dropped-read", tier));
    }
    // a packet the codec refuses among the writes: its write() reports the refusal, the wire never hears of it,
    // and the packets around it go out whole
    for c in [true, false] {
        let mut alpha: Vec<(&str, Packet)> = vec![pk[0].clone(), pk[3].clone()];
        alpha.extend(refused_packets());
        for seq in sequences(&alpha, 3) {
            if !seq.iter().any(|x| x.0.starts_with("refused")) || seq.len() < 2 { continue; }
            let label: Vec<&str> = seq.iter().map(|x| x.0).collect();
            let ps: Vec<Packet> = seq.iter().map(|x| x.1.clone()).collect();
            for imp in [Impl::Blocking, Impl::Tokio] {
                let mut i = Instance::new(&format!("write-refused#{}#{}#{}", if c { "compressed" } else { "uncompressed" }, label.join("+"), imp_name(imp)), imp, c, vec![]);
                i.program = Program::Writes(ps.clone());
                i.script_writes = true;
                i.allow_eof = false;
                i.accept_few = true;
                i.pending_budget = 1;
                out.push(i);
            }
        }
    }
    // a long session of writes: 100 (quick) / 300 (thorough) packets of mixed sizes on one connection,
    // every call accepting one byte or everything, one storm of not-ready answers anywhere
    for c in [true, false] {
        for imp in [Impl::Blocking, Impl::Tokio] {
            let n = if tier == Tier::Thorough { 300 } else { 100 };
            let ps: Vec<Packet> = (0..n).map(|j| pk[[0usize, 1, 3, 0, 2][j % 5]].1.clone()).collect();
            let mut i = Instance::new(&format!("write-long#{}#{}", if c { "compressed" } else { "uncompressed" }, imp_name(imp)), imp, c, vec![]);
            i.program = Program::Writes(ps);
            i.script_writes = true;
            i.allow_eof = false;
            i.accept_few = true;
            i.storm_budget = 1;
            out.push(i);
        }
    }
    // every kind's B1 packet and the largest frames of every counted kind as a single write followed
    // by a TINY: the write path must not depend on the kind or on the frame size (up to 1016 bytes)
    let kinds = spec::load();
    let tiny = pk[0].1.clone();
    for c in [true, false] {
        let codec = Codec::new(mode_of(c));
        let mut singles: Vec<(String, Packet)> = vec![];
        for k in &kinds {
            let vals = crate::gen::baseline(k, 1);
            let Some(f) = spec::ref_encode(k, &vals, c) else { continue };
            let mut b = bytes::BytesMut::from(&f[..]);
            let Ok(Some(p)) = codec.decode(&mut b) else { continue };
            singles.push((k.name.clone(), p));
        }
        for cn in crate::typed::counted() {
            for n in [cn.max, (1016 - cn.header) / cn.elem, (252 - cn.header) / cn.elem] {
                let Some(p) = (cn.make)(n) else { continue };
                if !matches!(crate::report::guard(|| codec.encode(&p)), Ok(Ok(_))) { continue; }
                singles.push((format!("{}x{n}", cn.kind), p));
            }
        }
        for (name, p) in singles {
            for imp in [Impl::Blocking, Impl::Tokio] {
                let mut i = Instance::new(&format!("write-kind#{}#{}#{}", if c { "compressed" } else { "uncompressed" }, name, imp_name(imp)), imp, c, vec![]);
                i.program = Program::Writes(vec![p.clone(), tiny.clone()]);
                i.script_writes = true;
                i.allow_eof = false;
                i.pending_budget = 1;
                i.storm_budget = if tier == Tier::Thorough { 1 } else { 0 };
                out.push(i);
            }
        }
    }
    out
}

/// One connection with more than 2^16 keep-alives and more than 2^16 writes (run before the search of C06 and C07;
/// a failure is reported at once).  Some(code) = stop with that exit code.
fn count_precheck(prop: &str, replay: &Option<String>) -> Option<i32> {
    use rayon::prelude::*;
    use super::longsession as ls;
    let report = |c: &ls::CountCase, what: &str| -> i32 {
        let path = format!("/verif/replays/{prop}/{}.json", c.label().replace('#', "-"));
        println!("VIOLATION property={prop} replay={path}");
        println!("  signature: {prop}|many-keep-alives-and-writes|{}", if c.tokio { "tokio" } else { "blocking" });
        println!("  witness:   {}: {what}", c.label());
        let _ = std::fs::create_dir_all(format!("/verif/replays/{prop}"));
        let _ = std::fs::write(&path, json!({"property": prop, "site": "many-keep-alives-and-writes", "tokio": c.tokio, "compressed": c.compressed}).to_string());
        1
    };
    if let Some(path) = replay {
        let v = std::fs::read_to_string(path).ok().and_then(|s| serde_json::from_str::<serde_json::Value>(&s).ok())?;
        if v["site"] != "many-keep-alives-and-writes" { return None; }
        let c = ls::CountCase { tokio: v["tokio"].as_bool().unwrap_or(false), compressed: v["compressed"].as_bool().unwrap_or(true) };
        return Some(match crate::report::guard(|| ls::run_count(&c)) {
            Ok(Ok(n)) => { println!("replay: {n} results in order, outbound exact - held"); 0 },
            Ok(Err(e)) if e.starts_with("MACHINERY") => { eprintln!("{e}"); 4 },
            Ok(Err(e)) => report(&c, &e),
            Err(p) => report(&c, &format!("panicked: {p}")),
        });
    }
    let cases = ls::count_cases();
    let results: Vec<Result<Result<u64, String>, String>> = cases.par_iter().map(|c| crate::report::guard(|| ls::run_count(c))).collect();
    for (c, r) in cases.iter().zip(results) {
        match r {
            Ok(Ok(_)) => {},
            Ok(Err(e)) if e.starts_with("MACHINERY") => { eprintln!("{e}"); return Some(4); },
            Ok(Err(e)) => return Some(report(c, &e)),
            Err(p) => return Some(report(c, &format!("panicked: {p}"))),
        }
    }
    None
}

/// Writes that really take hundreds of transport calls (the search merges them away): one execution each.
fn dribble_precheck(replay: &Option<String>) -> Option<i32> {
    use rayon::prelude::*;
    use super::longsession as ls;
    let cases = ls::dribble_cases();
    let report = |idx: usize, c: &ls::DribbleCase, what: &str| -> i32 {
        let path = format!("/verif/replays/C06/dribble-writes-{idx}.json");
        println!("VIOLATION property=C06 replay={path}");
        println!("  signature: C06|dribble-writes|{}|{}", if c.tokio { "tokio" } else { "blocking" }, c.name);
        println!("  witness:   {}: {what}", c.label());
        let _ = std::fs::create_dir_all("/verif/replays/C06");
        let _ = std::fs::write(&path, json!({"property": "C06", "site": "dribble-writes", "index": idx, "case": c.label()}).to_string());
        1
    };
    if let Some(path) = replay {
        let v = std::fs::read_to_string(path).ok().and_then(|s| serde_json::from_str::<serde_json::Value>(&s).ok())?;
        if v["site"] == "scripted-acceptance" {
            let scases = ls::scripted_cases();
            let c = scases.get(v["index"].as_u64().unwrap_or(0) as usize)?;
            return Some(match crate::report::guard(|| ls::run_scripted(c)) {
                Ok(Ok(())) => { println!("replay: {} - held", c.label()); 0 },
                Ok(Err(e)) if e.starts_with("MACHINERY") => { eprintln!("{e}"); 4 },
                Ok(Err(e)) => { println!("VIOLATION property=C06 replay={path}\n  witness: {}: {e}", c.label()); 1 },
                Err(p) => { println!("VIOLATION property=C06 replay={path}\n  witness: {}: panicked: {p}", c.label()); 1 },
            });
        }
        if v["site"] == "stall-mid-frame" {
            let (t, c) = (v["tokio"].as_bool().unwrap_or(true), v["compressed"].as_bool().unwrap_or(true));
            return Some(match crate::report::guard(|| ls::run_stall(t, c)) { Ok(Ok(())) => { println!("replay: held"); 0 }, Ok(Err(e)) => { println!("VIOLATION property=C06 replay={path}\n  witness: {e}"); 1 }, Err(p) => { println!("VIOLATION property=C06 replay={path}\n  witness: panicked: {p}"); 1 } });
        }
        if v["site"] != "dribble-writes" { return None; }
        let idx = v["index"].as_u64().unwrap_or(0) as usize;
        let c = cases.get(idx)?;
        return Some(match crate::report::guard(|| ls::run_dribble(c)) {
            Ok(Ok(n)) => { println!("replay: {} - both frames whole after {n} transport calls - held", c.label()); 0 },
            Ok(Err(e)) if e.starts_with("MACHINERY") => { eprintln!("{e}"); 4 },
            Ok(Err(e)) => report(idx, c, &e),
            Err(p) => report(idx, c, &format!("panicked: {p}")),
        });
    }
    let results: Vec<Result<Result<u64, String>, String>> = cases.par_iter().map(|c| crate::report::guard(|| ls::run_dribble(c))).collect();
    for (idx, (c, r)) in cases.iter().zip(results).enumerate() {
        match r {
            Ok(Ok(_)) => {},
            Ok(Err(e)) if e.starts_with("MACHINERY") => { eprintln!("{e}"); return Some(4); },
            Ok(Err(e)) => return Some(report(idx, c, &e)),
            Err(p) => return Some(report(idx, c, &format!("panicked: {p}"))),
        }
    }
    eprintln!("C06 dribble-writes: {} executions", cases.len());
    // scripted acceptance: two large frames and a TINY, the first four transport calls accepting a scripted number of bytes
    let scases = ls::scripted_cases();
    let sres: Vec<Result<Result<(), String>, String>> = scases.par_iter().map(|c| crate::report::guard(|| ls::run_scripted(c))).collect();
    for (idx, (c, r)) in scases.iter().zip(sres).enumerate() {
        let what = match r { Ok(Ok(())) => continue, Ok(Err(e)) if e.starts_with("MACHINERY") => { eprintln!("{e}"); return Some(4); }, Ok(Err(e)) => e, Err(p) => format!("panicked: {p}") };
        let path = format!("/verif/replays/C06/scripted-acceptance-{idx}.json");
        println!("VIOLATION property=C06 replay={path}");
        println!("  signature: C06|scripted-acceptance|{}|{}", if c.tokio { "tokio" } else { "blocking" }, c.name);
        println!("  witness:   {}: {what}", c.label());
        let _ = std::fs::create_dir_all("/verif/replays/C06");
        let _ = std::fs::write(&path, json!({"property": "C06", "site": "scripted-acceptance", "index": idx, "case": c.label()}).to_string());
        return Some(1);
    }
    eprintln!("C06 scripted-acceptance: {} executions", scases.len());
    // a stall of 70 000 not-ready answers in the middle of a frame
    for (t, c) in [(false, true), (true, true), (false, false), (true, false)] {
        let what = match crate::report::guard(|| ls::run_stall(t, c)) { Ok(Ok(())) => continue, Ok(Err(e)) if e.starts_with("MACHINERY") => { eprintln!("{e}"); return Some(4); }, Ok(Err(e)) => e, Err(p) => format!("panicked: {p}") };
        let path = format!("/verif/replays/C06/stall-mid-frame-{}-{}.json", if t { "tokio" } else { "blocking" }, if c { "compressed" } else { "uncompressed" });
        println!("VIOLATION property=C06 replay={path}");
        println!("  signature: C06|stall-mid-frame|{}", if t { "tokio" } else { "blocking" });
        println!("  witness:   {} connection ({}): 5 bytes of a frame accepted, 70 000 not-ready answers, then everything: {what}", if t { "tokio" } else { "blocking" }, if c { "compressed" } else { "uncompressed" });
        let _ = std::fs::create_dir_all("/verif/replays/C06");
        let _ = std::fs::write(&path, json!({"property": "C06", "site": "stall-mid-frame", "tokio": t, "compressed": c}).to_string());
        return Some(1);
    }
    None
}

pub fn c06(tier: Tier, replay: Option<String>) -> i32 {
    if let Some(code) = count_precheck("C06", &replay) { return code; }
    if tier == Tier::Thorough && replay.is_none() {
        // more than 2^32 bytes written on one connection (thorough only: about a minute)
        use rayon::prelude::*;
        let combos: Vec<(bool, bool)> = vec![(false, true), (true, true), (false, false), (true, false)];
        let results: Vec<Result<Result<u64, String>, String>> = combos.par_iter().map(|(t, c)| crate::report::guard(|| super::longsession::run_long_writes(*t, *c))).collect();
        for ((t, c), r) in combos.iter().zip(results) {
            let what = match r { Ok(Ok(_)) => continue, Ok(Err(e)) if e.starts_with("MACHINERY") => { eprintln!("{e}"); return 4; }, Ok(Err(e)) => e, Err(p) => format!("panicked: {p}") };
            let path = format!("/verif/replays/C06/long-writes-{}-{}.json", if *t { "tokio" } else { "blocking" }, if *c { "compressed" } else { "uncompressed" });
            println!("VIOLATION property=C06 replay={path}");
            println!("  signature: C06|long-writes|{}", if *t { "tokio" } else { "blocking" });
            println!("  witness:   one {} connection ({}) writing more than 2^32 bytes of maximum-size frames: {what}", if *t { "tokio" } else { "blocking" }, if *c { "compressed" } else { "uncompressed" });
            let _ = std::fs::create_dir_all("/verif/replays/C06");
            let _ = std::fs::write(&path, json!({"property": "C06", "site": "long-writes", "tokio": t, "compressed": c}).to_string());
            return 1;
        }
        eprintln!("C06 long-writes: 4 connections wrote more than 2^32 bytes each");
    }
    if let Some(code) = dribble_precheck(&replay) { return code; }
    finish("C06", tier, replay, c06_instances(tier),
        "instances = (mode, implementation, packet sequence of length <= 2 (quick) / <= 3 (thorough) over {TINY 4 B, SMALL 8 B, MSO 12 B, MST 68 B, MCI 228 B}); at every transport write call every acceptance k in 1..=offered (offered <= 12) or {1,2,3,4,n/2,n-1,n}; not ready (tokio Pending / blocking Interrupted, <= 2) and 30 s clock steps (tokio, <= 2); plus every kind's B1 packet and the largest frames of every counted kind (up to 1016 B) followed by a TINY; oracle on every transition: outbound bytes are a prefix of the concatenated frames and complete when write() returns Ok",
        vec!["the expected frames come from Codec::encode (judged by C01-C03)".into(),
            "many-keep-alives-and-writes (4 connections, one execution each, before the search): 175 000 frames in with 70 000 keep-alives, 105 000 writes; the transport must have received exactly the replies and the written frames in call order".into(),
            "dribble-writes (one execution each, before the search): every kind's B1 packet and the largest frames of every counted kind (252, ~600, 1016 bytes, the protocol maximum) through a transport that takes 1 / 2 / 3 / 7 bytes per call all the way, or 1 byte with 'not ready' before every call - the search itself merges states on the bytes written and so executes only the shortest way to each".into(),
            "scripted-acceptance (one execution each, before the search): the largest AXM / MCI / NLP frames (252, ~600, 1016 bytes) written twice and a TINY, the first four transport calls accepting each of {everything, 1, 100, 256, 300, half, all but one} bytes (7^4 scripts), everything afterwards".into(),
            "long-writes (thorough tier only): one connection per implementation and mode writes more than 2^32 bytes of maximum-size frames into a transport that checks every byte (library built with overflow checks)".into()])
}

// ---------------------------------------------------------------------------------------------

pub fn c07_instances(tier: Tier) -> Vec<Instance> {
    let mut out = vec![];
    let kinds = spec::load();
    for c in [true, false] {
        let cname = if c { "compressed" } else { "uncompressed" };
        for imp in [Impl::Blocking, Impl::Tokio] {
            // (a) every single TINY: 30 sub-types x 256 request ids (plus sub-type bytes the decoder rejects)
            for subt in 0..=31u8 {
                for reqi in 0..=255u8 {
                    if tier == Tier::Quick && !(reqi < 4 || reqi == 255 || reqi == 128) && subt != 0 { continue; }
                    let mut i = Instance::new(&format!("tiny#{cname}#subt{subt}-reqi{reqi}#{}", imp_name(imp)), imp, c, vec![f_tiny(c, reqi, subt)]);
                    i.chunks = Chunks::WholeOrBytes;
                    i.allow_eof = false;
                    out.push(i);
                }
            }
            // (b) every kind's B1 frame alone and between two keep-alives
            for k in &kinds {
                let vals = baseline(k, 1);
                let Some(f) = spec::ref_encode(k, &vals, c) else { continue };
                let mut i = Instance::new(&format!("kind#{cname}#{}#{}", k.name, imp_name(imp)), imp, c, vec![f_keepalive(c), f, f_keepalive(c)]);
                i.chunks = Chunks::Boundary;
                i.allow_eof = false;
                out.push(i);
            }
            // (b1) the application's write or handshake was refused by the codec before these reads: the replies are
            // whole and nothing of the refused packet rides along
            for (rname, rp) in refused_packets() {
                for via_handshake in [false, true] {
                    let Packet::Isi(isi) = &rp else { if via_handshake { continue; } else {
                        let mut i = Instance::new(&format!("after-refused#{cname}#{rname}#{}", imp_name(imp)), imp, c, vec![f_keepalive(c), f_small(c), f_keepalive(c)]);
                        i.chunks = Chunks::Boundary;
                        i.allow_eof = false;
                        i.script_writes = true;
                        i.accept_few = true;
                        i.preamble = vec![rp.clone(), Packet::Tiny(Tiny { reqi: RequestId(5), subt: TinyType::Ping }), rp.clone()];
                        out.push(i);
                        continue;
                    } };
                    let mut i = Instance::new(&format!("after-refused#{cname}#{rname}-{}#{}", if via_handshake { "handshake" } else { "write" }, imp_name(imp)), imp, c, vec![f_keepalive(c), f_small(c), f_keepalive(c)]);
                    i.chunks = Chunks::Boundary;
                    i.allow_eof = false;
                    i.script_writes = true;
                    i.accept_few = true;
                    if via_handshake { i.handshake = Some(isi.clone()); } else { i.preamble = vec![rp.clone()]; }
                    out.push(i);
                }
            }
            // (b2) the version gate and the keep-alive reply do not disturb each other
            let valpha: Vec<(&str, Vec<u8>)> = vec![("ka", f_keepalive(c)), ("ver9", f_ver(c, 9)), ("ver8", f_ver(c, 8)), ("small", f_small(c))];
            for seq in sequences(&valpha, 3) {
                if !seq.iter().any(|x| x.0 == "ka") || !seq.iter().any(|x| x.0.starts_with("ver")) { continue; }
                let label: Vec<&str> = seq.iter().map(|x| x.0).collect();
                let frames: Vec<Vec<u8>> = seq.iter().map(|x| x.1.clone()).collect();
                let mut i = Instance::new(&format!("gate#{cname}#{}#{}", label.join("+"), imp_name(imp)), imp, c, frames);
                i.verify_version = true;
                i.chunks = Chunks::Boundary;
                i.fail_budget = 1;
                i.fail_kinds = vec![0];
                i.allow_eof = false;
                out.push(i);
            }
            // (c) sequences with every partition; the reply itself is split / delayed on the write side
            let alpha: Vec<(&str, Vec<u8>)> = vec![
                ("ka", f_keepalive(c)), ("none1", f_tiny(c, 1, 0)), ("ping0", f_tiny(c, 0, 3)), ("small", f_small(c)), ("mso", f_mso(c)),
            ];
            for seq in sequences(&alpha, if tier == Tier::Thorough { 4 } else { 3 }) {
                let label: Vec<&str> = seq.iter().map(|x| x.0).collect();
                let frames: Vec<Vec<u8>> = seq.iter().map(|x| x.1.clone()).collect();
                let mut i = Instance::new(&format!("seq#{cname}#{}#{}", label.join("+"), imp_name(imp)), imp, c, frames.clone());
                i.chunks = Chunks::All;
                i.allow_eof = true;
                out.push(i);
                if label.iter().filter(|l| **l == "ka").count() >= 1 && seq.len() <= 3 {
                    let mut j = Instance::new(&format!("seqw#{cname}#{}#{}", label.join("+"), imp_name(imp)), imp, c, frames);
                    j.chunks = Chunks::Boundary;
                    j.script_writes = true;
                    j.allow_eof = false;
                    j.pending_budget = 1;
                    // (four steps = 120 s with the reply half sent: longer than any timeout in the library)
                    j.tick_budget = if imp == Impl::Tokio { 4 } else { 0 };
                    j.storm_budget = 1;
                    j.slow_flush = 2;
                    out.push(j);
                }
            }
        }
        // (c) the caller's own reads and writes dropped around a keep-alive
        out.extend(drop_write_instances(c, "dropw", tier));
        // (d) "every history": 300 keep-alives, bare and with other frames between them, delivered as
        // much at a time as the connection takes or frame by frame
        for imp in [Impl::Blocking, Impl::Tokio] {
            for (name, between) in [("bare", vec![]), ("mixed", vec![f_small(c), f_tiny(c, 1, 0), f_tiny(c, 0, 3)])] {
                let mut frames = vec![];
                for j in 0..300 {
                    frames.push(f_keepalive(c));
                    if !between.is_empty() {
                        frames.push(between[j % between.len()].clone());
                    }
                }
                let mut i = Instance::new(&format!("kastorm#{cname}#{name}#{}", imp_name(imp)), imp, c, frames);
                i.chunks = Chunks::Fill(name == "bare");
                i.allow_eof = false;
                out.push(i);
            }
        }
    }
    out
}

pub fn c07(tier: Tier, replay: Option<String>) -> i32 {
    if let Some(code) = count_precheck("C07", &replay) { return code; }
    if replay.is_none() {
        // the write side fails in the middle of a reply (blocking connection; one execution each)
        use super::longsession as ls;
        for (idx, c) in ls::reply_fault_cases().iter().enumerate() {
            let what = match crate::report::guard(|| ls::run_reply_fault(c)) { Ok(Ok(())) => continue, Ok(Err(e)) => e, Err(p) => format!("panicked: {p}") };
            let path = format!("/verif/replays/C07/reply-write-fault-{idx}.json");
            println!("VIOLATION property=C07 replay={path}");
            println!("  signature: C07|reply-write-fault|blocking|{:?}", c.kind);
            println!("  witness:   {}: {what}", c.label());
            let _ = std::fs::create_dir_all("/verif/replays/C07");
            let _ = std::fs::write(&path, json!({"property": "C07", "site": "reply-write-fault", "index": idx, "case": c.label()}).to_string());
            return 1;
        }
    } else if let Some(path) = &replay {
        if let Some(v) = std::fs::read_to_string(path).ok().and_then(|s| serde_json::from_str::<serde_json::Value>(&s).ok()) {
            if v["site"] == "reply-write-fault" {
                use super::longsession as ls;
                let cases = ls::reply_fault_cases();
                let Some(c) = cases.get(v["index"].as_u64().unwrap_or(0) as usize) else { return 4 };
                return match crate::report::guard(|| ls::run_reply_fault(c)) {
                    Ok(Ok(())) => { println!("replay: {} - held", c.label()); 0 },
                    Ok(Err(e)) => { println!("VIOLATION property=C07 replay={path}\n  witness: {}: {e}", c.label()); 1 },
                    Err(p) => { println!("VIOLATION property=C07 replay={path}\n  witness: {}: panicked: {p}", c.label()); 1 },
                };
            }
        }
    }
    finish("C07", tier, replay, c07_instances(tier),
        "instances: (a) every single TINY (32 sub-type bytes x request ids; quick: all 256 ids for sub-type 0 and 6 ids for the others), whole and byte by byte; (b) every kind's B1 frame between two keep-alives; (c) all sequences of length <= 3/4 over {keep-alive, TINY_NONE reqi 1, TINY_PING reqi 0, SMALL, MSO} with every partition, and with the 4-byte reply split / delayed on the write side; oracle: outbound = one pong per keep-alive handed over, accepted before the hand-over, nothing else",
        vec!["short writes on the blocking write side rely on C06's property (write_all)".into(),
            "many-keep-alives-and-writes (4 connections, one execution each, before the search): 70 000 keep-alives on one connection, interleaved with writes; exactly 70 000 replies, each in its place".into(),
            "reply-write-fault (48 executions, blocking): the write side accepts 0..=3 bytes of a reply, fails once with one of 6 error kinds, then accepts everything - the wire never carries more than a prefix of one reply, and the keep-alive is handed over only with the reply whole".into()])
}

// ---------------------------------------------------------------------------------------------

pub fn c09_instances(tier: Tier) -> Vec<Instance> {
    let mut out = vec![];
    let kinds = spec::load();
    for c in [true, false] {
        let cname = if c { "compressed" } else { "uncompressed" };
        for imp in [Impl::Blocking, Impl::Tokio] {
            for verify in [true, false] {
                for v in 0..=255u8 {
                    for (pos, frames) in [
                        ("first", vec![f_ver(c, v)]),
                        ("after-small", vec![f_small(c), f_ver(c, v)]),
                        ("before-small", vec![f_ver(c, v), f_small(c)]),
                        ("after-keepalive", vec![f_keepalive(c), f_ver(c, v), f_tiny(c, 5, 3)]),
                    ] {
                        let mut i = Instance::new(&format!("ver#{cname}#v{v}-{pos}-verify-{verify}#{}", imp_name(imp)), imp, c, frames);
                        i.verify_version = verify;
                        i.chunks = Chunks::WholeOrBytes;
                        i.allow_eof = false;
                        out.push(i);
                    }
                }
            }
            // the gate does not wear off or latch: a version packet after another one is judged on its own
            for v in 0..=255u8 {
                for (pos, frames) in [
                    ("after-ver9", vec![f_ver(c, 9), f_ver(c, v)]),
                    ("before-ver9", vec![f_ver(c, v), f_ver(c, 9), f_small(c)]),
                    ("after-ver8", vec![f_ver(c, 8), f_ver(c, v)]),
                ] {
                    for verify in [true, false] {
                        let mut i = Instance::new(&format!("ver2#{cname}#v{v}-{pos}-verify-{verify}#{}", imp_name(imp)), imp, c, frames.clone());
                        i.verify_version = verify;
                        i.chunks = Chunks::WholeOrBytes;
                        i.allow_eof = false;
                        out.push(i);
                    }
                }
            }
            // the gate does not depend on what this side sent: a handshake (default ISI, and one with
            // every field away from its default, announcing version 8) precedes the reads
            let isis: Vec<(&str, insim::insim::Isi)> = {
                let mut v = vec![("default-isi", insim::insim::Isi::default())];
                if let Some(k) = kinds.iter().find(|k| k.name == "ISI") {
                    if let Some(f) = spec::ref_encode(k, &baseline(k, 1), c) {
                        let mut b = bytes::BytesMut::from(&f[..]);
                        if let Ok(Some(Packet::Isi(mut isi))) = Codec::new(mode_of(c)).decode(&mut b) {
                            isi.version = 8;
                            if isi.reqi.0 == 0 { isi.reqi = RequestId(1); }
                            v.push(("custom-isi", isi));
                        }
                    }
                }
                v
            };
            for (iname, isi) in &isis {
                for verify in [true, false] {
                    for v in 0..=255u8 {
                        let mut i = Instance::new(&format!("after-handshake#{cname}#{iname}-v{v}-verify-{verify}#{}", imp_name(imp)), imp, c, vec![f_ver(c, v), f_small(c)]);
                        i.verify_version = verify;
                        i.handshake = Some(isi.clone());
                        i.chunks = Chunks::WholeOrBytes;
                        i.allow_eof = false;
                        out.push(i);
                    }
                }
            }
            // nor on what the transport's flush does (reading needs no flush): one that fails, one that is never ready at once
            for style in [1u8, 2] {
                for v in [0u8, 8, 9, 10, 255] {
                    for verify in [true, false] {
                        let mut i = Instance::new(&format!("gate-flush#{cname}#flush-{}-v{v}-verify-{verify}#{}", if style == 1 { "fails" } else { "never-ready-at-once" }, imp_name(imp)), imp, c, vec![f_ver(c, v), f_small(c), f_ver(c, 9)]);
                        i.verify_version = verify;
                        i.flush_style = style;
                        i.chunks = Chunks::Boundary;
                        i.allow_eof = true;
                        if imp == Impl::Tokio { i.cancel_budget = 1; }
                        out.push(i);
                    }
                }
            }
            // an accepted VER (whatever request id it answers, whatever handshake went before) does not switch the gate off
            for hr in [0u8, 1, 7] {
                for r1 in [0u8, 1, 7] {
                    for (v2, r2) in [(8u8, 0u8), (8, r1), (0, 7), (255, 1)] {
                        let mut i = Instance::new(&format!("ver-after-accepted#{cname}#isi-reqi-{hr}-ver9-reqi-{r1}-then-v{v2}-reqi-{r2}#{}", imp_name(imp)), imp, c, vec![f_ver_r(c, 9, r1), f_keepalive(c), f_ver_r(c, v2, r2), f_ver_r(c, 7, r1), f_small(c)]);
                        i.verify_version = true;
                        i.handshake = Some(insim::insim::Isi { reqi: RequestId(hr), iname: "verif".into(), ..Default::default() });
                        i.chunks = Chunks::Boundary;
                        i.allow_eof = false;
                        out.push(i);
                    }
                }
            }
            // nor on the request id the VER carries (0 = unsolicited, the handshake's own, somebody else's), whatever the
            // request id of the ISI this side sent, if any
            {
                let reqis: Vec<u8> = if tier == Tier::Thorough { (0..=255).collect() } else { vec![0, 1, 2, 3, 7, 127, 128, 254, 255] };
                let mut hs: Vec<(String, Option<insim::insim::Isi>)> = vec![("no-handshake".into(), None)];
                for r in [0u8, 1, 7, 255] { hs.push((format!("isi-reqi-{r}"), Some(insim::insim::Isi { reqi: RequestId(r), iname: "verif".into(), ..Default::default() }))); }
                for (hname, h) in &hs {
                    for reqi in &reqis {
                        for v in [8u8, 9, 10] {
                            for verify in [true, false] {
                                let mut i = Instance::new(&format!("ver-reqi#{cname}#{hname}-ver-reqi-{reqi}-v{v}-verify-{verify}#{}", imp_name(imp)), imp, c, vec![f_ver_r(c, v, *reqi), f_small(c)]);
                                i.verify_version = verify;
                                i.handshake = h.clone();
                                i.chunks = Chunks::Boundary;
                                i.allow_eof = false;
                                out.push(i);
                            }
                        }
                    }
                }
            }
            // nor on anything else this side has sent: one packet of every kind is written first
            for k in &kinds {
                let vals = baseline(k, 1);
                let Some(f) = spec::ref_encode(k, &vals, c) else { continue };
                let mut b = bytes::BytesMut::from(&f[..]);
                let Ok(Some(p)) = Codec::new(mode_of(c)).decode(&mut b) else { continue };
                if !matches!(crate::report::guard(|| Codec::new(mode_of(c)).encode(&p)), Ok(Ok(_))) { continue; }
                for v in [9u8, 8] {
                    let mut i = Instance::new(&format!("after-write#{cname}#{}-v{v}#{}", k.name, imp_name(imp)), imp, c, vec![f_ver(c, v), f_small(c)]);
                    i.verify_version = true;
                    i.preamble = vec![p.clone()];
                    i.chunks = Chunks::WholeOrBytes;
                    i.allow_eof = false;
                    out.push(i);
                }
            }
            // ... every TINY sub-type among them (a Close, a version request, ...), with any request id
            for subt in 0..=31u8 {
                for reqi in [0u8, 1] {
                    let mut b = bytes::BytesMut::from(&f_tiny(c, reqi, subt)[..]);
                    let Ok(Ok(Some(p))) = crate::report::guard(|| Codec::new(mode_of(c)).decode(&mut b)) else { continue };
                    for v in [9u8, 8, 0] {
                        let mut i = Instance::new(&format!("after-write#{cname}#TINY-subt{subt}-reqi{reqi}-v{v}#{}", imp_name(imp)), imp, c, vec![f_small(c), f_ver(c, v), f_small(c)]);
                        i.verify_version = true;
                        i.preamble = vec![p.clone()];
                        i.chunks = Chunks::Boundary;
                        i.allow_eof = false;
                        out.push(i);
                    }
                }
            }
            // a VER frame longer than the 20 bytes its fields need (what a later protocol revision would send):
            // the gate looks at the version, not at the frame length
            for verify in [true, false] {
                for v in 0..=255u8 {
                    // (60: the compressed size byte of the padded frame equals the length of the plain one)
                    for extra in [4usize, 8, 60] {
                        let mut f = f_ver(c, v);
                        f[0] = sz(c, 20 + extra);
                        f.extend(std::iter::repeat(0).take(extra));
                        let mut i = Instance::new(&format!("padded-ver#{cname}#v{v}+{extra}-verify-{verify}#{}", imp_name(imp)), imp, c, vec![f, f_small(c)]);
                        i.verify_version = verify;
                        i.chunks = Chunks::WholeOrBytes;
                        i.allow_eof = false;
                        out.push(i);
                    }
                }
            }
            // the other fields of the VER (game version text with and without a test-patch revision, product) have no say
            for verify in [true, false] {
                for v in 0..=255u8 {
                    for (gi, game) in ["0.7E12", "0.6U13", "0.04K", "1A"].iter().enumerate() {
                        let mut f = f_ver(c, v);
                        let mut g = game.as_bytes().to_vec();
                        g.resize(8, 0);
                        f[4..12].copy_from_slice(&g);
                        if gi % 2 == 1 { f[12..18].copy_from_slice(b"DEMO\0\0"); }
                        let mut i = Instance::new(&format!("ver-text#{cname}#v{v}-{game}-verify-{verify}#{}", imp_name(imp)), imp, c, vec![f, f_small(c)]);
                        i.verify_version = verify;
                        i.chunks = Chunks::WholeOrBytes;
                        i.allow_eof = false;
                        out.push(i);
                    }
                }
            }
            // 300 version packets on one connection, alternately acceptable and not
            for verify in [true, false] {
                let mut frames = vec![];
                for j in 0..300usize {
                    frames.push(f_ver(c, if j % 2 == 0 { 9 } else { (j % 240) as u8 + 10 }));
                    if j % 3 == 0 { frames.push(f_small(c)); }
                }
                let mut i = Instance::new(&format!("verstorm#{cname}#verify-{verify}#{}", imp_name(imp)), imp, c, frames);
                i.verify_version = verify;
                i.chunks = Chunks::Fill(false);
                i.allow_eof = false;
                out.push(i);
            }
            // no other kind is ever rejected by the gate
            for k in &kinds {
                if k.name == "VER" { continue; }
                let vals = baseline(k, 1);
                let Some(f) = spec::ref_encode(k, &vals, c) else { continue };
                let mut i = Instance::new(&format!("other#{cname}#{}#{}", k.name, imp_name(imp)), imp, c, vec![f, f_ver(c, 9)]);
                i.verify_version = true;
                i.chunks = Chunks::WholeOrBytes;
                i.allow_eof = false;
                out.push(i);
            }
        }
    }
    out
}

/// The flag reaches the connection from the builder: connect over loopback TCP to a server that
/// sends a VER with the given version.
fn builder_gate_case_udp(tokio_impl: bool, verify: Option<bool>, version: u8) -> Result<String, String> {
    let peer = std::net::UdpSocket::bind("127.0.0.1:0").map_err(|e| e.to_string())?;
    peer.set_read_timeout(Some(std::time::Duration::from_secs(2))).unwrap();
    let mut b = insim::udp(peer.local_addr().unwrap(), None);
    if let Some(v) = verify { b = b.verify_version(v); }
    let frame = f_ver(true, version);
    let mut buf = [0u8; 256];
    if tokio_impl {
        let rt = tokio::runtime::Builder::new_current_thread().enable_io().enable_time().build().unwrap();
        rt.block_on(async move {
            let mut conn = tokio::time::timeout(std::time::Duration::from_secs(2), b.connect_async()).await.map_err(|_| "connect timed out".to_string())?.map_err(|e| e.to_string())?;
            let (_, from) = peer.recv_from(&mut buf).map_err(|e| e.to_string())?;
            // the client binds 0.0.0.0: answer to the loopback address with its port
            let to = std::net::SocketAddr::from(([127, 0, 0, 1], from.port()));
            let _ = peer.send_to(&frame, to).map_err(|e| e.to_string())?;
            let r = tokio::time::timeout(std::time::Duration::from_secs(2), conn.read()).await.map_err(|_| "read timed out".to_string())?;
            Ok(crate::e2::world::render(&r))
        })
    } else {
        let mut conn = b.connect_blocking().map_err(|e| e.to_string())?;
        let (_, from) = peer.recv_from(&mut buf).map_err(|e| e.to_string())?;
        let to = std::net::SocketAddr::from(([127, 0, 0, 1], from.port()));
        let _ = peer.send_to(&frame, to).map_err(|e| e.to_string())?;
        Ok(crate::e2::world::render(&conn.read()))
    }
}

fn builder_gate_case(tokio_impl: bool, verify: Option<bool>, version: u8) -> Result<String, String> {
    use std::io::Write;
    let l = std::net::TcpListener::bind("127.0.0.1:0").map_err(|e| e.to_string())?;
    let mut b = insim::tcp(l.local_addr().unwrap()).connect_timeout(std::time::Duration::from_secs(2));
    if let Some(v) = verify { b = b.verify_version(v); }
    let frame = f_ver(true, version);
    if tokio_impl {
        let rt = tokio::runtime::Builder::new_current_thread().enable_io().enable_time().build().unwrap();
        rt.block_on(async move {
            let mut conn = tokio::time::timeout(std::time::Duration::from_secs(2), b.connect_async()).await.map_err(|_| "connect timed out".to_string())?.map_err(|e| e.to_string())?;
            let (mut s, _) = l.accept().map_err(|e| e.to_string())?;
            s.write_all(&frame).map_err(|e| e.to_string())?;
            let r = tokio::time::timeout(std::time::Duration::from_secs(2), conn.read()).await.map_err(|_| "read timed out".to_string())?;
            Ok(crate::e2::world::render(&r))
        })
    } else {
        let mut conn = b.connect_blocking().map_err(|e| e.to_string())?;
        let (mut s, _) = l.accept().map_err(|e| e.to_string())?;
        s.write_all(&frame).map_err(|e| e.to_string())?;
        Ok(crate::e2::world::render(&conn.read()))
    }
}

pub fn c09(tier: Tier, replay: Option<String>) -> i32 {
    if replay.is_none() {
        // builder -> connection: default is "verify", verify_version(false) switches the gate off
        for tokio_impl in [false, true] {
            for verify in [None, Some(true), Some(false)] {
                for version in [9u8, 8, 0, 10, 255] {
                    let gate = verify.unwrap_or(true);
                    let want_ok = !gate || version == 9;
                  for udp in [false, true] {
                    match crate::report::guard(|| if udp { builder_gate_case_udp(tokio_impl, verify, version) } else { builder_gate_case(tokio_impl, verify, version) }) {
                        Ok(Ok(r)) => {
                            let ok = if want_ok { r.starts_with("Ok(Ver(") } else { r == format!("Err(IncompatibleVersion({version}))") };
                            if !ok {
                                println!("VIOLATION property=C09 replay=/verif/replays/C09/builder-gate.json");
                                println!("  signature: C09|builder-gate|{}|{}", if udp { "udp" } else { "tcp" }, if tokio_impl { "tokio" } else { "blocking" });
                                println!("  witness:   {} connect_{} with verify_version {verify:?} and a VER of version {version}: read returned {}", if udp { "udp" } else { "tcp" }, if tokio_impl { "async" } else { "blocking" }, r.chars().take(80).collect::<String>());
                                let _ = std::fs::create_dir_all("/verif/replays/C09");
                                let _ = std::fs::write("/verif/replays/C09/builder-gate.json", json!({"property": "C09", "site": "builder-gate", "tokio": tokio_impl, "verify": verify, "version": version}).to_string());
                                return 1;
                            }
                        },
                        other => { eprintln!("MACHINERY: builder gate case failed: {other:?}"); return 4; },
                    }
                  }
                }
            }
        }
    }
    finish("C09", tier, replay, c09_instances(tier),
        "instances: every InSim version value 0..=255 x verification {on, off} x {blocking, tokio} x 4 positions in a packet history x both modes, delivered whole and byte by byte; histories with two VER packets (VER 9 / VER 8 before or after every version); every non-version kind with verification on; 60 loopback connects through the Builder (tcp / udp x default / verify_version(true) / verify_version(false) x 5 versions x blocking/tokio); oracle: a VER is delivered iff (not verifying or version = 9), otherwise IncompatibleVersion(v) with that v; later packets are still delivered",
        vec!["the builder-gate connects run before the search; a failure there is reported at once".into()])
}

// ---------------------------------------------------------------------------------------------

/// The caller gives up on a read (select! against a timer), writes, and may give up on that write as
/// well: keep-alive replies must reach the wire whole and exactly once whatever happens to the
/// caller's own packet.  The packet written is a SMALL (first byte differs from a reply's).
fn drop_write_instances(c: bool, family: &str, tier: Tier) -> Vec<Instance> {
    let mut out = vec![];
    let cname = if c { "compressed" } else { "uncompressed" };
    let alpha: Vec<(&str, Vec<u8>)> = vec![("ka", f_keepalive(c)), ("small", f_small(c))];
    let mut users: Vec<(String, Packet, bool)> = vec![
        ("write".to_string(), Packet::Small(Small { reqi: RequestId(7), subt: SmallType::Vta(VtnAction::End) }), false),
        // the same through handshake(): the ISI is a packet like any other as far as the wire goes
        ("handshake".to_string(), Packet::Isi(insim::insim::Isi { reqi: RequestId(1), iname: "verif".into(), ..Default::default() }), true),
        // the application answers keep-alives by hand as well: its packet is byte for byte a reply
        ("write-a-reply".to_string(), Packet::Tiny(Tiny { reqi: RequestId(0), subt: TinyType::None }), false),
    ];
    let basic = users.len();
    // what the application writes is not special: every TINY sub-type (a Close among them) and every kind's B1 packet
    {
        let codec = Codec::new(mode_of(c));
        for subt in 1..=31u8 {
            let mut b = bytes::BytesMut::from(&f_tiny(c, 7, subt)[..]);
            if let Ok(Ok(Some(p))) = crate::report::guard(|| codec.decode(&mut b)) {
                if matches!(crate::report::guard(|| codec.encode(&p)), Ok(Ok(_))) { users.push((format!("write-tiny-subt{subt}"), p, false)); }
            }
        }
        for k in spec::load().iter() {
            if k.name == "TINY" { continue; }
            let Some(f) = spec::ref_encode(k, &baseline(k, 1), c) else { continue };
            let mut b = bytes::BytesMut::from(&f[..]);
            if let Ok(Ok(Some(p))) = crate::report::guard(|| codec.decode(&mut b)) {
                if matches!(crate::report::guard(|| codec.encode(&p)), Ok(Ok(_))) { users.push((format!("write-{}", k.name), p, false)); }
            }
        }
    }
    let pong_lead = if c { 1u8 } else { 4u8 };
    for (ui, (uname, user, via_handshake)) in users.iter().enumerate() {
    let reduced = ui >= basic && tier == Tier::Quick;
    let lead = Codec::new(mode_of(c)).encode(user).map(|b| b[0]).unwrap_or(0);
    for seq in sequences(&alpha, 2) {
        if !seq.iter().any(|x| x.0 == "ka") { continue; }
        if reduced && seq.len() != 1 { continue; }
        let label: Vec<&str> = seq.iter().map(|x| x.0).collect();
        let frames: Vec<Vec<u8>> = seq.iter().map(|x| x.1.clone()).collect();
        for write_at in 1..=2usize {
            if reduced && write_at != 1 { continue; }
            let mut ops: Vec<Option<Packet>> = vec![None; 5];
            ops.insert(write_at, Some(user.clone()));
            let mut i = Instance::new(&format!("{family}#{cname}#{}-{uname}@{write_at}#tokio", label.join("+")), Impl::Tokio, c, frames.clone());
            i.program = Program::Ops(ops);
            i.chunks = Chunks::Boundary;
            i.script_writes = true;
            i.allow_eof = true;
            i.cancel_budget = 2;
            // (a reply-shaped packet torn by a dropped write could not be told from a torn reply)
            // (nor a packet whose frame starts with the byte a reply starts with: every 4-byte frame)
            i.cancel_writes = uname != "write-a-reply" && lead != pong_lead;
            i.isi_via_handshake = *via_handshake;
            i.pending_budget = 1;
            i.slow_flush = 1;
            let mut v = i.clone();
            v.label = format!("{}#vectored", i.label);
            v.vectored = true;
            out.push(i);
            if !reduced { out.push(v); }
        }
    }
    }
    out
}

pub fn c19_instances(tier: Tier) -> Vec<Instance> {
    let mut out = vec![];
    for c in [true, false] {
        let cname = if c { "compressed" } else { "uncompressed" };
        let alpha: Vec<(&str, Vec<u8>)> = vec![("ka", f_keepalive(c)), ("small", f_small(c)), ("mso", f_mso(c))];
        for seq in sequences(&alpha, if tier == Tier::Thorough { 4 } else { 3 }) {
            let label: Vec<&str> = seq.iter().map(|x| x.0).collect();
            let frames: Vec<Vec<u8>> = seq.iter().map(|x| x.1.clone()).collect();
            let total: usize = frames.iter().map(|f| f.len()).sum();
            let mut i = Instance::new(&format!("cancel#{cname}#{}#tokio", label.join("+")), Impl::Tokio, c, frames);
            i.chunks = if total <= 24 { Chunks::All } else { Chunks::Boundary };
            i.script_writes = true;
            i.allow_eof = true;
            i.cancel_budget = if tier == Tier::Thorough { 4 } else { 2 };
            i.pending_budget = 1;
            // (single frames: four steps, so that 90 s can pass across a dropped read while no single read has waited that long)
            i.tick_budget = if seq.len() == 1 { 4 } else if seq.len() <= 2 || tier == Tier::Thorough { 2 } else { 0 };
            // a transport whose flush takes two more polls: free on a connection that never flushes
            i.slow_flush = 2;
            if seq.len() <= 2 {
                // ... and the other ReadBuf coding style (initialize_unfilled + advance)
                let mut v = i.clone();
                v.label = format!("{}#init-unfilled", i.label);
                v.init_unfilled = true;
                v.tick_budget = 0;
                out.push(v);
            }
            out.push(i);
        }
        // the same drops late in a long session: the spare capacity of the receive buffer shrinks to
        // 0 and the allocation is reclaimed; a drop may fall on any of those states
        let long: Vec<Vec<u8>> = if c {
            let n = if tier == Tier::Thorough { 16 } else { 9 };
            (0..n).map(|i| if i % 2 == 0 { f_big(c, 1020, 200) } else { f_mci(c, 36) }).collect()
        } else {
            let n = if tier == Tier::Thorough { 64 } else { 30 };
            (0..n).map(|i| if i % 3 == 0 { f_big(c, 252, 200) } else if i % 3 == 1 { f_mci(c, 8) } else { f_keepalive(c) }).collect()
        };
        out.extend(drop_write_instances(c, "drop-write", tier));
        // the version gate is one more thing a read may be busy with when it is dropped
        let galpha: Vec<(&str, Vec<u8>)> = vec![("ver8", f_ver(c, 8)), ("ver9", f_ver(c, 9)), ("ka", f_keepalive(c)), ("small", f_small(c))];
        for seq in sequences(&galpha, 2) {
            if !seq.iter().any(|x| x.0.starts_with("ver")) { continue; }
            let label: Vec<&str> = seq.iter().map(|x| x.0).collect();
            let frames: Vec<Vec<u8>> = seq.iter().map(|x| x.1.clone()).collect();
            let mut i = Instance::new(&format!("cancel-gate#{cname}#{}#tokio", label.join("+")), Impl::Tokio, c, frames);
            i.verify_version = true;
            i.chunks = Chunks::Boundary;
            i.script_writes = true;
            i.allow_eof = true;
            i.cancel_budget = 2;
            i.pending_budget = 1;
            out.push(i);
        }
        // a whole receive buffer of small packets from one transport read: 1530 packets come out of
        // the buffer without the transport being asked; a suspension point of the future's own anywhere
        // in that run is a point where the caller may drop it
        let burst: Vec<Vec<u8>> = (0..1700usize).map(|j| if j % 7 == 3 { f_small(c) } else { f_tiny(c, (j % 250) as u8 + 1, 3) }).collect();
        let mut i = Instance::new(&format!("cancel-burst#{cname}#tokio"), Impl::Tokio, c, burst);
        i.chunks = Chunks::Fill(false);
        i.allow_eof = false;
        i.cancel_budget = 1;
        out.push(i);
        let mut i = Instance::new(&format!("cancel-long#{cname}#tokio"), Impl::Tokio, c, long);
        i.chunks = Chunks::Boundary;
        i.allow_eof = false;
        i.cancel_budget = if tier == Tier::Thorough { 2 } else { 1 };
        out.push(i);
        // the caller gives up on a read (select! against a timer) and WRITES before reading again:
        // the packet must not be interleaved with a half sent keep-alive reply
        let user = Packet::Tiny(Tiny { reqi: RequestId(9), subt: TinyType::Ping });
        for seq in sequences(&alpha, 2) {
            if !seq.iter().any(|x| x.0 == "ka") { continue; }
            let label: Vec<&str> = seq.iter().map(|x| x.0).collect();
            let frames: Vec<Vec<u8>> = seq.iter().map(|x| x.1.clone()).collect();
            for write_at in 1..=2usize {
                let mut ops: Vec<Option<Packet>> = vec![None; 5];
                ops.insert(write_at, Some(user.clone()));
                let mut i = Instance::new(&format!("cancel-then-write#{cname}#{}-write@{write_at}#tokio", label.join("+")), Impl::Tokio, c, frames.clone());
                i.program = Program::Ops(ops);
                i.chunks = Chunks::Boundary;
                i.script_writes = true;
                i.allow_eof = true;
                i.cancel_budget = 2;
                i.pending_budget = 1;
                out.push(i);
            }
        }
    }
    out
}

pub fn c19(tier: Tier, replay: Option<String>) -> i32 {
    finish("C19", tier, replay, c19_instances(tier),
        "instances = (mode, inbound sequence of length <= 3 (quick) / <= 4 (thorough) over {keep-alive, SMALL, MSO}); at every suspension point: read side Deliver(k) (every k for short streams) / Pending / EOF, write side (keep-alive reply) Accept(k in 1..=4) / Pending, and Cancel = drop the read() future at this poll and call read() again, budget 2 (quick) / 4 (thorough) cancels per session; oracle: results of all completed reads = the uninterrupted session's, outbound bytes always a prefix of pong x keep-alives and never a torn reply",
        vec!["the read() future is polled by hand inside a paused-clock current-thread runtime, so the 90 s timeout never fires and real time is not an input".into()])
}

#[allow(dead_code)]
fn unused() {
    let _ = (Codec::new(mode_of(true)), json!(null));
}
