//! C04 - decoding untrusted bytes is total, bounded and always progresses.
//! Deviation-bounded exhaustive enumeration of byte buffers against a reference framing model.

use std::sync::Arc;

use bytes::BytesMut;
use insim::net::Codec;
use serde_json::json;

use super::c02::mode_of;
use crate::{
    gen::{baseline, Gen},
    report::{guard, h64, hex, Acc, Site, Tier},
    spec::{self, Depth},
};

pub const SENTINEL_C: [u8; 4] = [1, 3, 0x5a, 3]; // TINY_PING reqi 0x5a, compressed
pub const SENTINEL_U: [u8; 4] = [4, 3, 0x5a, 3];

fn short(b: &[u8]) -> String {
    if b.len() <= 48 {
        hex(b)
    } else {
        format!("{} .. ({} bytes)", hex(&b[..48]), b.len())
    }
}

/// What the reference framing model says about a buffer.
#[derive(Debug, PartialEq)]
enum Expect {
    NeedMore,
    /// announced length < 4: can never be a frame
    Impossible,
    /// a whole frame of n bytes is present
    Frame(usize),
}

fn model(compressed: bool, input: &[u8]) -> Expect {
    if input.len() < 4 {
        // cannot even hold a minimal frame: either need-more, or (if the size byte is already
        // impossible) a framing error - both are accepted below
        if input.is_empty() {
            return Expect::NeedMore;
        }
    }
    if input.is_empty() {
        return Expect::NeedMore;
    }
    let n = if compressed {
        input[0] as usize * 4
    } else {
        input[0] as usize
    };
    if n < 4 {
        return Expect::Impossible;
    }
    if input.len() < n {
        return Expect::NeedMore;
    }
    Expect::Frame(n)
}

/// Judge one buffer. Records at most a few violations (distinct signatures).
pub fn judge(compressed: bool, input: &[u8], order: u64, replay: serde_json::Value, acc: &mut Acc) {
    judge_lazy(compressed, input, order, &|| replay.clone(), acc, false)
}

/// As `judge`, the replay record being built only when a violation is recorded.
/// `light` leaves out the frame-alone re-decode (independence from the following bytes), which the
/// other sites judge; totality, consumption, the tail and the successor are judged all the same.
pub fn judge_lazy(compressed: bool, input: &[u8], order: u64, replay: &dyn Fn() -> serde_json::Value, acc: &mut Acc, light: bool) {
    acc.eval();
    let m = if compressed { "compressed" } else { "uncompressed" };
    let codec = Codec::new(mode_of(compressed));
    let mut buf = BytesMut::from(input);
    let r = guard(|| codec.decode(&mut buf));
    let exp = model(compressed, input);
    let r = match r {
        Err(p) => {
            let site = match exp {
                Expect::Impossible => format!("size-byte-{}", input[0]),
                _ => format!("type-{}", input.get(1).copied().unwrap_or(0)),
            };
            acc.class("panic");
            acc.violate(
                order,
                format!("C04|decode|panic|{site}"),
                format!("[{m}] decoding {} panicked: {p}", short(input)),
                replay(),
            );
            return;
        },
        Ok(r) => r,
    };
    let consumed = input.len() - buf.len();
    match (&exp, &r) {
        (Expect::NeedMore, Ok(None)) => {
            if buf[..] != input[..] {
                acc.violate(order, "C04|decode|need-more-but-buffer-changed".into(),
                    format!("[{m}] {} -> need more data, but the buffer was modified", short(input)), replay());
            }
            acc.class("need-more");
        },
        (Expect::NeedMore, Err(_)) if input.len() < 4 && {
            let n = if compressed { input[0] as usize * 4 } else { input[0] as usize };
            n < 4
        } => {
            acc.class("framing-error");
        },
        (Expect::NeedMore, other) => {
            acc.class("bad-need-more");
            acc.violate(order, "C04|decode|incomplete-frame-not-need-more".into(),
                format!("[{m}] {} holds only part of the announced frame but the decoder returned {}", short(input), brief(other)), replay());
        },
        (Expect::Impossible, Err(_)) => {
            acc.class("framing-error");
        },
        (Expect::Impossible, Ok(None)) if input.len() < 4 => {
            // fewer than 4 bytes: waiting is acceptable
            if buf[..] != input[..] {
                acc.violate(order, "C04|decode|need-more-but-buffer-changed".into(),
                    format!("[{m}] {} -> need more data, but the buffer was modified", short(input)), replay());
            }
            acc.class("need-more");
        },
        (Expect::Impossible, other) => {
            acc.class("impossible-length-accepted");
            acc.violate(order, format!("C04|framing|announced-length-below-4|{m}"),
                format!("[{m}] size byte {} announces a frame shorter than 4 bytes; decoder returned {} after removing {consumed} byte(s) instead of a framing error", input[0], brief(other)), replay());
        },
        (Expect::Frame(n), Ok(None)) => {
            acc.class("stuck");
            acc.violate(order, "C04|decode|complete-frame-not-consumed".into(),
                format!("[{m}] {} holds a complete {n}-byte frame but the decoder asks for more data (no progress)", short(input)), replay());
        },
        (Expect::Frame(n), res) => {
            let n = *n;
            if consumed != n {
                acc.class("wrong-consumption");
                acc.violate(order, "C04|decode|consumed-not-announced".into(),
                    format!("[{m}] announced frame of {n} bytes but {consumed} byte(s) were removed from {}", short(input)), replay());
                return;
            }
            if buf[..] != input[n..] {
                acc.violate(order, "C04|decode|tail-corrupted".into(),
                    format!("[{m}] bytes after the frame were altered: {}", short(input)), replay());
                return;
            }
            if res.is_ok() {
                acc.class("packet");
            } else {
                acc.class("decode-error");
            }
            if light {
                // distinct by construction (the site skips pairs that leave either byte unchanged)
                acc.nontrivial();
            } else {
                acc.key(h64(&input[..n]) ^ compressed as u64);
            }
            // independence from what follows: same verdict on the frame alone
            if input.len() > n && !light {
                let mut alone = BytesMut::from(&input[..n]);
                let r2 = guard(|| codec.decode(&mut alone));
                let a = format!("{:?}", res);
                let b = match &r2 {
                    Ok(x) => format!("{:?}", x),
                    Err(p) => format!("panic {p}"),
                };
                if a != b {
                    acc.violate(order, format!("C04|decode|depends-on-following-bytes|type-{}", input[1]),
                        format!("[{m}] frame {} decodes differently when followed by {}: {} vs alone {}", short(&input[..n]), short(&input[n..]), a.chars().take(120).collect::<String>(), b.chars().take(120).collect::<String>()), replay());
                    return;
                }
            }
            if input.len() > n {
                // and the successor is intact and decodable
                let mut rest = buf.clone();
                let sent: &[u8] = if compressed { &SENTINEL_C } else { &SENTINEL_U };
                if input[n..] == *sent {
                    match guard(|| codec.decode(&mut rest)) {
                        Ok(Ok(Some(insim::Packet::Tiny(t)))) if t.reqi.0 == 0x5a => {},
                        other => {
                            acc.violate(order, "C04|decode|successor-lost".into(),
                                format!("[{m}] the TINY frame following {} was not delivered: {}", short(&input[..n]), match other { Ok(x) => format!("{x:?}").chars().take(100).collect::<String>(), Err(p) => p }), replay());
                        },
                    }
                }
            }
        },
    }
}

fn brief(r: &Result<Option<insim::Packet>, insim::Error>) -> String {
    match r {
        Ok(None) => "need-more".into(),
        Ok(Some(p)) => format!("packet {}", format!("{p:?}").chars().take(60).collect::<String>()),
        Err(e) => format!("error {}", e.to_string().chars().take(60).collect::<String>()),
    }
}

const ALPHA16: [u8; 16] = [0, 1, 2, 3, 4, 5, 63, 64, 65, 127, 128, 250, 251, 254, 255, b'^'];

fn counted_max_frames() -> Vec<(String, bool, Vec<u8>)> {
    let mut out = vec![];
    for compressed in [true, false] {
        let codec = Codec::new(mode_of(compressed));
        for c in crate::typed::counted() {
            for n in [1usize, c.max] {
                let Some(p) = (c.make)(n) else { continue };
                if let Ok(Ok(b)) = guard(|| codec.encode(&p)) {
                    out.push((format!("{} x{n} B1", c.kind), compressed, b.to_vec()));
                }
            }
        }
    }
    out
}

fn frames(gen: &Gen) -> Vec<(String, bool, Vec<u8>)> {
    // B0 and B1 reference frames of every kind (both modes where representable), plus one-element
    // and two-element frames of every counted kind
    let mut out = vec![];
    for k in &gen.kinds {
        for b in 0..2u8 {
            let vals = baseline(k, b);
            for c in [true, false] {
                if let Some(f) = spec::ref_encode(k, &vals, c) {
                    out.push((format!("{} B{b}", k.name), c, f));
                }
            }
        }
    }
    out
}

pub fn sites(tier: Tier) -> Vec<Site> {
    let gen = Arc::new(Gen::new(Depth::Light));
    let mut sites = vec![];

    // 1. every (size, type) header x fill x buffer length x mode
    sites.push(Site::new(
        "headers",
        65536 * 3 * 7 * 2,
        "every (size byte, type byte) x body fill {00, ff, 01 02 03.., 01s ending in 00, ffs ending in 00, 00s ending in ff, ramp ending in 00} x buffer length {announced, announced-1, announced+sentinel TINY} x mode",
        |i, acc| {
            let compressed = i % 2 == 0;
            let j = i / 2;
            let lenv = j % 3;
            let fill = (j / 3) % 7;
            let st = j / 21;
            let size = (st >> 8) as u8;
            let ty = (st & 255) as u8;
            let n = if compressed { size as usize * 4 } else { size as usize };
            let n_eff = n.max(4);
            let mut buf = vec![size, ty];
            for x in 2..n_eff {
                let last = x + 1 == n_eff;
                buf.push(match fill {
                    0 => 0,
                    1 => 0xff,
                    2 => (x - 1) as u8,
                    3 => if last { 0 } else { 1 },
                    4 => if last { 0 } else { 0xff },
                    5 => if last { 0xff } else { 0 },
                    _ => if last { 0 } else { (x - 1) as u8 },
                });
            }
            match lenv {
                0 => {},
                1 => {
                    let _ = buf.pop();
                },
                _ => buf.extend_from_slice(if compressed { &SENTINEL_C } else { &SENTINEL_U }),
            }
            if n < 4 {
                // keep at least 8 bytes so that an impossible length is visible with data behind it
                buf.extend_from_slice(if compressed { &SENTINEL_C } else { &SENTINEL_U });
            }
            let replay = json!({"site": "headers", "index": i, "input": hex(&buf[..buf.len().min(64)]), "mode": if compressed {"compressed"} else {"uncompressed"}});
            judge(compressed, &buf, i, replay, acc);
        },
    ));

    // 2. mutation distance 1 from valid frames
    let mut all_frames = frames(&gen);
    all_frames.extend(counted_max_frames());
    let fr = Arc::new(all_frames);
    let mut offs = vec![0u64];
    for f in fr.iter() {
        offs.push(offs.last().unwrap() + f.2.len() as u64 * 256);
    }
    let total_m1 = *offs.last().unwrap();
    {
        let fr = fr.clone();
        let offs = offs.clone();
        sites.push(Site::new(
            "mutation-1",
            total_m1,
            "every reference frame (73 kinds, B0 and B1, plus every counted kind with 1 and the maximum number of elements; both modes) x every byte position x all 256 values, followed by a sentinel TINY",
            move |i, acc| {
                let fi = match offs.binary_search(&i) {
                    Ok(x) => x,
                    Err(x) => x - 1,
                };
                let (name, compressed, frame) = &fr[fi];
                let r = i - offs[fi];
                let pos = (r / 256) as usize;
                let val = (r % 256) as u8;
                let mut buf = frame.clone();
                buf[pos] = val;
                buf.extend_from_slice(if *compressed { &SENTINEL_C } else { &SENTINEL_U });
                let replay = json!({"site": "mutation-1", "index": i, "frame": name, "position": pos, "value": val, "input": hex(&buf[..buf.len().min(64)])});
                judge(*compressed, &buf, i, replay, acc);
            },
        ));
    }

    // 2a. dictionary: the byte strings that mean something somewhere in the protocol (car codes, track codes, a game
    // version, code-page markers, the special object indices) written over every position of every reference frame -
    // a field that is "any four bytes" in one packet is a name with rules in another, and readers get shared
    {
        let fr = fr.clone();
        let mut tokens: Vec<Vec<u8>> = vec![];
        for c in crate::spec::BUILTIN_CARS.iter() { let mut t = c.as_bytes().to_vec(); t.push(0); tokens.push(t); }
        for t in ["BL1\0\0\0", "RO10X\0", "AS7R\0\0", "0.7F\0\0\0\0", "^J\u{83}A", "^^", "\0\0\0\0", "\u{ff}\u{ff}\u{ff}\u{ff}"] { tokens.push(t.chars().map(|c| c as u32 as u8).collect()); }
        tokens.extend([vec![252u8], vec![253], vec![254, 255], vec![0xdb, 0xf1, 0x2e, 0x00], vec![b'x', b'f', b'g', 0], vec![b'X', b'F', b'G', b' ']]);
        let tokens = Arc::new(tokens);
        let mut doffs = vec![0u64];
        for f in fr.iter() { doffs.push(doffs.last().unwrap() + f.2.len() as u64 * tokens.len() as u64); }
        let total = *doffs.last().unwrap();
        let nt = tokens.len() as u64;
        sites.push(Site::new(
            "dictionary",
            total,
            &format!("every reference frame (both modes) x every byte position x {nt} protocol tokens (the 20 standard car codes with their NUL, track codes, a game version, code-page markers, special object indices, a mod id, near-misses of a car code) written over the bytes there, followed by a sentinel TINY"),
            move |i, acc| {
                let fi = match doffs.binary_search(&i) { Ok(x) => x, Err(x) => x - 1 };
                let (name, compressed, frame) = &fr[fi];
                let r = i - doffs[fi];
                let pos = (r / nt) as usize;
                let tok = &tokens[(r % nt) as usize];
                if pos < 2 && tok.len() > 1 { return; } // (size and type bytes: the header sites)
                let mut buf = frame.clone();
                for (k, b) in tok.iter().enumerate() { if pos + k < buf.len() { buf[pos + k] = *b; } }
                buf.extend_from_slice(if *compressed { &SENTINEL_C } else { &SENTINEL_U });
                let replay = json!({"site": "dictionary", "index": i, "frame": name, "position": pos, "token": hex(tok), "input": hex(&buf[..buf.len().min(64)])});
                judge(*compressed, &buf, i, replay, acc);
            },
        ));
    }

    // 2b. truncations (with and without the size byte adjusted) and extension by 4
    {
        let fr = fr.clone();
        let mut toffs = vec![0u64];
        for f in fr.iter() {
            toffs.push(toffs.last().unwrap() + ((f.2.len() as u64) * 2 + 1) * 3);
        }
        let total = *toffs.last().unwrap();
        sites.push(Site::new(
            "truncation",
            total,
            "every reference frame x every truncation point {size byte kept, size byte adjusted to the new length} x last byte {as it was, 00, ff} + extension by 4 zero bytes with the size byte adjusted",
            move |i, acc| {
                let fi = match toffs.binary_search(&i) {
                    Ok(x) => x,
                    Err(x) => x - 1,
                };
                let (name, compressed, frame) = &fr[fi];
                let r3 = (i - toffs[fi]) as usize;
                // the last byte of the shortened frame as it was, 00, ff
                let last_variant = r3 % 3;
                let r = r3 / 3;
                let len = frame.len();
                let mut buf;
                let what;
                if r == 2 * len {
                    buf = frame.clone();
                    buf.extend_from_slice(&[0, 0, 0, 0]);
                    let nl = buf.len();
                    if (*compressed && nl > 1020) || (!*compressed && nl > 255) {
                        return;
                    }
                    buf[0] = if *compressed { (nl / 4) as u8 } else { nl as u8 };
                    what = "extended by 4".to_string();
                } else {
                    let cut = r / 2;
                    let adjust = r % 2 == 1;
                    buf = frame[..cut].to_vec();
                    if adjust {
                        if cut == 0 || (*compressed && cut % 4 != 0) {
                            return;
                        }
                        buf[0] = if *compressed { (cut / 4) as u8 } else { cut as u8 };
                        buf.extend_from_slice(if *compressed { &SENTINEL_C } else { &SENTINEL_U });
                    }
                    what = format!("cut at {cut}, size byte {}, last byte {}", if adjust { "adjusted" } else { "kept" }, ["kept", "00", "ff"][last_variant]);
                    if last_variant > 0 && cut >= 3 {
                        let at = if adjust { cut - 1 } else { cut - 1 };
                        buf[at] = if last_variant == 1 { 0 } else { 0xff };
                    } else if last_variant > 0 {
                        return;
                    }
                }
                if r == 2 * len && last_variant > 0 {
                    return;
                }
                let replay = json!({"site": "truncation", "index": i, "frame": name, "what": what, "input": hex(&buf[..buf.len().min(64)])});
                judge(*compressed, &buf, i, replay, acc);
            },
        ));
    }

    // 3. mutation distance 2 on structure bytes: size, type, byte 3 (sub-type / count / zero) and the
    // first discriminant-like field after the header
    {
        let b1frames: Vec<(String, bool, Vec<u8>)> = fr
            .iter()
            .filter(|f| f.0.ends_with("B1"))
            .cloned()
            .collect();
        let b1frames = Arc::new(b1frames);
        let pairs: [(usize, usize); 6] = [(0, 1), (0, 3), (1, 3), (3, 4), (1, 4), (3, 5)];
        let vals: Vec<u8> = if tier == Tier::Thorough {
            (0..=255).collect()
        } else {
            ALPHA16.to_vec()
        };
        let nv = vals.len() as u64;
        let per_frame = pairs.len() as u64 * nv * nv;
        let total = b1frames.len() as u64 * per_frame;
        let vals = Arc::new(vals);
        sites.push(Site::new(
            "mutation-2-structure",
            total,
            "every B1 reference frame x position pairs among {size, type, byte 3, byte 4, byte 5} x all value pairs (thorough: 256x256, quick: 16x16 alphabet), followed by a sentinel TINY",
            move |i, acc| {
                let fi = (i / per_frame) as usize;
                let r = i % per_frame;
                let pi = (r / (nv * nv)) as usize;
                let a = vals[((r / nv) % nv) as usize];
                let b = vals[(r % nv) as usize];
                let (name, compressed, frame) = &b1frames[fi];
                let (p, q) = pairs[pi];
                if q >= frame.len() {
                    return;
                }
                let mut buf = frame.clone();
                buf[p] = a;
                buf[q] = b;
                buf.extend_from_slice(if *compressed { &SENTINEL_C } else { &SENTINEL_U });
                let replay = json!({"site": "mutation-2-structure", "index": i, "frame": name, "positions": [p, q], "values": [a, b], "input": hex(&buf[..buf.len().min(64)])});
                judge(*compressed, &buf, i, replay, acc);
            },
        ));
    }

    // 3b. (thorough) mutation distance 2 on ANY two of the first 12 bytes, over the 16-symbol alphabet
    if tier == Tier::Thorough {
        let all: Vec<(String, bool, Vec<u8>)> = fr.iter().cloned().collect();
        let all = Arc::new(all);
        let mut pairs: Vec<(usize, usize)> = vec![];
        for p in 0..12 { for q in (p + 1)..12 { pairs.push((p, q)); } }
        let pairs = Arc::new(pairs);
        let per_frame = pairs.len() as u64 * 256;
        let total = all.len() as u64 * per_frame;
        sites.push(Site::new("mutation-2-any",
            total,
            "every reference frame (B0 and B1, both modes) x every pair of positions among the first 12 bytes x all pairs over the 16-symbol alphabet, followed by a sentinel TINY",
            move |i, acc| {
                let fi = (i / per_frame) as usize;
                let r = i % per_frame;
                let (p, q) = pairs[(r / 256) as usize];
                let a = ALPHA16[((r / 16) % 16) as usize];
                let b = ALPHA16[(r % 16) as usize];
                let (name, compressed, frame) = &all[fi];
                if q >= frame.len() { return; }
                let mut buf = frame.clone();
                buf[p] = a;
                buf[q] = b;
                buf.extend_from_slice(if *compressed { &SENTINEL_C } else { &SENTINEL_U });
                let replay = json!({"site": "mutation-2-any", "index": i, "frame": name, "positions": [p, q], "values": [a, b], "input": hex(&buf[..buf.len().min(64)])});
                judge(*compressed, &buf, i, replay, acc);
            }));
    }

    // 3c. mutation distance 2 on ADJACENT bytes, all 65536 value pairs: the deviation that turns one
    // character of a string-valued field into a multi-byte sequence, or both halves of a 16-bit
    // field at once.  quick: pairs inside (or straddling the end of) every string-valued top-level
    // field (gamever, vehicle, track, char, raw, fixed and variable text; first 4 and last 2 bytes of the
    // field); thorough: every adjacent pair of every B0/B1 reference frame.
    {
        let mut targets: Vec<(String, bool, Vec<u8>, usize)> = vec![];
        for k in &gen.kinds {
            for b in 0..2u8 {
                let vals = baseline(k, b);
                let lay = spec::layout(k, &vals);
                for c in [true, false] {
                    let Some(f) = spec::ref_encode(k, &vals, c) else { continue };
                    let mut ps: Vec<usize> = vec![];
                    if tier == Tier::Thorough {
                        ps.extend(0..f.len() - 1);
                    } else if b == 1 {
                        for (fi, start, len) in &lay {
                            let stringy = matches!(
                                k.fields[*fi].ty,
                                spec::Ty::GameVer
                                    | spec::Ty::Vehicle
                                    | spec::Ty::Track
                                    | spec::Ty::Char
                                    | spec::Ty::Raw(_)
                                    | spec::Ty::Text(_)
                                    | spec::Ty::VarText { .. }
                            );
                            if !stringy || *len == 0 {
                                continue;
                            }
                            let parsed = matches!(k.fields[*fi].ty, spec::Ty::GameVer | spec::Ty::Vehicle | spec::Ty::Track);
                            for o in 0..*len {
                                if parsed || o < 3 || o + 2 >= *len {
                                    ps.push(start + o);
                                }
                            }
                        }
                        ps.retain(|p| p + 1 < f.len());
                        ps.sort();
                        ps.dedup();
                    }
                    for p in ps {
                        targets.push((format!("{} B{b}", k.name), c, f.clone(), p));
                    }
                }
            }
        }
        let total = targets.len() as u64 * 65536;
        let targets = Arc::new(targets);
        sites.push(Site::new(
            "mutation-2-adjacent",
            total,
            "reference frames (both modes) x adjacent byte positions (p, p+1) x all 65536 value pairs, followed by a sentinel TINY; quick: B1 frames, positions inside or straddling the end of every string-valued top-level field (gamever, vehicle, track: all; char, raw, text: first 3 and last 2 bytes); thorough: B0 and B1 frames, every position",
            move |i, acc| {
                let (name, compressed, frame, p) = &targets[(i / 65536) as usize];
                let a = ((i % 65536) >> 8) as u8;
                let b = (i & 255) as u8;
                if a == frame[*p] || b == frame[*p + 1] {
                    // distance <= 1: the mutation-1 site
                    return;
                }
                let mut buf = frame.clone();
                buf[*p] = a;
                buf[*p + 1] = b;
                buf.extend_from_slice(if *compressed { &SENTINEL_C } else { &SENTINEL_U });
                let replay = || json!({"site": "mutation-2-adjacent", "index": i, "frame": name, "positions": [p, p + 1], "values": [a, b], "input": hex(&buf[..buf.len().min(64)])});
                judge_lazy(*compressed, &buf, i, &replay, acc, true);
            },
        ));
    }

    // (the text-bearing fields found by the text-storm block, shared with the token-sequence site behind it)
    let text_targets: Arc<Vec<(String, bool, Vec<u8>, usize, usize)>>;
    // 3d. text storms: every text-bearing field (fixed and variable, the latter at its maximum length) filled
    // with {nothing, a, ab, one high byte} + one unit repeated to the end of the field - "any number" of
    // markers, resets, lone carets, double-byte characters with caret-like or lead-like trail bytes
    {
        let units: Vec<Vec<u8>> = vec![
            b"^L".to_vec(), b"^J".to_vec(), b"^8".to_vec(), b"^".to_vec(), b"^^".to_vec(), b"^Ja".to_vec(), b"^E\xe9".to_vec(),
            vec![0x83, 0x5e], vec![b'^', b'J', 0x83, 0x5e], vec![0x5e, 0x83], vec![b'^', b'K', 0x94, 0xee],
            vec![b'^', b'J', 0xfa, 0x5e], vec![b'^', b'H', 0xa1, 0x5e], vec![b'^', b'S', 0x81, 0x5e, b'8'], b"a^C\xf8".to_vec(),
            b"^L^G^C^E^T^B^J^S^K^H".to_vec(), vec![0xff], vec![0x80], b"^\x00".to_vec(), b"a".to_vec(), vec![0xe9], vec![0x83, 0x41],
        ];
        let prefixes: Vec<Vec<u8>> = vec![vec![], b"a".to_vec(), b"ab".to_vec(), vec![0xe9], b"^E".to_vec(), b"^J".to_vec()];
        let mut targets: Vec<(String, bool, Vec<u8>, usize, usize)> = vec![];
        for k in &gen.kinds {
            let mut vals = baseline(k, 1);
            for (fi, f) in k.fields.iter().enumerate() {
                if let spec::Ty::VarText { max, .. } = &f.ty {
                    vals[fi] = spec::Val::S("Z".repeat(max.saturating_sub(4).max(1)));
                }
            }
            let lay = spec::layout(k, &vals);
            for c in [true, false] {
                let Some(f) = spec::ref_encode(k, &vals, c) else { continue };
                for (fi, start, len) in &lay {
                    if matches!(k.fields[*fi].ty, spec::Ty::Text(_) | spec::Ty::Raw(_) | spec::Ty::VarText { .. }) && *len >= 4 {
                        targets.push((format!("{} {}", k.name, k.fields[*fi].name), c, f.clone(), *start, *len));
                    }
                }
            }
        }
        // variable texts also far beyond their specified maximum: the reader takes whatever the frame holds
        // (compressed frames of 600 and 1020 bytes)
        for k in &gen.kinds {
            let vals = baseline(k, 1);
            let lay = spec::layout(k, &vals);
            let Some(f) = spec::ref_encode(k, &vals, true) else { continue };
            for (fi, start, _) in &lay {
                if matches!(k.fields[*fi].ty, spec::Ty::VarText { .. }) {
                    for total_len in [600usize, 1020] {
                        let mut big = f[..*start].to_vec();
                        big.resize(total_len, b'Z');
                        big[0] = (total_len / 4) as u8;
                        targets.push((format!("{} {} oversize {total_len}", k.name, k.fields[*fi].name), true, big, *start, total_len - *start));
                    }
                }
            }
        }
        let per = (units.len() * prefixes.len()) as u64;
        let total = targets.len() as u64 * per;
        let targets = Arc::new(targets);
        text_targets = targets.clone();
        sites.push(Site::new(
            "text-storm",
            total,
            "every text-bearing field of every kind (variable ones at their maximum length; both modes) (and, for variable texts, compressed frames of 600 and 1020 bytes) filled with {nothing, a, ab, one high byte, ^E, ^J} + one of 22 units repeated to the end of the field, followed by a sentinel TINY",
            move |i, acc| {
                let (name, compressed, frame, start, len) = &targets[(i / per) as usize];
                let r = (i % per) as usize;
                let u = &units[r % units.len()];
                let p = &prefixes[r / units.len()];
                let mut fill = p.clone();
                while fill.len() < *len {
                    fill.extend_from_slice(u);
                }
                fill.truncate(*len);
                let mut buf = frame.clone();
                buf[*start..*start + *len].copy_from_slice(&fill);
                buf.extend_from_slice(if *compressed { &SENTINEL_C } else { &SENTINEL_U });
                let replay = || json!({"site": "text-storm", "index": i, "field": name, "input": hex(&buf[..buf.len().min(96)])});
                judge_lazy(*compressed, &buf, i, &replay, acc, false);
            },
        ));
    }

    // 3d'. sequences of code-page TOKENS in every text field: all sequences of up to 3 (thorough: 4) tokens over 18
    // markers and bytes, at the start of the field (NULs behind) and at its very end (filler in front)
    {
        let tokens: Vec<Vec<u8>> = vec![
            b"^L".to_vec(), b"^J".to_vec(), b"^H".to_vec(), b"^S".to_vec(), b"^K".to_vec(), b"^E".to_vec(), b"^C".to_vec(), b"^G".to_vec(), b"^8".to_vec(), b"^".to_vec(),
            vec![0x83], vec![0xe9], vec![0xa1], vec![0xf8], vec![0xff], b"A".to_vec(), b"8".to_vec(), b"J".to_vec(),
        ];
        let maxlen: u32 = 4;
        let thorough_tokens = tier == Tier::Thorough;
        let k = tokens.len() as u64;
        let mut starts = vec![];
        let mut count = 0u64;
        for l in 1..=maxlen { starts.push(count); count += k.pow(l); }
        // (the oversize frames of the storm site stay there: tokens need no 1020-byte frame)
        let targets: Arc<Vec<(String, bool, Vec<u8>, usize, usize)>> = Arc::new(text_targets.iter().filter(|t| !t.0.contains("oversize")).cloned().collect());
        let per = count * 2;
        sites.push(Site::new(
            "text-token-sequences",
            targets.len() as u64 * per,
            &format!("every text-bearing field of every kind (both modes) x all sequences of 1..={maxlen} tokens (quick: 4-token sequences in six fields, up to 3 tokens in all) over {{10 markers incl. ^8 and a lone caret, 5 high bytes, A, 8, J}} x {{at the start of the field with NULs behind, at the very end with filler in front}}, followed by a sentinel TINY"),
            move |i, acc| {
                let (name, compressed, frame, start, len) = &targets[(i / per) as usize];
                let r = i % per;
                let at_end = r % 2 == 1;
                let q = r / 2;
                let l = starts.iter().rposition(|s| *s <= q).unwrap();
                // (quick tier: the longest sequences in six fields only - one in eight would do as well, the scan is shared)
                if l as u32 + 1 == maxlen && !thorough_tokens && (i / per) >= 6 { return; }
                let mut j = q - starts[l];
                let mut text = vec![];
                for _ in 0..=l { text.extend_from_slice(&tokens[(j % k) as usize]); j /= k; }
                if text.len() > *len { return; }
                let mut fill = vec![if at_end { b'a' } else { 0u8 }; *len];
                if at_end { let at = *len - text.len(); fill[at..].copy_from_slice(&text); } else { fill[..text.len()].copy_from_slice(&text); }
                let mut buf = frame.clone();
                buf[*start..*start + *len].copy_from_slice(&fill);
                buf.extend_from_slice(if *compressed { &SENTINEL_C } else { &SENTINEL_U });
                let replay = || json!({"site": "text-token-sequences", "index": i, "field": name, "input": hex(&buf[..buf.len().min(96)])});
                judge_lazy(*compressed, &buf, i, &replay, acc, false);
            },
        ));
    }

    // 3d''. texts that decode to characters OUTSIDE the basic plane (four-byte GB18030 sequences under ^S: the only way the wire
    // can carry them) in every text field, with every other byte of the frame taking all 256 values: a neighbouring
    // length, count or mode byte that makes the reader cut, pad or index the decoded text meets surrogate pairs
    {
        let targets: Vec<(String, bool, Vec<u8>, usize, usize)> = text_targets.iter().filter(|t| !t.0.contains("oversize") && t.4 >= 8).cloned().collect();
        let mut offs = vec![0u64];
        for t in &targets { offs.push(offs.last().unwrap() + (t.2.len() as u64 - 1) * 256); }
        let total = *offs.last().unwrap();
        let targets = Arc::new(targets);
        sites.push(Site::new(
            "astral-text-with-any-neighbour-byte",
            total,
            "every text-bearing field of every kind (both modes) holding ^S and as many four-byte GB18030 sequences (U+10000, U+1F600) as fit behind two ASCII characters x every other byte position of the frame x all 256 values, followed by a sentinel TINY",
            move |i, acc| {
                let ti = match offs.binary_search(&i) { Ok(x) => x, Err(x) => x - 1 };
                let (name, compressed, frame, start, len) = &targets[ti];
                let r = i - offs[ti];
                let pos = 1 + (r / 256) as usize;
                let val = (r % 256) as u8;
                if pos >= *start && pos < *start + *len { return; }
                let mut fill = vec![0u8; *len];
                let mut text = vec![b'a', b'^', b'S', b'b'];
                let seqs: [[u8; 4]; 2] = [[0x90, 0x30, 0x81, 0x30], [0x94, 0x39, 0xfc, 0x36]];
                let mut k = 0usize;
                while text.len() + 4 < *len { text.extend_from_slice(&seqs[k % 2]); k += 1; }
                fill[..text.len()].copy_from_slice(&text);
                let mut buf = frame.clone();
                buf[*start..*start + *len].copy_from_slice(&fill);
                buf[pos] = val;
                buf.extend_from_slice(if *compressed { &SENTINEL_C } else { &SENTINEL_U });
                let replay = || json!({"site": "astral-text-with-any-neighbour-byte", "index": i, "field": name, "position": pos, "value": val, "input": hex(&buf[..buf.len().min(96)])});
                judge_lazy(*compressed, &buf, i, &replay, acc, false);
            },
        ));
    }

    // 3e. IS_MSO, the one packet whose parser relates two of its fields (TextStart and the message): every
    // message of length 4 and 8 over {a ^ E J 0xEC 0x83 0x9F NUL} x every TextStart 0..=length+1
    {
        const A: [u8; 8] = [b'a', b'^', b'E', b'J', 0xec, 0x83, 0x9f, 0];
        let thorough = tier == Tier::Thorough;
        let n4: u64 = 8u64.pow(4) * 6;
        let n8: u64 = if thorough { 8u64.pow(8) * 10 } else { 8u64.pow(6) * 10 };
        sites.push(Site::new("mso-marker-corpus", (n4 + n8) * 2,
            "IS_MSO frames with every message of length 4 (and 8; quick: last two bytes 'a' NUL) over {a ^ E J 0xEC 0x83 0x9F NUL} x every TextStart 0..=length+1 x mode, followed by a sentinel TINY",
            move |i, acc| {
                let compressed = i % 2 == 0;
                let j = i / 2;
                let (len, mut k, ts) = if j < n4 { (4usize, j / 6, (j % 6) as usize) } else { let q = j - n4; (8usize, q / 10, (q % 10) as usize) };
                let free = if len == 4 { 4 } else if thorough { 8 } else { 6 };
                let mut msg = vec![];
                for _ in 0..free { msg.push(A[(k % 8) as usize]); k /= 8; }
                while msg.len() < len { msg.push(if msg.len() == len - 1 { 0 } else { b'a' }); }
                let total = 8 + len;
                let mut buf = vec![if compressed { (total / 4) as u8 } else { total as u8 }, 11, 0, 0, 1, 2, 1, ts as u8];
                buf.extend_from_slice(&msg);
                buf.extend_from_slice(if compressed { &SENTINEL_C } else { &SENTINEL_U });
                let replay = || json!({"site": "mso-marker-corpus", "index": i, "input": hex(&buf)});
                judge_lazy(compressed, &buf, i, &replay, acc, true);
            },
        ));
    }

    // 3f. no memory between calls: every ordered pair of reference frames (B1 of every kind, a few broken
    // ones) decoded back to back on one thread - the second outcome is the one the frame has on its own
    {
        let mut corpus: Vec<(String, bool, Vec<u8>)> = fr.iter().filter(|f| f.0.ends_with("B1") && !f.0.contains(" x")).cloned().collect();
        for c in [true, false] {
            corpus.push(("unknown type".into(), c, vec![if c { 1 } else { 4 }, 200, 0, 0]));
            corpus.push(("bad CIM".into(), c, vec![if c { 2 } else { 8 }, 64, 0, 0, 9, 0, 0, 0]));
            corpus.push(("short".into(), c, vec![if c { 2 } else { 8 }, 3, 0]));
        }
        let corpus = Arc::new(corpus);
        let n = (corpus.len() * corpus.len()) as u64;
        sites.push(Site::new("decode-pairs", n,
            "every ordered pair of (B1 reference frame of every kind in both modes + 6 broken frames) decoded back to back on one thread",
            move |i, acc| {
                acc.eval();
                let (na, ca, fa) = &corpus[(i as usize) / corpus.len()];
                let (nb, cb, fb) = &corpus[(i as usize) % corpus.len()];
                let dec = |c: bool, f: &[u8]| {
                    let codec = Codec::new(mode_of(c));
                    let mut b = BytesMut::from(f);
                    let r = guard(|| codec.decode(&mut b));
                    (format!("{r:?}"), b.len())
                };
                let alone = dec(*cb, fb);
                let _ = dec(*ca, fa);
                let after = dec(*cb, fb);
                if alone == after { acc.class("pair-agrees"); acc.nontrivial(); }
                else {
                    acc.violate(i, format!("C04|decode|history-dependent|type-{}", fb.get(1).copied().unwrap_or(0)), format!("{nb} decodes to {} right after {na}, to {} otherwise", after.0.chars().take(100).collect::<String>(), alone.0.chars().take(100).collect::<String>()), json!({"site": "decode-pairs", "index": i}));
                }
            },
        ));
    }

    // 4. all short buffers over a 16-symbol alphabet
    let maxlen = if tier == Tier::Thorough { 6 } else { 5 };
    let mut count = 0u64;
    let mut starts = vec![];
    for l in 0..=maxlen {
        starts.push(count);
        count += 16u64.pow(l as u32);
    }
    let starts2 = starts.clone();
    sites.push(Site::new(
        "short-buffers",
        count * 2,
        "all byte strings of length 0..=L over {0,1,2,3,4,5,63,64,65,127,128,250,251,254,255,'^'} x mode (L=5 quick, 6 thorough)",
        move |i, acc| {
            let compressed = i % 2 == 0;
            let mut j = i / 2;
            let mut l = 0;
            for (k, s) in starts2.iter().enumerate() {
                if j >= *s {
                    l = k;
                }
            }
            j -= starts2[l];
            let mut buf = vec![];
            for _ in 0..l {
                buf.push(ALPHA16[(j % 16) as usize]);
                j /= 16;
            }
            let replay = json!({"site": "short-buffers", "index": i, "input": hex(&buf)});
            judge(compressed, &buf, i, replay, acc);
        },
    ));
    // 4b. length 8: free 4-byte header over the alphabet, 3 fills
    sites.push(Site::new(
        "header-8",
        16u64.pow(4) * 3 * 2,
        "all 4-byte headers over the 16-symbol alphabet followed by 4 fill bytes {00, ff, 5e} x mode",
        |i, acc| {
            let compressed = i % 2 == 0;
            let mut j = i / 2;
            let fill = [0u8, 0xff, 0x5e][(j % 3) as usize];
            j /= 3;
            let mut buf = vec![];
            for _ in 0..4 {
                buf.push(ALPHA16[(j % 16) as usize]);
                j /= 16;
            }
            buf.extend_from_slice(&[fill; 4]);
            let replay = json!({"site": "header-8", "index": i, "input": hex(&buf)});
            judge(compressed, &buf, i, replay, acc);
        },
    ));
    // no memory between threads: histories of 2 and 3 decodes spread over two threads (rejected frames among them)
    {
        let mut corpus: Vec<(String, (bool, Vec<u8>))> = vec![];
        for k in spec::load().iter() {
            if !["TINY", "SMALL", "MSO", "VER", "MCI", "NPL", "MAL", "CIM"].contains(&k.name.as_str()) { continue; }
            let c = k.name.len() % 2 == 1;
            let Some(f) = spec::ref_encode(k, &crate::gen::baseline(k, 1), c) else { continue };
            corpus.push((format!("decode {} ({})", k.name, if c { "compressed" } else { "uncompressed" }), (c, f)));
        }
        corpus.push(("decode an unknown type".into(), (true, vec![1, 200, 0, 0])));
        corpus.push(("decode a CIM with an undefined mode".into(), (true, vec![2, 64, 0, 0, 9, 0, 0, 0])));
        corpus.push(("decode half a frame".into(), (true, vec![3, 11, 0, 0, 0, 0])));
        corpus.push(("decode size byte 0".into(), (true, vec![0, 3, 0, 0])));
        sites.push(crate::crossthread::site("C04", "cross-thread-decodes", "Codec::decode", corpus, |(c, f): &(bool, Vec<u8>)| {
            let mut b = BytesMut::from(&f[..]);
            let r = Codec::new(mode_of(*c)).decode(&mut b);
            (match r { Ok(Some(p)) => format!("Ok({p:?})"), Ok(None) => "need more".into(), Err(e) => format!("Err({})", e.to_string().chars().take(60).collect::<String>()) }, b.to_vec())
        }));
    }
    sites
}

pub fn run(tier: Tier, replay: Option<String>) -> i32 {
    super::run_e1(
        "C04",
        tier,
        "exploration",
        replay,
        sites(tier),
        "deviation-bounded exhaustive enumeration of byte buffers (all headers; all 1-byte mutations of all reference frames; 2-byte mutations of structure bytes; all truncations; all short buffers over a 16-symbol alphabet); non-trivial = a complete announced frame reached the packet parser (distinct frames hashed)",
        vec![
            "reference framing model: size byte -> n (x4 compressed); n<4 impossible; need-more iff fewer than n bytes; otherwise exactly n bytes removed".into(),
            "uncompressed announced lengths that are not multiples of 4 are accepted either way (the property does not name them impossible)".into(),
        ],
        |_, _| {},
    )
}
