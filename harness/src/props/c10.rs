//! C10 - code-page text conversion is faithful, total and uses LFS's tables.
//! The encoder/decoder pair is a finite automaton over the current code page (10 states); all
//! (state, character) transitions, all table cells and all short strings over class alphabets
//! are enumerated and compared with reference tables dumped from CPython's codecs.

use std::sync::Arc;

use insim::core::string::codepages::{to_lossy_bytes, to_lossy_string};
use serde_json::json;

use crate::{
    reftext::{Tables, ENC_ORDER, LETTERS},
    report::{guard, h64, hex, Acc, Site, Tier},
};

fn home_page(t: &Tables, c: char) -> char {
    for l in ENC_ORDER {
        if t.pages[&l].chars.contains(&c) {
            return l;
        }
    }
    '-'
}

fn roundtrip_case(t: &Tables, s: &str, order: u64, site: &str, state: &str, acc: &mut Acc) {
    acc.eval();
    let expected: String = s
        .chars()
        .map(|c| if (c as u32) < 0x80 || t.union.contains(&c) { c } else { '?' })
        .collect();
    let replay = json!({"site": site, "index": order, "string": s});
    let enc = match guard(|| to_lossy_bytes(s).to_vec()) {
        Ok(b) => b,
        Err(p) => {
            acc.class("encode-panic");
            acc.violate(order, "C10|encode|panic".into(), format!("to_lossy_bytes({s:?}) panicked: {p}"), replay);
            return;
        },
    };
    let dec = match guard(|| to_lossy_string(&enc).to_string()) {
        Ok(d) => d,
        Err(p) => {
            acc.class("decode-panic");
            acc.violate(order, "C10|decode|panic".into(), format!("to_lossy_string({}) panicked: {p}", hex(&enc)), replay);
            return;
        },
    };
    if dec == expected {
        acc.class(if expected == s { "round-trips" } else { "unrepresentable->?" });
        acc.key(h64(s.as_bytes()));
        return;
    }
    // which character went wrong?
    let bad = expected.chars().zip(dec.chars()).find(|(a, b)| a != b).map(|(a, _)| a).unwrap_or('\u{0}');
    let home = home_page(t, bad);
    let kind = if !t.union.contains(&bad) && (bad as u32) >= 0x80 { "unrepresentable-not-question-mark" } else { "character-changed" };
    acc.class("lossy");
    acc.violate(order, format!("C10|roundtrip|{kind}|state-{state}|home-{home}"),
        format!("{s:?} -> {} -> {dec:?} (expected {expected:?}; character U+{:04X}, first page that has it: {home})", hex(&enc), bad as u32), replay);
}


/// Judge the decoder on one byte string against the reference decoder (strings with an escaped
/// caret belong to C12).
fn judge_bytes(tt: &Tables, b: &[u8], i: u64, site: &str, acc: &mut crate::report::Acc) {
    let b = b.to_vec();
        if b.windows(2).any(|w| w == b"^^") {
            return;
        }
        acc.eval();
        let replay = json!({"site": site, "index": i, "input": hex(&b[..b.len().min(96)]), "length": b.len()});
        let got = match guard(|| to_lossy_string(&b).to_string()) {
            Ok(g) => g,
            Err(p) => {
                acc.class("decode-panic");
                acc.violate(i, "C10|decode|panic".into(), format!("to_lossy_string({}) panicked: {p}", hex(&b[..b.len().min(96)])), replay);
                return;
            },
        };
        let Some(want) = tt.ref_decode(&b) else { acc.class("reference-undefined"); return; };
        // cell identity of the double-byte pages is judged by the table sites (by agreement
        // ratio); here only the structure matters once a DBCS page has been selected
        let dbcs_used = b.windows(2).any(|w| w[0] == b'^' && matches!(w[1], b'J' | b'S' | b'K' | b'H'));
        let norm = |s: &str| -> String { s.chars().map(|c| if (c as u32) < 0x80 { c } else { '#' }).collect() };
        if got == want || (dbcs_used && norm(&got) == norm(&want) && !got.contains('\u{fffd}')) {
            acc.class("matches");
            acc.key(h64(&b));
            return;
        }
        acc.class("differs");
        let bom = b.windows(2).any(|w| w == [0xff, 0xfe] || w == [0xfe, 0xff]) || b.windows(3).any(|w| w == [0xef, 0xbb, 0xbf]);
        let lost8 = want.matches("^8").count() != got.matches("^8").count();
        let letters: String = {
            let mut v: Vec<char> = b.windows(2).filter(|w| w[0] == b'^' && LETTERS.contains(&(w[1] as char))).map(|w| w[1] as char).collect();
            v.sort(); v.dedup(); v.into_iter().collect()
        };
        let sig = if bom { "C10|decode|byte-order-mark-sniffed".to_string() }
            else if lost8 { "C10|decode|caret-8-not-kept".to_string() }
            else { format!("C10|decode|differs-from-windows-page|markers-{letters}") };
        acc.violate(i, sig, format!("to_lossy_string({}) = {got:?}, the Windows pages give {want:?}", hex(&b[..b.len().min(96)])), replay);
}

pub fn sites(tier: Tier) -> Vec<Site> {
    let t = Arc::new(Tables::load());
    let mut sites = vec![];

    // 1. all (state, character) transitions
    {
        let mut prefixes: Vec<(String, String)> = vec![("initial".into(), String::new())];
        for l in ENC_ORDER {
            if let Some(c) = t.forcing_char(l) {
                prefixes.push((l.to_string(), c.to_string()));
            }
        }
        let mut chars: Vec<char> = t.union.iter().copied().collect();
        // characters that exist in none of the ten pages
        let mut unrep = vec![];
        for r in [0x0590u32..0x05ff, 0x0600..0x06ff, 0x0900..0x097f, 0x0e00..0x0e7f, 0x1f600..0x1f650, 0x1d00..0x1d40, 0x10a0..0x10ff] {
            for cp in r {
                if let Some(c) = char::from_u32(cp) {
                    if !t.union.contains(&c) {
                        unrep.push(c);
                    }
                }
            }
        }
        chars.extend(unrep);
        let prefixes = Arc::new(prefixes);
        let chars = Arc::new(chars);
        let n = prefixes.len() as u64 * chars.len() as u64;
        let (tt, pp, cc) = (t.clone(), prefixes.clone(), chars.clone());
        sites.push(Site::new("transitions", n,
            "every encoder state (initial + one per code page, forced by a one-character prefix) x every character of the union repertoire of the ten reference tables + ~900 characters that exist in no page",
            move |i, acc| {
                let pi = (i / cc.len() as u64) as usize;
                let ci = (i % cc.len() as u64) as usize;
                let s = format!("{}{}", pp[pi].1, cc[ci]);
                roundtrip_case(&tt, &s, i, "transitions", &pp[pi].0, acc);
            }));
    }

    // 1b. every character of every page, encoded in that page, followed by every code-page switch
    // (the decoder's marker scan depends on the bytes in front of the marker)
    {
        let mut cells: Vec<(char, char)> = vec![]; // (page, character)
        for l in ENC_ORDER {
            for c in &t.pages[&l].chars {
                cells.push((l, *c));
            }
        }
        let mut nexts: Vec<String> = vec!["L".into(), "8".into(), "^8".into(), "a".into(), "\\".into(), "~".into(), " ".into(), "|".into()];
        for l in ENC_ORDER {
            if let Some(c) = t.forcing_char(l) {
                nexts.push(c.to_string());
            }
        }
        let forcing: std::collections::BTreeMap<char, char> = ENC_ORDER.iter().filter_map(|l| t.forcing_char(*l).map(|c| (*l, c))).collect();
        let cells = Arc::new(cells);
        let nexts = Arc::new(nexts);
        let n = cells.len() as u64 * nexts.len() as u64;
        let tt = t.clone();
        sites.push(Site::new("char-then-switch", n,
            "every character of every page, preceded by a character that selects that page, followed by {a character owned by each of the ten pages, 'L', '8', '^8', 'a'}",
            move |i, acc| {
                let (page, c) = cells[(i / nexts.len() as u64) as usize];
                let nx = &nexts[(i % nexts.len() as u64) as usize];
                let Some(f) = forcing.get(&page) else { return };
                // "^8" contains a caret: the round trip property excludes carets, but ^8 must be kept
                let s = format!("{f}{c}{nx}");
                if nx == "^8" {
                    acc.eval();
                    let replay = json!({"site": "char-then-switch", "index": i, "string": s});
                    let r = guard(|| to_lossy_string(&to_lossy_bytes(&s)).to_string());
                    match r {
                        Ok(d) if d == s => { acc.class("round-trips"); },
                        Ok(d) => acc.violate(i, format!("C10|roundtrip|caret-8-after-character|state-{page}"), format!("{s:?} -> {} -> {d:?}", hex(&to_lossy_bytes(&s))), replay),
                        Err(p) => acc.violate(i, "C10|decode|panic".into(), p, replay),
                    }
                } else {
                    roundtrip_case(&tt, &s, i, "char-then-switch", &format!("{page}+next"), acc);
                }
            }));
    }

    // 2. table identity, single bytes
    {
        let mut cells: Vec<(char, u8, char)> = vec![];
        for l in LETTERS {
            for (b, c) in &t.pages[&l].single {
                if *b >= 0x80 {
                    cells.push((l, *b, *c));
                }
            }
        }
        cells.sort();
        let cells = Arc::new(cells);
        let n = cells.len() as u64;
        sites.push(Site::new("table-single", n,
            "every marker letter x every single byte 0x80..=0xFF the reference table of the Windows page LFS assigns to that letter defines",
            move |i, acc| {
                let (l, b, want) = cells[i as usize];
                acc.eval();
                let input = [b'^', l as u8, b];
                let replay = json!({"site": "table-single", "index": i, "letter": l.to_string(), "byte": b});
                match guard(|| to_lossy_string(&input).to_string()) {
                    Ok(got) => {
                        if got.chars().count() == 1 && got.chars().next() == Some(want) {
                            acc.class("matches");
                            acc.nontrivial();
                        } else {
                            acc.class("differs");
                            acc.violate(i, format!("C10|table|{l}|single-byte"),
                                format!("^{l} {b:#04x} decodes to {got:?}; Windows-{} has U+{:04X} {want:?}", crate::reftext::WINDOWS.iter().find(|w| w.0 == l).unwrap().1, want as u32), replay);
                        }
                    },
                    Err(p) => acc.violate(i, "C10|decode|panic".into(), format!("to_lossy_string({}) panicked: {p}", hex(&input)), replay),
                }
            }));
    }

    // 3. table identity, double bytes: agreement ratios between each letter and each reference
    {
        let dbcs = ['J', 'S', 'K', 'H'];
        let tt = t.clone();
        sites.push(Site::new("table-double", 16,
            "every DBCS marker letter x every DBCS reference table: every (lead, trail) pair the reference defines is decoded after the marker; own table must agree on >= 95% of the pairs, every other table on <= 5%",
            move |i, acc| {
                let l = dbcs[(i / 4) as usize];
                let r = dbcs[(i % 4) as usize];
                let page = &tt.pages[&r];
                let mut same = 0u64;
                let mut total = 0u64;
                let mut first_diff = None;
                for ((lead, trail), want) in &page.double {
                    // a trail byte 0x5e followed by nothing is not a marker; keep the probe to one character
                    let input = [b'^', l as u8, *lead, *trail];
                    acc.eval();
                    total += 1;
                    let got = match guard(|| to_lossy_string(&input).to_string()) {
                        Ok(g) => g,
                        Err(_) => continue,
                    };
                    if got.chars().count() == 1 && got.chars().next() == Some(*want) {
                        same += 1;
                    } else if first_diff.is_none() {
                        first_diff = Some(format!("^{l} {lead:02x} {trail:02x} -> {got:?}, Windows table of ^{r} has {want:?}"));
                    }
                }
                let ratio = same as f64 / total.max(1) as f64;
                acc.class(&format!("{l}-vs-{r}:{:.1}%", ratio * 100.0));
                acc.nontrivial();
                let replay = json!({"site": "table-double", "index": i, "letter": l.to_string(), "reference": r.to_string(), "agreement": ratio});
                if l == r && ratio < 0.95 {
                    acc.violate(i, format!("C10|table|{l}|double-byte-not-its-own-page"),
                        format!("^{l} agrees with the Windows page LFS assigns to it on only {:.1}% of {total} double-byte cells (e.g. {})", ratio * 100.0, first_diff.unwrap_or_default()), replay);
                } else if l != r && ratio > 0.05 {
                    acc.violate(i, format!("C10|table|{l}|double-byte-is-page-of-{r}"),
                        format!("^{l} decodes {:.1}% of the double-byte cells of the page that belongs to ^{r}", ratio * 100.0), replay);
                }
            }));
    }

    // 4. all strings up to a length bound over class representatives
    {
        let mut alpha: Vec<char> = vec!['a'];
        for l in ENC_ORDER {
            if let Some(c) = t.forcing_char(l) {
                alpha.push(c);
            }
        }
        alpha.push('\u{e9}'); // shared by several single-byte pages
        alpha.push('\u{e01}'); // in no page
        // characters whose ENCODED form holds a byte that means something to the scanners: a
        // double-byte character with trail byte 0x5E in each double-byte page, one whose trail byte
        // looks like a lead byte; and the plain characters a caret would turn into a marker
        for l in ['J', 'S', 'K', 'H'] {
            let mut cells: Vec<(&(u8, u8), &char)> = t.pages[&l].double.iter().collect();
            cells.sort();
            if let Some((_, c)) = cells.iter().find(|((_, trail), c)| *trail == b'^' && !alpha.contains(c)) {
                alpha.push(**c);
            }
        }
        {
            let mut cells: Vec<(&(u8, u8), &char)> = t.pages[&'J'].double.iter().collect();
            cells.sort();
            if let Some((_, c)) = cells.iter().find(|((lead, trail), c)| *lead >= 0xf0 && (0x81..=0x9f).contains(trail) && !alpha.contains(c)) {
                alpha.push(**c);
            }
        }
        alpha.push('8');
        alpha.push('L');
        // the two characters an encoder is tempted to approximate in ASCII under Shift_JIS (yen sign, overline)
        alpha.push('\u{a5}');
        alpha.push('\u{203e}');
        let maxlen = if tier == Tier::Thorough { 6 } else { 5 };
        let k = alpha.len() as u64;
        let mut starts = vec![];
        let mut count = 0u64;
        for l in 0..=maxlen {
            starts.push(count);
            count += k.pow(l);
        }
        let tt = t.clone();
        let alpha = Arc::new(alpha);
        let a2 = alpha.clone();
        {
            // a character of no page whose code point is that of a repertoire character plus 0x10000 / 0x30000,
            // followed by that character: a lookup keyed on truncated code points would confuse the two
            let chars: Vec<char> = t.union.iter().copied().filter(|c| (*c as u32) >= 0x80 && (*c as u32) < 0x1_0000).collect();
            let chars = Arc::new(chars);
            let tt2 = t.clone();
            let n = chars.len() as u64 * 2;
            sites.push(Site::new("astral-alias", n,
                "every BMP character y of the repertoire behind the unrepresentable character with code point y + 0x10000 (and y + 0x30000; plane 2 is left out because Big5-HKSCS reaches into it) and a space",
                move |i, acc| {
                    let y = chars[(i / 2) as usize];
                    let x = char::from_u32(y as u32 + if i % 2 == 0 { 0x1_0000 } else { 0x3_0000 }).unwrap_or('\u{1f600}');
                    let s = format!("{x} {y}{y}");
                    roundtrip_case(&tt2, &s, i, "astral-alias", "seq", acc);
                }));
        }
        {
            // no memory between calls: every ordered pair of strings of length <= 2 over the same alphabet,
            // converted one after the other on one thread - the second result is the one it has on its own
            let mut short: Vec<String> = vec![String::new()];
            for x in alpha.iter() { short.push(x.to_string()); }
            for x in alpha.iter() { for y in alpha.iter() { short.push(format!("{x}{y}")); } }
            let short = Arc::new(short);
            let n = (short.len() * short.len()) as u64;
            sites.push(Site::new("conversion-pairs", n,
                "every ordered pair of strings of length <= 2 over the strings alphabet: encode and decode of the second string give the same bytes / text right after the first as on their own",
                move |i, acc| {
                    acc.eval();
                    let a = &short[(i as usize) / short.len()];
                    let b = &short[(i as usize) % short.len()];
                    let alone_e = to_lossy_bytes(b).to_vec();
                    let alone_d = to_lossy_string(&alone_e).to_string();
                    let ea = to_lossy_bytes(a).to_vec();
                    let _ = to_lossy_string(&ea).to_string();
                    let after_e = to_lossy_bytes(b).to_vec();
                    let after_d = to_lossy_string(&after_e).to_string();
                    if alone_e == after_e && alone_d == after_d {
                        acc.class("pair-agrees");
                        acc.nontrivial();
                    } else {
                        acc.violate(i, "C10|history-dependent".into(), format!("{b:?} converts to {} / {after_d:?} right after {a:?}, to {} / {alone_d:?} otherwise", hex(&after_e), hex(&alone_e)), json!({"site": "conversion-pairs", "index": i}));
                    }
                }));
        }
        sites.push(Site::new("strings", count,
            &format!("all strings of length 0..={maxlen} over {{ASCII, one character owned by each of the ten pages, a character shared by several pages, a character in no page, a double-byte character with trail byte 0x5E from each double-byte page, one with a lead-like trail byte, '8', 'L', yen sign, overline}} ({} symbols)", a2.len()),
            move |i, acc| {
                let mut l = 0;
                for (q, s) in starts.iter().enumerate() {
                    if i >= *s { l = q; }
                }
                let mut j = i - starts[l];
                let mut s = String::new();
                for _ in 0..l {
                    s.push(alpha[(j % k) as usize]);
                    j /= k;
                }
                roundtrip_case(&tt, &s, i, "strings", "seq", acc);
            }));
    }

    // 5. all byte strings up to a length bound over decoder-relevant symbols
    {
        let alpha: Vec<u8> = vec![b'^', b'L', b'G', b'C', b'E', b'T', b'B', b'J', b'S', b'K', b'H', b'8', b'1', b'a', 0xe9, 0x83, 0x41, 0xff, 0xfe, 0xef, 0xbb, 0xbf];
        let maxlen = if tier == Tier::Thorough { 5 } else { 4 };
        let k = alpha.len() as u64;
        let mut starts = vec![];
        let mut count = 0u64;
        for l in 0..=maxlen {
            starts.push(count);
            count += k.pow(l);
        }
        let tt = t.clone();
        sites.push(Site::new("bytes", count,
            &format!("all byte strings of length 0..={maxlen} over {{^, the ten marker letters, 8, a digit, ASCII, a high single byte, a DBCS lead, a DBCS trail, ff fe ef bb bf}} (22 symbols); strings with an escaped caret ^^ belong to C12"),
            move |i, acc| {
                let mut l = 0;
                for (q, s) in starts.iter().enumerate() {
                    if i >= *s { l = q; }
                }
                let mut j = i - starts[l];
                let mut b = vec![];
                for _ in 0..l {
                    b.push(alpha[(j % k) as usize]);
                    j /= k;
                }
                judge_bytes(&tt, &b, i, "bytes", acc);
            }));
    }

    // 5-. sequences of TOKENS rather than bytes: what a scanner remembers from one marker to the next (the page in
    // force, whether it is double-byte, a reset) is exercised by marker sequences longer than the byte strings above reach
    {
        let tokens: Vec<Vec<u8>> = vec![
            b"^L".to_vec(), b"^J".to_vec(), b"^H".to_vec(), b"^S".to_vec(), b"^K".to_vec(), b"^E".to_vec(), b"^C".to_vec(), b"^G".to_vec(), b"^8".to_vec(), b"^".to_vec(),
            vec![0x83], vec![0xe9], vec![0xa1], vec![0xf8], vec![0xff], b"A".to_vec(), b"8".to_vec(), b"J".to_vec(),
        ];
        let maxlen: u32 = if tier == Tier::Thorough { 6 } else { 5 };
        let k = tokens.len() as u64;
        let mut starts = vec![];
        let mut count = 0u64;
        for l in 1..=maxlen { starts.push(count); count += k.pow(l); }
        let tt = t.clone();
        sites.push(Site::new("marker-token-sequences", count,
            &format!("all sequences of 1..={maxlen} tokens over {{10 markers incl. ^8 and a lone caret, 5 high bytes (a double-byte lead, Latin-1 letters that are lead bytes elsewhere, ff), A, 8, J}}: the decoder agrees with the reference decoder"),
            move |i, acc| {
                let l = starts.iter().rposition(|s| *s <= i).unwrap();
                let mut j = i - starts[l];
                let mut b = vec![];
                for _ in 0..=l { b.extend_from_slice(&tokens[(j % k) as usize]); j /= k; }
                judge_bytes(&tt, &b, i, "marker-token-sequences", acc);
            }));
    }

    // 5a. LONG byte strings: a unit repeated up to 260 bytes - "any number" of markers, resets, escaped
    // carets, double-byte characters with caret-like or lead-like trail bytes - behind 0..2 plain bytes
    {
        let units: Vec<Vec<u8>> = vec![
            b"^L".to_vec(), b"^J".to_vec(), b"^8".to_vec(), b"^".to_vec(), b"^Ja".to_vec(), b"^E\xe9".to_vec(),
            vec![0x83, 0x5e], vec![b'^', b'J', 0x83, 0x5e], vec![0x5e, 0x83], vec![b'^', b'K', 0x94, 0xee],
            vec![b'^', b'J', 0xfa, 0x5e], vec![b'^', b'H', 0xa1, 0x5e], vec![b'^', b'S', 0x81, 0x5e, b'8'], b"a^C\xf8".to_vec(),
            b"^L^G^C^E^T^B^J^S^K^H".to_vec(), vec![0xff], b"a".to_vec(), vec![0xe9], vec![0x83, 0x41],
        ];
        let prefixes: Vec<Vec<u8>> = vec![vec![], b"a".to_vec(), b"ab".to_vec(), vec![0xe9], b"^E".to_vec(), b"^J".to_vec()];
        // (and one-byte / two-byte units up to 5000 repetitions: a single run of text far longer than any block or buffer)
        // (... and around 2^15, 2^16, 2^17: counters and offsets of 16 bits wrap in there)
        let reps: Vec<usize> = vec![1, 2, 3, 7, 31, 32, 33, 63, 64, 65, 66, 100, 127, 128, 129, 130, 255, 256, 257, 511, 512, 513, 1023, 1024, 1025, 5000, 32767, 32768, 32769, 65535, 65536, 65537, 131073];
        let n = (units.len() * prefixes.len() * reps.len()) as u64;
        let tt = t.clone();
        sites.push(Site::new("bytes-long", n,
            "{nothing, a, ab, one high byte, ^E, ^J} followed by one of 19 units (markers, resets, lone carets, page switches with text, double-byte characters with caret-like / lead-like trail bytes, all ten markers in a row) repeated 1..5000 times and 2^15, 2^16 (+-1), 2^17+1 times",
            move |i, acc| {
                let u = &units[(i as usize) % units.len()];
                let p = &prefixes[(i as usize / units.len()) % prefixes.len()];
                let r = reps[i as usize / (units.len() * prefixes.len())];
                let mut b = p.clone();
                for _ in 0..r {
                    b.extend_from_slice(u);
                }
                judge_bytes(&tt, &b, i, "bytes-long", acc);
            }));
    }

    // 5a'. LONG double-byte sections: a page switch, 0..3 plain bytes, a run of 1..40 double-byte characters
    // whose trail byte is a caret / looks like a lead byte / is ordinary, then something a scanner out of
    // step would misread (a page letter, a real marker, an escaped caret, 8)
    {
        let mut cases: Vec<Vec<u8>> = vec![];
        for l in ['J', 'S', 'K', 'H'] {
            let mut cells: Vec<(&(u8, u8), &char)> = t.pages[&l].double.iter().collect();
            cells.sort();
            let pick = |f: &dyn Fn(u8, u8) -> bool| cells.iter().find(|((a, b), _)| f(*a, *b)).map(|((a, b), _)| vec![*a, *b]);
            let units: Vec<Vec<u8>> = [
                pick(&|_, b| b == b'^'),
                pick(&|_, b| (0x81..=0x9f).contains(&b)),
                pick(&|a, b| a >= 0xf0 && b == b'^'),
                pick(&|_, b| b == b'A' || b == 0xa1),
            ].into_iter().flatten().collect();
            for pad in 0..=3usize {
                for u in &units {
                    for reps in 1..=40usize {
                        for tail in [&b""[..], b"L", b"K", b"^L\xe9", b"^^", b"8", b"^8x"] {
                            let mut b = vec![b'^', l as u8];
                            b.extend(std::iter::repeat(b'x').take(pad));
                            for _ in 0..reps { b.extend_from_slice(u); }
                            b.extend_from_slice(tail);
                            cases.push(b);
                        }
                    }
                }
            }
        }
        let cases = Arc::new(cases);
        let tt = t.clone();
        sites.push(Site::new("bytes-long-dbcs", cases.len() as u64,
            "each double-byte page x 0..3 plain bytes x a run of 1..40 double-byte characters (trail byte 0x5E / lead-like / from the IBM extension rows / ordinary) x 7 tails (page letter, real marker, escaped caret, 8)",
            move |i, acc| {
                judge_bytes(&tt, &cases[i as usize], i, "bytes-long-dbcs", acc);
            }));
    }

    // 5a''. undefined bytes are no excuse: behind any run of bytes that mean nothing in the selected page, plain
    // text and the next marker are still interpreted (the reference tables say nothing about the undefined
    // bytes themselves, so only what follows them is judged)
    {
        let mut cases: Vec<(Vec<u8>, String)> = vec![];
        for l in LETTERS {
            for bad in [vec![0xffu8], vec![0x80], vec![0x81, 0xff], vec![0xa0], vec![0xfe, 0x39]] {
                for pre in [&b""[..], b"a", b"abcdefgh", &[0xe9, 0xe9, 0xe9][..]] {
                    for reps in [1usize, 2, 3, 4, 5, 6, 7, 8, 9, 12, 16, 17, 31, 32, 33, 64, 100] {
                        // (a space first: 0x20 is a trail byte in none of the pages, so a dangling lead byte cannot swallow the text)
                        for (tail, want) in [(&b" xyz"[..], "xyz"), (&b" ^Lxyz"[..], "xyz"), (&b" xy^8z"[..], "z")] {
                            let mut b = vec![b'^', l as u8];
                            b.extend_from_slice(pre);
                            for _ in 0..reps { b.extend_from_slice(&bad); }
                            b.extend_from_slice(tail);
                            cases.push((b, want.to_string()));
                        }
                    }
                }
            }
        }
        let cases = Arc::new(cases);
        sites.push(Site::new("undefined-bytes-then-text", cases.len() as u64,
            "each of the ten markers x 4 prefixes x a run of 1..100 of 5 byte patterns that are undefined (or half-defined) in some pages x 3 tails: the text behind the run is still there",
            move |i, acc| {
                acc.eval();
                let (b, want) = &cases[i as usize];
                let replay = json!({"site": "undefined-bytes-then-text", "index": i, "input": hex(&b[..b.len().min(96)]), "length": b.len()});
                match guard(|| to_lossy_string(b).to_string()) {
                    Err(p) => acc.violate(i, "C10|decode|panic".into(), format!("to_lossy_string({}) panicked: {p}", hex(&b[..b.len().min(64)])), replay),
                    Ok(g) if g.ends_with(want.as_str()) => { acc.class("text-behind-undefined-bytes-kept"); acc.nontrivial(); },
                    Ok(g) => acc.violate(i, format!("C10|decode|text-behind-undefined-bytes-lost|{}", b[1] as char),
                        format!("to_lossy_string({}) = {:?}: the text {want:?} at the end of the input is missing", hex(&b[..b.len().min(64)]), g.chars().rev().take(24).collect::<Vec<_>>().into_iter().rev().collect::<String>()), replay),
                }
            }));
    }

    // 5b. a trail byte that looks like a caret must not be read as a marker (DBCS-aware scan)
    {
        let tt = t.clone();
        let mut cells: Vec<(char, u8, char)> = vec![];
        for l in ['J', 'S', 'K', 'H'] {
            for ((lead, trail), c) in &t.pages[&l].double {
                if *trail == b'^' {
                    cells.push((l, *lead, *c));
                }
            }
        }
        cells.sort();
        let cells = Arc::new(cells);
        let n = cells.len() as u64 * 11;
        sites.push(Site::new("dbcs-trail-caret", n,
            "every double-byte character whose trail byte is 0x5E ('^') in the four DBCS pages x the next character {each marker letter, '8'}",
            move |i, acc| {
                let (l, lead, c) = cells[(i / 11) as usize];
                let next = [b'L', b'G', b'C', b'E', b'T', b'B', b'J', b'S', b'K', b'H', b'8'][(i % 11) as usize];
                acc.eval();
                // through the public encoder first: text -> bytes -> text
                let s = format!("{c}{}", next as char);
                let replay = json!({"site": "dbcs-trail-caret", "index": i, "string": s});
                let enc = match guard(|| to_lossy_bytes(&s).to_vec()) { Ok(e) => e, Err(_) => return };
                let dec = match guard(|| to_lossy_string(&enc).to_string()) { Ok(d) => d, Err(p) => { acc.violate(i, "C10|decode|panic".into(), p, replay); return; } };
                let _ = (&tt, lead);
                if dec == s {
                    acc.class("round-trips");
                    acc.nontrivial();
                } else {
                    acc.class("trail-read-as-marker");
                    acc.violate(i, format!("C10|decode|dbcs-trail-0x5e-read-as-marker|{l}"),
                        format!("{s:?} -> {} -> {dec:?}", hex(&enc)), replay);
                }
            }));
    }

    // 6. pure ASCII passes through byte for byte
    {
        let n = 128u64 * 128 * 128 + 128 * 128 + 128 + 1;
        sites.push(Site::new("ascii", n,
            "all ASCII strings of length 0..=3 (all 128 values per position, carets included on the encode side)",
            move |i, acc| {
                let (l, mut j) = if i == 0 { (0, 0) } else if i <= 128 { (1, i - 1) } else if i <= 128 + 128 * 128 { (2, i - 129) } else { (3, i - 129 - 128 * 128) };
                let mut s = String::new();
                for _ in 0..l {
                    s.push((j % 128) as u8 as char);
                    j /= 128;
                }
                acc.eval();
                let replay = json!({"site": "ascii", "index": i, "string": s});
                match guard(|| to_lossy_bytes(&s).to_vec()) {
                    Ok(b) if b == s.as_bytes() => {},
                    Ok(b) => { acc.violate(i, "C10|encode|ascii-altered".into(), format!("to_lossy_bytes({s:?}) = {}", hex(&b)), replay.clone()); },
                    Err(p) => { acc.violate(i, "C10|encode|panic".into(), p, replay.clone()); },
                }
                if !s.contains('^') {
                    match guard(|| to_lossy_string(s.as_bytes()).to_string()) {
                        Ok(d) if d == s => { acc.class("passes-through"); acc.nontrivial(); },
                        Ok(d) => { acc.violate(i, "C10|decode|ascii-altered".into(), format!("to_lossy_string({s:?}) = {d:?}"), replay); },
                        Err(p) => { acc.violate(i, "C10|decode|panic".into(), p, replay); },
                    }
                } else {
                    acc.class("caret-text-encode-only");
                }
            }));
    }
    // every Unicode scalar value, not only the repertoire and a few outsiders: a character of no page is one '?',
    // whatever it is (noncharacters, private use, format characters, the planes above the BMP)
    {
        let tt = t.clone();
        sites.push(Site::new("any-scalar-value", 0x11_0000 * 2,
            "every Unicode scalar value c (all 1 112 064) in the texts a c b and (a Greek letter) c c: encode, decode, compare with the text (characters of no page as '?')",
            move |i, acc| {
                let Some(c) = char::from_u32((i / 2) as u32) else { return };
                if c == '^' || c == '\0' { return; }
                // not judged, as everywhere in this check: the C1 controls (the cells CPython's tables leave undefined are
                // filled with them by the WHATWG tables the library uses) and the private-use area (user-defined rows of
                // the double-byte pages)
                // (nor U+2212: Shift_JIS encoders send MINUS SIGN as the full-width hyphen-minus by design, DESIGN section 4 C10)
                if (0x80..=0x9f).contains(&(c as u32)) || (0xe000..=0xf8ff).contains(&(c as u32)) || c == '\u{2212}' { return; }
                let s = if i % 2 == 0 { format!("a{c}b") } else { format!("\u{3b1}{c}{c}") };
                if (c as u32) < 0x80 || tt.union.contains(&c) { roundtrip_case(&tt, &s, i, "any-scalar-value", "L", acc); return; }
                // outside the reference repertoire: one '?' per character - or the character itself where the library's
                // double-byte tables are richer than the reference's (they are compared by agreement ratio, not cell by cell)
                acc.eval();
                let replay = json!({"site": "any-scalar-value", "index": i, "string": s});
                match guard(|| { let e = to_lossy_bytes(&s).to_vec(); let d = to_lossy_string(&e).to_string(); (e, d) }) {
                    Err(p) => acc.violate(i, "C10|encode|panic".into(), format!("{s:?}: {p}"), replay),
                    Ok((e, d)) => {
                        let q = s.replace(c, "?");
                        if d == q { acc.class("unrepresentable->?"); acc.nontrivial(); }
                        else if d == s { acc.class("outside-the-reference-repertoire-but-carried"); }
                        else { acc.violate(i, "C10|roundtrip|unrepresentable-not-question-mark|state-L|home--".into(), format!("{s:?} -> {} -> {d:?} (expected {q:?} or the text itself)", hex(&e)), replay); }
                    },
                }
            }));
    }
    // LONG strings on the encode side: a unit repeated around every power of two up to 2^17 (page switches, characters
    // of no page, escaped carets, double-byte characters - "any number" of each)
    {
        let units: Vec<String> = ["a", "\u{e9}", "\u{11b}", "\u{e9}\u{11b}", "\u{30a2}", "\u{448}\u{30a2}", "\u{1f600}", "\u{1f600}\u{e9}", "^", "^^", "a^8", "\u{4e2d}^L", "\u{d55c}\u{4e2d}\u{30a2}"].iter().map(|s| s.to_string()).collect();
        let mut reps: Vec<usize> = vec![];
        for k in [8u32, 12, 15, 16, 17] { for d in [-1i64, 0, 1] { reps.push(((1i64 << k) + d) as usize); } }
        let heads = ["", "x", "\u{3b1}"];
        let n = (units.len() * reps.len() * heads.len()) as u64;
        let tt = t.clone();
        sites.push(Site::new("strings-long", n,
            "{nothing, x, a Greek letter} followed by one of 13 units (1-, 2- and 3-page mixes, characters of no page, carets, double-byte characters of three pages in a row) repeated 2^k-1, 2^k, 2^k+1 times for k in {8, 12, 15, 16, 17}: encode, decode, compare with the text (characters of no page as '?')",
            move |i, acc| {
                let mut j = i as usize;
                let h = heads[j % heads.len()]; j /= heads.len();
                let r = reps[j % reps.len()]; j /= reps.len();
                let u = &units[j % units.len()];
                let mut s = String::with_capacity(h.len() + u.len() * r);
                s.push_str(h);
                for _ in 0..r { s.push_str(u); }
                if u.contains('^') {
                    // (carets: the decoder-side reading of the encoder's bytes is C12's business; here only totality and the reference decoder)
                    acc.eval();
                    match guard(|| to_lossy_bytes(&s).to_vec()) {
                        Ok(b) => judge_bytes(&tt, &b, i, "strings-long", acc),
                        Err(p) => acc.violate(i, "C10|encode|panic".into(), format!("{} x {r}: {p}", u.escape_unicode()), json!({"site": "strings-long", "index": i})),
                    }
                } else {
                    roundtrip_case(&tt, &s, i, "strings-long", "L", acc);
                }
            }));
    }
    // very long texts through an UNOPTIMISED build of the library (/verif/deepbin, one process per case): what the
    // optimiser quietly repairs (a recursion per marker or per character that it turns into a loop) is live in the
    // builds users test with.  The child's bytes and text must be those this (optimised) build makes.
    {
        let units = ["a", "^", "^^", "^J", "^J\u{30a2}", "\u{e9}", "^8", "\u{11b}", "\u{30a2}", "\u{1f600}", "\0", "^L\u{e9}^E\u{11b}", "^L", "^E"];
        let counts: Vec<usize> = if tier == Tier::Thorough { vec![1 << 12, 1 << 16, 1 << 20, 1 << 22] } else { vec![1 << 12, 1 << 16, 1 << 20] };
        let n = (units.len() * counts.len()) as u64;
        sites.push(Site::new("very-long-texts-unoptimised-build", n,
            "14 units (plain, carets, markers alone and in front of text, characters of four pages, an astral character, NUL, page switches) repeated 2^12, 2^16, 2^20 (thorough: 2^22) times, each encoded and decoded in a child process of an unoptimised build of the library: no panic, no abort, no hang, and the same bytes and text as this build makes",
            move |i, acc| {
                acc.eval();
                let u = units[(i as usize) / counts.len()];
                let c = counts[(i as usize) % counts.len()];
                let hexu: String = u.bytes().map(|b| format!("{b:02x}")).collect();
                let replay = json!({"site": "very-long-texts-unoptimised-build", "index": i});
                let fnv = |b: &[u8]| { let mut h: u64 = 0xcbf29ce484222325; for x in b { h ^= *x as u64; h = h.wrapping_mul(0x100000001b3); } h };
                let s = u.repeat(c);
                let here = guard(|| { let b = to_lossy_bytes(&s).to_vec(); let t = to_lossy_string(&b).to_string(); format!("ok {:016x} {:016x}", fnv(&b), fnv(t.as_bytes())) });
                let here = match here { Ok(x) => x, Err(p) => { acc.violate(i, "C10|very-long-texts|panic".into(), format!("{u:?} x {c}: {p}"), replay); return; } };
                match std::process::Command::new(deep_bin()).args(["codepage", hexu.as_str(), &c.to_string()]).output() {
                    Err(e) => panic!("MACHINERY: cannot spawn the child: {e}"),
                    Ok(o) => match o.status.code() {
                        Some(0) => {
                            let there = String::from_utf8_lossy(&o.stdout).trim().to_string();
                            if there == here { acc.class("builds-agree"); acc.nontrivial(); }
                            else { acc.violate(i, "C10|very-long-texts|builds-differ".into(), format!("{u:?} x {c}: optimised build {here}, unoptimised build {there}"), replay); }
                        },
                        Some(1) => acc.violate(i, format!("C10|very-long-texts|{}", String::from_utf8_lossy(&o.stdout).lines().next().unwrap_or("failed")), format!("{u:?} x {c} in an unoptimised build: {}", String::from_utf8_lossy(&o.stdout)), replay),
                        Some(2) => panic!("MACHINERY: the child refused its arguments"),
                        other => acc.violate(i, "C10|very-long-texts|process-died".into(), format!("{u:?} x {c} in an unoptimised build: the process died ({other:?}, {:?}): {}", o.status, String::from_utf8_lossy(&o.stderr).chars().take(300).collect::<String>()), replay),
                    },
                }
            }));
    }
    // ... nor between threads: histories of 2 and 3 conversions spread over two threads
    {
        let corpus: Vec<(String, String)> = ["", "plain", "\u{11b}\u{161}", "\u{448}\u{44e} ok", "\u{30a2}\u{30a2}", "^J\u{30a2}^L\u{e9}", "\u{1f600} \u{f600}", "\u{e9}\u{11b}\u{448}", "\u{d55c}\u{ae00}", "\u{4e2d}\u{6587} ^^", "\u{3b1}\u{3b2}^8\u{3b3}", "a^Eb^Cc"].iter().map(|s| (format!("text {s:?}"), s.to_string())).collect();
        sites.push(crate::crossthread::site("C10", "cross-thread-conversions", "encode + decode of the bytes", corpus, |s: &String| {
            let e = to_lossy_bytes(s).to_vec();
            let d = to_lossy_string(&e).to_string();
            (e, d)
        }));
    }
    sites
}

/// The one-case runner built in the dev profile (see /verif/deepbin and ./check).
fn deep_bin() -> String { std::env::var("VERIF_DEEP_BIN").unwrap_or_else(|_| "/verif/target/deep/debug/deep".into()) }

pub fn run(tier: Tier, replay: Option<String>) -> i32 {
    if !std::path::Path::new(&deep_bin()).exists() { eprintln!("MACHINERY: {} is missing (./check builds it)", deep_bin()); return 3; }
    let s = sites(tier);
    let states: u64 = 11;
    let trans = s[0].n;
    super::run_e1("C10", tier, "model_checking", replay, s,
        "automaton product: all (code-page state, character) transitions, all reference table cells, all strings / byte strings to a length bound over class alphabets; distinct = distinct inputs that round-trip / match (hashed)",
        vec![
            "reference tables = CPython's cp1252 cp1253 cp1251 cp1250 cp1254 cp1257 cp932 cp936 cp949 cp950 codecs (spec/codepages.tbl), assumed to be the Windows pages LFS uses".into(),
            "double-byte tables are compared by agreement ratio (>=95% own, <=5% foreign) so vendor variants of the same page cannot alarm".into(),
            "byte strings that touch a cell the reference leaves undefined are not compared (totality only)".into(),
        ],
        move |acc, extra| {
            let _ = extra.insert("states".into(), json!(states));
            let _ = extra.insert("transitions".into(), json!(trans));
            let _ = extra.insert("traces_validated_against_impl".into(), json!(acc.evals));
            let _ = extra.insert("model".into(), json!("harness/src/reftext.rs (reference tables + lead-byte-aware reference decoder)"));
        })
}
