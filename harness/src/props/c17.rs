//! C17 - PTH and SMX files round-trip and their parsers withstand any input.
//! Fault enumeration: every truncation point, every single-byte substitution (small files),
//! hostile count fields; round trip of generated and shipped files.

use std::{io::{Cursor, Write}, sync::Arc};

use insim::{core::binrw::{BinRead, BinWrite}, pth::Pth, smx::Smx};
use serde_json::json;

use crate::{alloc::measure, report::{guard, hex, Site, Tier}};

#[derive(Clone)]
pub struct FileCase {
    pub name: String,
    pub smx: bool,
    pub bytes: Vec<u8>,
    /// offsets of the i32 count fields
    pub counts: Vec<usize>,
    /// the writer is expected to reproduce the bytes exactly
    pub canonical: bool,
}

fn f32p(pattern: usize, i: usize) -> [u8; 4] {
    match pattern {
        0 => 0f32.to_le_bytes(),
        1 => (1.5f32 + i as f32).to_le_bytes(),
        _ => [0x7fc0_0001u32, 0xffc1_2345, 0x7f80_0000, 0xff80_0000, 0x0000_0001, 0x8000_0000][i % 6].to_le_bytes(),
    }
}

pub fn build_pth(nodes: usize, pattern: usize) -> FileCase {
    let mut b = b"LFSPTH".to_vec();
    b.push(pattern as u8);
    b.push(1);
    let c = b.len();
    b.extend_from_slice(&(nodes as i32).to_le_bytes());
    b.extend_from_slice(&(if nodes > 0 { (nodes - 1) as i32 } else { 0 }).to_le_bytes());
    for n in 0..nodes {
        for k in 0..3 {
            let v: i32 = match pattern { 0 => 0, 1 => (n * 1000 + k) as i32 - 500, _ => [i32::MIN, i32::MAX, -1][k] };
            b.extend_from_slice(&v.to_le_bytes());
        }
        for k in 0..7 {
            b.extend_from_slice(&f32p(pattern, n * 7 + k));
        }
    }
    FileCase { name: format!("pth nodes={nodes} pattern={pattern}"), smx: false, bytes: b, counts: vec![c], canonical: true }
}

pub fn build_smx(objects: usize, points: usize, triangles: usize, checkpoints: usize, pattern: usize, track: &[u8]) -> FileCase {
    let sizes: Vec<(usize, usize)> = vec![(points, triangles); objects];
    let mut f = build_smx_mixed(&sizes, checkpoints, pattern, track);
    f.name = format!("smx objects={objects} points={points} triangles={triangles} checkpoints={checkpoints} pattern={pattern} track={:?}", String::from_utf8_lossy(track));
    f
}

/// ... with objects of different sizes: (points, triangles) per object
pub fn build_smx_mixed(sizes: &[(usize, usize)], checkpoints: usize, pattern: usize, track: &[u8]) -> FileCase {
    let objects = sizes.len();
    let mut b = b"LFSSMX".to_vec();
    b.extend_from_slice(&[pattern as u8, 2, 0, 3, 1, 1]);
    b.extend_from_slice(&[0; 4]);
    let mut t = track.to_vec();
    t.resize(32, 0);
    b.extend_from_slice(&t);
    b.extend_from_slice(&[10, 20, 30]);
    b.extend_from_slice(&[0; 9]);
    let mut counts = vec![b.len()];
    b.extend_from_slice(&(objects as i32).to_le_bytes());
    for o in 0..objects {
        let (points, triangles) = sizes[o];
        for k in 0..4 {
            let v: i32 = match pattern { 0 => 0, 1 => (o * 10 + k) as i32 + 1, _ => [i32::MIN, i32::MAX, -1, 65536][k] };
            b.extend_from_slice(&v.to_le_bytes());
        }
        counts.push(b.len());
        b.extend_from_slice(&(points as i32).to_le_bytes());
        counts.push(b.len());
        b.extend_from_slice(&(triangles as i32).to_le_bytes());
        for p in 0..points {
            for k in 0..3 {
                b.extend_from_slice(&(((o + 1) * 100 + p * 3 + k) as i32).to_le_bytes());
            }
            b.extend_from_slice(&[255, (p as u8).wrapping_add(1), 2, 3]);
        }
        for tr in 0..triangles {
            for k in 0..3 {
                b.extend_from_slice(&((tr * 3 + k) as u16).to_le_bytes());
            }
            b.extend_from_slice(&[0, 0]);
        }
    }
    counts.push(b.len());
    b.extend_from_slice(&(checkpoints as i32).to_le_bytes());
    for c in 0..checkpoints {
        let v: i32 = match pattern { 0 => c as i32 - 1, 1 => 40_000i32.wrapping_add((c as i32).wrapping_mul(70_000)), _ => [i32::MAX, i32::MIN][c % 2] };
        b.extend_from_slice(&v.to_le_bytes());
    }
    FileCase {
        name: format!("smx objects with (points, triangles) = {sizes:?} checkpoints={checkpoints} pattern={pattern} track={:?}", String::from_utf8_lossy(track)),
        smx: true, bytes: b, counts, canonical: true,
    }
}

pub fn generated() -> Vec<FileCase> {
    let mut v = vec![];
    for n in 0..=2 {
        for p in 0..3 {
            v.push(build_pth(n, p));
        }
    }
    let tracks: [&[u8]; 4] = [b"", b"Autocross", b"^E\xec\x9a", b"0123456789abcdef0123456789abcdef"];
    for o in 0..=2 {
        for p in 0..=2 {
            for t in 0..=2 {
                for c in 0..=2 {
                    let pattern = (o + p + t + c) % 3;
                    v.push(build_smx(o, p, t, c, pattern, tracks[(o + 2 * p + t + c) % 4]));
                }
            }
        }
    }
    v
}

pub fn shipped() -> Vec<FileCase> {
    let mut v = vec![];
    if let Ok(b) = std::fs::read("/repo/insim_pth/tests/AS1.pth") {
        v.push(FileCase { name: "AS1.pth".into(), smx: false, bytes: b, counts: vec![8], canonical: true });
    }
    if let Ok(b) = std::fs::read("/repo/insim_smx/tests/Autocross_3DH.smx") {
        v.push(FileCase { name: "Autocross_3DH.smx".into(), smx: true, bytes: b, counts: vec![60], canonical: true });
    }
    v
}

/// Parse; returns (debug rendering, re-written bytes) or an error string. Panics are caught by the caller.
fn parse_and_write(smx: bool, bytes: &[u8]) -> Result<(String, Vec<u8>), String> {
    let mut c = Cursor::new(bytes);
    if smx {
        let v = Smx::read(&mut c).map_err(|e| e.to_string().chars().take(100).collect::<String>())?;
        let mut w = Cursor::new(Vec::new());
        v.write(&mut w).map_err(|e| format!("write failed: {e}"))?;
        Ok((format!("{v:?}"), w.into_inner()))
    } else {
        let v = Pth::read(&mut c).map_err(|e| e.to_string().chars().take(100).collect::<String>())?;
        let mut w = Cursor::new(Vec::new());
        v.write(&mut w).map_err(|e| format!("write failed: {e}"))?;
        Ok((format!("{v:?}"), w.into_inner()))
    }
}

fn parse_only(smx: bool, bytes: &[u8]) -> Result<(), String> {
    let mut c = Cursor::new(bytes);
    if smx {
        Smx::read(&mut c).map(|_| ()).map_err(|e| e.to_string().chars().take(100).collect())
    } else {
        Pth::read(&mut c).map(|_| ()).map_err(|e| e.to_string().chars().take(100).collect())
    }
}

// ---- in-flight case slots: survive an abort of the sweep process (allocation failure aborts) ----
static SLOTS: std::sync::OnceLock<Option<std::fs::File>> = std::sync::OnceLock::new();

fn mark(site: u64, index: u64) {
    use std::os::unix::fs::FileExt;
    let f = SLOTS.get_or_init(|| std::env::var("C17_SLOTS").ok().and_then(|p| std::fs::OpenOptions::new().write(true).create(true).open(p).ok()));
    if let Some(f) = f {
        let slot = rayon::current_thread_index().unwrap_or(63).min(63) as u64;
        let mut b = [0u8; 16];
        b[..8].copy_from_slice(&(site + 1).to_le_bytes());
        b[8..].copy_from_slice(&index.to_le_bytes());
        let _ = f.write_at(&b, slot * 16);
    }
}

fn alloc_bound(len: usize) -> usize {
    64 * len + 65536
}

pub fn sites(tier: Tier) -> Vec<Site> {
    let mut files = generated();
    files.extend(shipped());
    let files = Arc::new(files);
    let mut sites = vec![];

    // round trip
    {
        let files = files.clone();
        sites.push(Site::new("round-trip", files.len() as u64,
            "generated files with every combination of counts 0..=2 (PTH nodes; SMX objects x points x triangles x checkpoints), three payload patterns incl. NaN / infinity / extreme integers, four track names; plus the two shipped files",
            move |i, acc| {
                let f = &files[i as usize];
                mark(0, i);
                acc.eval();
                let replay = json!({"site": "round-trip", "index": i, "file": f.name});
                let kind = if f.smx { "SMX" } else { "PTH" };
                match guard(|| parse_and_write(f.smx, &f.bytes)) {
                    Err(p) => acc.violate(i, format!("C17|{kind}|panic|valid-file"), format!("{}: {p}", f.name), replay),
                    Ok(Err(e)) => acc.violate(i, format!("C17|{kind}|valid-file-rejected"), format!("{}: {e}", f.name), replay),
                    Ok(Ok((d1, written))) => {
                        if f.canonical && written != f.bytes {
                            let off = written.iter().zip(&f.bytes).position(|(a, b)| a != b).unwrap_or(written.len().min(f.bytes.len()));
                            acc.violate(i, format!("C17|{kind}|canonical-file-not-reproduced"), format!("{}: written bytes differ from the bytes read at offset {off} ({} vs {} bytes)", f.name, written.len(), f.bytes.len()), replay.clone());
                        }
                        match guard(|| parse_and_write(f.smx, &written)) {
                            Ok(Ok((d2, w2))) if d2 == d1 && w2 == written => { acc.class("round-trips"); acc.nontrivial(); },
                            other => acc.violate(i, format!("C17|{kind}|write-then-parse-differs"), format!("{}: {}", f.name, match other { Ok(Ok(_)) => "structure or bytes changed".to_string(), Ok(Err(e)) => e, Err(p) => p }), replay),
                        }
                    },
                }
            }));
    }
    // every count 0..=N in every count field on its own: a chunked or buffered reader whose last chunk is
    // mishandled needs one particular count, not a boundary one
    {
        let n_max: u64 = if tier == Tier::Thorough { 40_000 } else { 8_192 };
        // beyond the complete range a ladder: 2^k - 1, 2^k, 2^k + 1 up to 2^17 and every multiple of 4096 up to 2^17
        let mut ladder: Vec<u64> = vec![];
        for k in 13..=17u32 { for d in [-1i64, 0, 1] { ladder.push(((1i64 << k) + d) as u64); } }
        let mut m = 4096u64; while m <= (1 << 17) { ladder.push(m); m += 4096; }
        // and counts at which the BYTE size of the list crosses 64 KiB, 1, 4, 16 and 32 MiB (element sizes 40, 24,
        // 16, 8 and 4 bytes): a reader working in byte-sized chunks has its seams there
        for size in [1u64 << 16, 1 << 20, 1 << 22, 1 << 24, 1 << 25] {
            for elem in [40u64, 24, 16, 8, 4] {
                for d in 0..3u64 { ladder.push(size / elem + d); }
            }
        }
        ladder.retain(|x| *x > n_max);
        ladder.sort(); ladder.dedup();
        let ladder = std::sync::Arc::new(ladder);
        let per = n_max + 1 + ladder.len() as u64;
        sites.push(Site::new("count-sweep", per * 5,
            &format!("files with every count 0..={n_max} (and beyond it 2^k-1, 2^k, 2^k+1 up to 2^17, every multiple of 4096, and the counts at which the list's byte size crosses 64 KiB / 1 / 4 / 16 / 32 MiB) in one count field at a time {{PTH nodes, SMX objects (empty), SMX points, SMX triangles (one object), SMX checkpoints}}: parsed, written back byte for byte, re-parsed"),
            move |i, acc| {
                mark(3, i);
                acc.eval();
                let n = { let j = i % per; if j <= n_max { j as usize } else { ladder[(j - n_max - 1) as usize] as usize } };
                // (lists of more than 34 MB are not built)
                let elem = [40usize, 24, 16, 8, 4][(i / per) as usize];
                if n * elem > 34 * 1024 * 1024 { return; }
                let f = match i / per {
                    0 => build_pth(n, 1),
                    1 => build_smx(n, 0, 0, 1, 1, b"Blackwood"),
                    2 => build_smx(1, n, 1, 1, 1, b"Blackwood"),
                    3 => build_smx(1, 3, n, 1, 1, b"Blackwood"),
                    _ => build_smx(1, 3, 1, n, 1, b"Blackwood"),
                };
                let replay = json!({"site": "count-sweep", "index": i, "file": f.name});
                let kind = if f.smx { "SMX" } else { "PTH" };
                match guard(|| parse_and_write(f.smx, &f.bytes)) {
                    Err(p) => acc.violate(i, format!("C17|{kind}|panic|valid-file"), format!("{}: {p}", f.name), replay),
                    Ok(Err(e)) => acc.violate(i, format!("C17|{kind}|valid-file-rejected"), format!("{}: {e}", f.name), replay),
                    Ok(Ok((_, written))) => {
                        if written != f.bytes {
                            let off = written.iter().zip(&f.bytes).position(|(a, b)| a != b).unwrap_or(written.len().min(f.bytes.len()));
                            acc.violate(i, format!("C17|{kind}|canonical-file-not-reproduced"), format!("{}: written bytes differ from the bytes read at offset {off} ({} vs {} bytes)", f.name, written.len(), f.bytes.len()), replay);
                        } else {
                            acc.class("round-trips");
                            acc.nontrivial();
                        }
                    },
                }
            }));
    }
    // objects of different sizes in one file, some of them beyond 64 KiB (4095 points = 65 544 bytes): every sequence of
    // up to three objects over 7 sizes
    {
        let sz: [(usize, usize); 7] = [(0, 0), (1, 1), (3, 2), (4094, 1), (4095, 0), (4096, 3), (100, 8200)];
        let n = 7u64 + 49 + 343;
        sites.push(Site::new("mixed-sizes", n,
            "SMX files with every sequence of 1..=3 objects over 7 sizes (empty, tiny, 4094 / 4095 / 4096 points - either side of 64 KiB -, 8200 triangles): parsed, written back byte for byte",
            move |i, acc| {
                mark(7, i);
                acc.eval();
                let (l, mut j) = if i < 7 { (1, i) } else if i < 56 { (2, i - 7) } else { (3, i - 56) };
                let mut sizes = vec![];
                for _ in 0..l { sizes.push(sz[(j % 7) as usize]); j /= 7; }
                let f = build_smx_mixed(&sizes, 2, 1, b"Rockingham");
                let replay = json!({"site": "mixed-sizes", "index": i, "file": f.name});
                match guard(|| parse_and_write(true, &f.bytes)) {
                    Err(pn) => acc.violate(i, "C17|SMX|panic|valid-file".into(), format!("{}: {pn}", f.name), replay),
                    Ok(Err(e)) => acc.violate(i, "C17|SMX|valid-file-rejected".into(), format!("{}: {e}", f.name), replay),
                    Ok(Ok((_, written))) => {
                        if written != f.bytes {
                            let off = written.iter().zip(&f.bytes).position(|(a, b)| a != b).unwrap_or(written.len().min(f.bytes.len()));
                            acc.violate(i, "C17|SMX|canonical-file-not-reproduced".into(), format!("{}: written bytes differ from the bytes read at offset {off} ({} vs {} bytes)", f.name, written.len(), f.bytes.len()), replay);
                        } else { acc.class("mixed-sizes-round-trip"); acc.nontrivial(); }
                    },
                }
            }));
    }
    // several counts at once: objects x points x triangles x checkpoints over a grid (every object carries the same
    // numbers of points and triangles), so that a rule that couples two counts is met
    {
        let n = 7u64 * 41 * 41 * 3;
        sites.push(Site::new("count-grid", n,
            "SMX files with 0..=6 objects x 0..=40 points x 0..=40 triangles per object x {0, 1, 5} checkpoints: parsed, written back byte for byte",
            move |i, acc| {
                mark(6, i);
                acc.eval();
                let mut j = i as usize;
                let c = [0usize, 1, 5][j % 3]; j /= 3;
                let t = j % 41; j /= 41;
                let p = j % 41; j /= 41;
                let o = j;
                let f = build_smx(o, p, t, c, 1, b"Westhill");
                let replay = json!({"site": "count-grid", "index": i, "file": f.name});
                match guard(|| parse_and_write(true, &f.bytes)) {
                    Err(pn) => acc.violate(i, "C17|SMX|panic|valid-file".into(), format!("{}: {pn}", f.name), replay),
                    Ok(Err(e)) => acc.violate(i, "C17|SMX|valid-file-rejected".into(), format!("{}: {e}", f.name), replay),
                    Ok(Ok((_, written))) => {
                        if written != f.bytes {
                            let off = written.iter().zip(&f.bytes).position(|(a, b)| a != b).unwrap_or(written.len().min(f.bytes.len()));
                            acc.violate(i, "C17|SMX|canonical-file-not-reproduced".into(), format!("{}: written bytes differ from the bytes read at offset {off} ({} vs {} bytes)", f.name, written.len(), f.bytes.len()), replay);
                        } else {
                            acc.class("grid-round-trips");
                            acc.nontrivial();
                        }
                    },
                }
            }));
    }
    // the same files through a reader that returns short counts (at most k bytes per read; the first 64
    // gaps cut individually): same structure, or the same refusal, as from a plain cursor
    {
        let files = files.clone();
        let small: Vec<usize> = files.iter().enumerate().filter(|(_, f)| f.bytes.len() <= 20_000).map(|(i, _)| i).collect();
        let chunks: [usize; 7] = [1, 2, 3, 5, 7, 13, 4095];
        let masks: [u64; 4] = [0, u64::MAX, 0x5555_5555_5555_5555, 0x8080_8080_8080_8080];
        let per = (chunks.len() * masks.len()) as u64;
        let n = small.len() as u64 * per;
        sites.push(Site::new("short-reads", n,
            "every generated file and the shipped PTH file through a reader that returns at most k bytes per read, k in {1,2,3,5,7,13,4095}, x 4 cut patterns over the first 64 bytes (one of them with every third call interrupted): result identical to a plain read, and written back identically through a writer that accepts at most k bytes per call",
            move |i, acc| {
                mark(4, i);
                acc.eval();
                let f = &files[small[(i / per) as usize]];
                let k = chunks[((i % per) as usize) % chunks.len()];
                let m = masks[((i % per) as usize) / chunks.len()];
                let kind = if f.smx { "SMX" } else { "PTH" };
                let plain: Result<String, String> = {
                    let mut c = Cursor::new(&f.bytes[..]);
                    if f.smx { Smx::read(&mut c).map(|v| format!("{v:?}")).map_err(|_| "rejected".to_string()) } else { Pth::read(&mut c).map(|v| format!("{v:?}")).map_err(|_| "rejected".to_string()) }
                };
                let chopped = guard(|| {
                    let mut c = crate::choppy::Choppy::new(f.bytes.clone(), m, k);
                    // every third read call is interrupted first when the cut pattern is the alternating one
                    c.interrupt_every = if m == 0x5555_5555_5555_5555 { 3 } else { 0 };
                    c.interrupt_calls = if m == 0x8080_8080_8080_8080 { 0b0110_1010 } else { 0 };
                    let mut w = crate::choppy::ChoppyWriter::new(k, c.interrupt_every);
                    if f.smx {
                        let v = Smx::read(&mut c).map_err(|_| "rejected".to_string())?;
                        let mut plain_w = Cursor::new(Vec::new());
                        let (a, b) = (v.write(&mut w), v.write(&mut plain_w));
                        if a.is_err() != b.is_err() || w.data != plain_w.into_inner() {
                            return Ok(format!("written differently through a writer taking {k} byte(s) per call ({a:?})"));
                        }
                        Ok(format!("{v:?}"))
                    } else {
                        let v = Pth::read(&mut c).map_err(|_| "rejected".to_string())?;
                        let mut plain_w = Cursor::new(Vec::new());
                        let (a, b) = (v.write(&mut w), v.write(&mut plain_w));
                        if a.is_err() != b.is_err() || w.data != plain_w.into_inner() {
                            return Ok(format!("written differently through a writer taking {k} byte(s) per call ({a:?})"));
                        }
                        Ok(format!("{v:?}"))
                    }
                });
                let replay = json!({"site": "short-reads", "index": i, "file": f.name, "chunk": k, "cuts": format!("{m:#x}")});
                match chopped {
                    Err(p) => acc.violate(i, format!("C17|{kind}|short-read|panic"), format!("{}: {p}", f.name), replay),
                    Ok(c) if c == plain => { acc.class("short-read-agrees"); acc.nontrivial(); },
                    Ok(c) => acc.violate(i, format!("C17|{kind}|short-read|differs-from-plain-read"),
                        format!("{} read {k} byte(s) at a time: {} ; in one piece: {}", f.name, c.unwrap_or_else(|e| e).chars().take(80).collect::<String>(), plain.unwrap_or_else(|e| e).chars().take(80).collect::<String>()), replay),
                }
            }));
    }
    // where the reader and the writer stand: the file behind 0..=7 other bytes in the stream, written behind
    // 0..=5 bytes already in the output - same structure, same bytes (padding and alignment are relative
    // to the file, not to the stream)
    {
        let files = files.clone();
        let small: Vec<usize> = files.iter().enumerate().filter(|(_, f)| f.bytes.len() <= 20_000).map(|(i, _)| i).collect();
        let woffs: [usize; 5] = [0, 1, 2, 3, 5];
        let per = 8 * woffs.len() as u64;
        let n = small.len() as u64 * per;
        sites.push(Site::new("stream-position", n,
            "every generated file and the shipped PTH file read at stream offset 0..=7 and written at output offset {0,1,2,3,5}: same structure, same bytes as at offset 0",
            move |i, acc| {
                use std::io::{Seek, SeekFrom, Write};
                mark(5, i);
                acc.eval();
                let f = &files[small[(i / per) as usize]];
                let r = ((i % per) / woffs.len() as u64) as usize;
                let w = woffs[(i % woffs.len() as u64) as usize];
                let kind = if f.smx { "SMX" } else { "PTH" };
                let replay = json!({"site": "stream-position", "index": i, "file": f.name, "read_offset": r, "write_offset": w});
                let plain = parse_and_write(f.smx, &f.bytes);
                let shifted = guard(|| -> Result<(String, Vec<u8>), String> {
                    let mut data = vec![0xa5u8; r];
                    data.extend_from_slice(&f.bytes);
                    let mut c = Cursor::new(&data[..]);
                    let _ = c.seek(SeekFrom::Start(r as u64));
                    let mut out = Cursor::new(Vec::new());
                    let _ = out.write_all(&vec![0x5au8; w]);
                    let dbg = if f.smx {
                        let v = Smx::read(&mut c).map_err(|e| e.to_string().chars().take(100).collect::<String>())?;
                        v.write(&mut out).map_err(|e| format!("write failed: {e}"))?;
                        format!("{v:?}")
                    } else {
                        let v = Pth::read(&mut c).map_err(|e| e.to_string().chars().take(100).collect::<String>())?;
                        v.write(&mut out).map_err(|e| format!("write failed: {e}"))?;
                        format!("{v:?}")
                    };
                    Ok((dbg, out.into_inner()[w..].to_vec()))
                });
                match shifted {
                    Err(p) => acc.violate(i, format!("C17|{kind}|stream-position|panic"), format!("{}: {p}", f.name), replay),
                    Ok(s) if s == plain => { acc.class("position-independent"); acc.nontrivial(); },
                    Ok(s) => acc.violate(i, format!("C17|{kind}|stream-position|differs-from-offset-0"),
                        format!("{} read at offset {r}, written at offset {w}: {} ; at offset 0: {}", f.name,
                            match &s { Ok((d, b)) => format!("{} bytes, {}", b.len(), d.chars().take(60).collect::<String>()), Err(e) => e.clone() },
                            match &plain { Ok((d, b)) => format!("{} bytes, {}", b.len(), d.chars().take(60).collect::<String>()), Err(e) => e.clone() }), replay),
                }
            }));
    }
    // ... and large files behind other bytes: counts either side of 100 000 and 2^17 (where a reader may change its
    // strategy) x read offset {1, 5, 64} x write offset {0, 3}
    {
        let big: Vec<FileCase> = vec![
            build_pth(99_999, 1), build_pth(100_000, 1), build_pth(100_001, 1), build_pth(131_073, 1),
            build_smx(1, 100_001, 3, 1, 1, b"Aston"), build_smx(1, 3, 100_001, 1, 1, b"Aston"), build_smx(1, 3, 1, 100_001, 1, b"Aston"), build_smx(100_001, 0, 0, 1, 1, b"Aston"),
        ];
        let big = Arc::new(big);
        let n = big.len() as u64 * 6;
        sites.push(Site::new("stream-position-large", n,
            "PTH files of 99 999 / 100 000 / 100 001 / 131 073 nodes and SMX files with 100 001 points / triangles / checkpoints / objects read at stream offset {1, 5, 64} and written at output offset {0, 3}: same bytes as at offset 0",
            move |i, acc| {
                use std::io::{Seek, SeekFrom, Write};
                acc.eval();
                let f = &big[(i / 6) as usize];
                let r = [1usize, 5, 64][((i % 6) / 2) as usize];
                let w = [0usize, 3][(i % 2) as usize];
                let kind = if f.smx { "SMX" } else { "PTH" };
                let replay = json!({"site": "stream-position-large", "index": i, "file": f.name, "read_offset": r, "write_offset": w});
                let shifted = guard(|| -> Result<Vec<u8>, String> {
                    let mut data = vec![0xa5u8; r];
                    data.extend_from_slice(&f.bytes);
                    let mut c = Cursor::new(&data[..]);
                    let _ = c.seek(SeekFrom::Start(r as u64));
                    let mut out = Cursor::new(Vec::new());
                    let _ = out.write_all(&vec![0x5au8; w]);
                    if f.smx { Smx::read(&mut c).map_err(|e| e.to_string().chars().take(100).collect::<String>())?.write(&mut out).map_err(|e| format!("write failed: {e}"))?; }
                    else { Pth::read(&mut c).map_err(|e| e.to_string().chars().take(100).collect::<String>())?.write(&mut out).map_err(|e| format!("write failed: {e}"))?; }
                    Ok(out.into_inner()[w..].to_vec())
                });
                match shifted {
                    Err(p) => acc.violate(i, format!("C17|{kind}|stream-position|panic"), format!("{}: {p}", f.name), replay),
                    Ok(Ok(b)) if b == f.bytes => { acc.class("large-file-position-independent"); acc.nontrivial(); },
                    Ok(other) => acc.violate(i, format!("C17|{kind}|stream-position|differs-from-offset-0"), format!("{} read at offset {r}, written at offset {w}: {}", f.name, match other { Ok(b) => format!("{} bytes that differ from the file's {}", b.len(), f.bytes.len()), Err(e) => e }), replay),
                }
            }));
    }
    // every truncation point
    {
        let mut cases: Vec<(usize, usize)> = vec![];
        for (fi, f) in files.iter().enumerate() {
            let n = f.bytes.len();
            if n <= 20_000 {
                for cut in 0..n { cases.push((fi, cut)); }
            } else {
                // too long for every prefix (cost is quadratic): both ends exhaustively, the middle strided
                let stride = if tier == Tier::Thorough { 211 } else { 4099 };
                for cut in 0..4096 { cases.push((fi, cut)); }
                let mut c = 4096;
                while c < n - 4096 { cases.push((fi, c)); c += stride; }
                for cut in (n - 4096)..n { cases.push((fi, cut)); }
            }
        }
        let cases = Arc::new(cases);
        let files = files.clone();
        sites.push(Site::new("truncation", cases.len() as u64,
            "every strict prefix of every generated file and of AS1.pth; for the 926 kB shipped SMX the first and last 4096 cut points and a stride in between",
            move |i, acc| {
                let (fi, cut) = cases[i as usize];
                let f = &files[fi];
                mark(1, i);
                acc.eval();
                let kind = if f.smx { "SMX" } else { "PTH" };
                let replay = json!({"site": "truncation", "index": i, "file": f.name, "cut": cut});
                let (r, peak, _) = measure(|| guard(|| parse_only(f.smx, &f.bytes[..cut])));
                match r {
                    Err(p) => acc.violate(i, format!("C17|{kind}|panic|truncated-file"), format!("{} cut at {cut}: {p}", f.name), replay),
                    Ok(Ok(())) => acc.violate(i, format!("C17|{kind}|truncated-file-accepted"), format!("{} ({} bytes) cut at {cut} is accepted as a shorter file", f.name, f.bytes.len()), replay),
                    Ok(Err(_)) => {
                        if peak > alloc_bound(cut) {
                            acc.violate(i, format!("C17|{kind}|allocation-beyond-input"), format!("{} cut at {cut}: parse allocated {peak} bytes", f.name), replay);
                        } else { acc.class("rejected"); acc.nontrivial(); }
                    },
                }
            }));
    }
    // single-byte substitutions in small files
    {
        let small: Vec<usize> = files.iter().enumerate().filter(|(_, f)| f.bytes.len() < 200).map(|(i, _)| i).collect();
        let mut offs = vec![0u64];
        for fi in &small { offs.push(offs.last().unwrap() + files[*fi].bytes.len() as u64 * 256); }
        let total = *offs.last().unwrap();
        let files = files.clone();
        sites.push(Site::new("substitution", total,
            "every generated file shorter than 200 bytes x every position x all 256 byte values",
            move |i, acc| {
                let si = match offs.binary_search(&i) { Ok(x) => x, Err(x) => x - 1 };
                let f = &files[small[si]];
                let r = i - offs[si];
                let (pos, val) = ((r / 256) as usize, (r % 256) as u8);
                let mut b = f.bytes.clone();
                b[pos] = val;
                mark(2, i);
                acc.eval();
                let kind = if f.smx { "SMX" } else { "PTH" };
                let replay = json!({"site": "substitution", "index": i, "file": f.name, "position": pos, "value": val});
                let (r, peak, _) = measure(|| guard(|| parse_and_write(f.smx, &b)));
                match r {
                    Err(p) => acc.violate(i, format!("C17|{kind}|panic|mutated-file"), format!("{} with byte {pos} = {val}: {p}", f.name), replay),
                    Ok(res) => {
                        if peak > alloc_bound(b.len()) * 2 {
                            acc.violate(i, format!("C17|{kind}|allocation-beyond-input"), format!("{} with byte {pos} = {val}: parse allocated {peak} bytes for {} input bytes", f.name, b.len()), replay.clone());
                        }
                        match res {
                            Ok((d1, _)) if d1.contains('\u{fffd}') => {
                                // a track name with undecodable bytes is decoded lossily by design
                                acc.class("accepted-lossy-text");
                            },
                            Ok((d1, w)) => {
                                // whatever was accepted must survive write + parse
                                match guard(|| parse_and_write(f.smx, &w)) {
                                    Ok(Ok((d2, _))) if d2 == d1 => { acc.class("accepted-and-stable"); acc.nontrivial(); },
                                    other => acc.violate(i, format!("C17|{kind}|write-then-parse-differs"), format!("{} with byte {pos} = {val}: {}", f.name, match other { Ok(Ok(_)) => "structure changed".to_string(), Ok(Err(e)) => e, Err(p) => p }), replay),
                                }
                            },
                            Err(_) => acc.class("rejected"),
                        }
                    },
                }
            }));
    }
    // from_file / from_pathbuf agree with read
    {
        let files = files.clone();
        sites.push(Site::new("file-api", files.len() as u64, "every file written to a temporary file: from_file and from_pathbuf agree with read", move |i, acc| {
            let f = &files[i as usize];
            acc.eval();
            let dir = std::path::PathBuf::from("/verif/target/tmp");
            let _ = std::fs::create_dir_all(&dir);
            let path = dir.join(format!("c17-{}-{i}.bin", std::process::id()));
            { let mut h = std::fs::File::create(&path).unwrap(); h.write_all(&f.bytes).unwrap(); }
            let kind = if f.smx { "SMX" } else { "PTH" };
            let replay = json!({"site": "file-api", "index": i, "file": f.name});
            let r = guard(|| {
                if f.smx {
                    let a = Smx::read(&mut Cursor::new(&f.bytes[..])).map(|v| format!("{v:?}")).map_err(|e| e.to_string());
                    let b = Smx::from_pathbuf(&path).map(|v| format!("{v:?}")).map_err(|e| e.to_string());
                    let c = std::fs::File::open(&path).map_err(|e| e.to_string()).and_then(|mut h| Smx::from_file(&mut h).map(|v| format!("{v:?}")).map_err(|e| e.to_string()));
                    (a, b, c)
                } else {
                    let a = Pth::read(&mut Cursor::new(&f.bytes[..])).map(|v| format!("{v:?}")).map_err(|e| e.to_string());
                    let b = Pth::from_pathbuf(&path).map(|v| format!("{v:?}")).map_err(|e| e.to_string());
                    let c = std::fs::File::open(&path).map_err(|e| e.to_string()).and_then(|mut h| Pth::from_file(&mut h).map(|v| format!("{v:?}")).map_err(|e| e.to_string()));
                    (a, b, c)
                }
            });
            let _ = std::fs::remove_file(&path);
            match r {
                Err(p) => acc.violate(i, format!("C17|{kind}|panic|file-api"), p, replay),
                Ok((a, b, c)) => {
                    if a.is_ok() && a == b && a == c { acc.class("agree"); acc.nontrivial(); }
                    else { acc.violate(i, format!("C17|{kind}|file-api-differs"), format!("{}: read ok={} from_pathbuf ok={} from_file ok={}", f.name, a.is_ok(), b.is_ok(), c.is_ok()), replay); }
                },
            }
        }));
    }
    // the file handed to from_file need not stand at its beginning: a PTH / SMX embedded behind 1, 7 or 64 other bytes,
    // complete or cut short by 1..=80 bytes - from_file agrees with read on the same bytes
    {
        let small: Vec<usize> = files.iter().enumerate().filter(|(_, f)| f.bytes.len() <= 400).map(|(i, _)| i).collect();
        let small = Arc::new(small);
        let files = files.clone();
        let n = small.len() as u64 * 3 * 81;
        sites.push(Site::new("file-api-embedded", n,
            "every generated file of at most 400 bytes x embedded behind {1, 7, 64} bytes x {complete, cut short by 1..=80 bytes}: from_file on a File positioned at the embedded file agrees with read on the same bytes (a strict prefix is refused)",
            move |i, acc| {
                let f = &files[small[(i / 243) as usize]];
                let prefix = [1usize, 7, 64][((i / 81) % 3) as usize];
                let cut = (i % 81) as usize;
                if cut >= f.bytes.len() { return; }
                acc.eval();
                let content = &f.bytes[..f.bytes.len() - cut];
                let dir = std::path::PathBuf::from("/verif/target/tmp");
                let _ = std::fs::create_dir_all(&dir);
                let path = dir.join(format!("c17e-{}-{i}.bin", std::process::id()));
                { let mut h = std::fs::File::create(&path).unwrap(); h.write_all(&vec![0xa5u8; prefix]).unwrap(); h.write_all(content).unwrap(); }
                let kind = if f.smx { "SMX" } else { "PTH" };
                let replay = json!({"site": "file-api-embedded", "index": i, "file": f.name, "prefix": prefix, "cut": cut});
                let r = guard(|| {
                    use std::io::Seek;
                    let mut h = std::fs::File::open(&path).map_err(|e| e.to_string())?;
                    let _ = h.seek(std::io::SeekFrom::Start(prefix as u64)).map_err(|e| e.to_string())?;
                    if f.smx {
                        Ok::<_, String>((Smx::read(&mut Cursor::new(content)).map(|v| format!("{v:?}")).map_err(|_| ()), Smx::from_file(&mut h).map(|v| format!("{v:?}")).map_err(|_| ())))
                    } else {
                        Ok((Pth::read(&mut Cursor::new(content)).map(|v| format!("{v:?}")).map_err(|_| ()), Pth::from_file(&mut h).map(|v| format!("{v:?}")).map_err(|_| ())))
                    }
                });
                let _ = std::fs::remove_file(&path);
                match r {
                    Err(p) => acc.violate(i, format!("C17|{kind}|panic|file-api"), p, replay),
                    Ok(Err(e)) => { eprintln!("MACHINERY: temporary file: {e}"); std::process::exit(4); },
                    Ok(Ok((a, b))) if a == b => { acc.class(if a.is_ok() { "embedded-agrees" } else { "embedded-prefix-refused" }); acc.nontrivial(); },
                    Ok(Ok((a, b))) => acc.violate(i, format!("C17|{kind}|file-api-differs"), format!("{} behind {prefix} byte(s), cut short by {cut}: read gives {}, from_file on the positioned file gives {}", f.name, if a.is_ok() { "a structure" } else { "an error" }, if b.is_ok() { "a structure" } else { "an error" }), replay),
                }
            }));
    }
    // a write that fails hard part-way (a slice that is too small) leaves nothing behind: the next file written on the
    // same thread comes out as its own bytes
    {
        let small: Vec<usize> = files.iter().enumerate().filter(|(_, f)| f.bytes.len() <= 200 && f.canonical).map(|(i, _)| i).collect();
        let mut cases: Vec<(usize, usize)> = vec![];
        for fi in &small { for room in 0..files[*fi].bytes.len() { cases.push((*fi, room)); } }
        let followers: Vec<usize> = files.iter().enumerate().filter(|(_, f)| f.canonical && f.bytes.len() <= 2000).map(|(i, _)| i).step_by(9).collect();
        let (cases, followers, files) = (Arc::new(cases), Arc::new(followers), files.clone());
        sites.push(Site::new("write-after-failed-write", cases.len() as u64,
            "every generated file of at most 200 bytes parsed and written into a slice of every length shorter than itself (the write fails), then a handful of other files parsed and written on the same thread: each comes out as its own bytes",
            move |i, acc| {
                acc.eval();
                let (fi, room) = cases[i as usize];
                let a = &files[fi];
                let first = guard(|| {
                    let mut space = vec![0u8; room];
                    let mut c = Cursor::new(&mut space[..]);
                    if a.smx { Smx::read(&mut Cursor::new(&a.bytes[..])).map(|v| v.write_le(&mut c).is_ok()).unwrap_or(false) } else { Pth::read(&mut Cursor::new(&a.bytes[..])).map(|v| v.write_le(&mut c).is_ok()).unwrap_or(false) }
                });
                for bi in followers.iter() {
                    let b = &files[*bi];
                    let replay = json!({"site": "write-after-failed-write", "index": i, "first": a.name, "room": room, "then": b.name});
                    match guard(|| parse_and_write(b.smx, &b.bytes)) {
                        Ok(Ok((_, w))) if w == b.bytes => {},
                        other => { acc.violate(i, format!("C17|{}|write-depends-on-an-earlier-failed-write", if b.smx { "SMX" } else { "PTH" }), format!("{} written right after {} failed to fit {room} bytes ({first:?}): {}", b.name, a.name, match other { Ok(Ok((_, w))) => format!("{} bytes, differing from the file", w.len()), Ok(Err(e)) => e, Err(p) => p }), replay); return; },
                    }
                }
                acc.class("nothing-left-behind-by-a-failed-write");
                acc.nontrivial();
            }));
    }
    // missing file
    sites.push(Site::new("missing-file", 2, "from_pathbuf on a path that does not exist", |i, acc| {
        acc.eval();
        let p = std::path::PathBuf::from("/verif/target/tmp/does-not-exist.bin");
        let r = guard(|| if i == 0 { Pth::from_pathbuf(&p).is_err() } else { Smx::from_pathbuf(&p).is_err() });
        match r {
            Ok(true) => { acc.class("error"); acc.nontrivial(); },
            other => acc.violate(i, "C17|missing-file-not-an-error".into(), format!("{other:?}"), json!({"site": "missing-file", "index": i})),
        }
    }));
    // no memory between threads: histories of 2 and 3 parses (+ re-writes) spread over two threads
    {
        let g = generated();
        let mut corpus: Vec<(String, (bool, Vec<u8>))> = vec![];
        for (k, c) in g.iter().enumerate() {
            if k % (g.len() / 9).max(1) == 0 && corpus.len() < 9 { corpus.push((c.name.clone(), (c.smx, c.bytes.clone()))); }
        }
        corpus.push(("truncated pth".into(), (false, g[1].bytes[..g[1].bytes.len() - 1].to_vec())));
        corpus.push(("not a file".into(), (true, b"nothing".to_vec())));
        sites.push(crate::crossthread::site("C17", "cross-thread-parses", "parse + write of PTH / SMX files", corpus, |(smx, b): &(bool, Vec<u8>)| {
            if *smx {
                Smx::read_le(&mut Cursor::new(&b[..])).map(|f| { let mut c = Cursor::new(Vec::new()); let w = f.write_le(&mut c).is_ok(); (format!("{f:?}").len(), w, c.into_inner()) }).map_err(|_| ())
            } else {
                Pth::read_le(&mut Cursor::new(&b[..])).map(|f| { let mut c = Cursor::new(Vec::new()); let w = f.write_le(&mut c).is_ok(); (format!("{f:?}").len(), w, c.into_inner()) }).map_err(|_| ())
            }
        }));
    }
    sites
}

/// Hostile count fields, run sequentially in a child process under an address-space limit so
/// that an allocation failure (which aborts) is attributed to the case in flight.
pub fn hostile_cases() -> Vec<(FileCase, usize, i32)> {
    let mut out = vec![];
    let mut files = generated();
    files.extend(shipped().into_iter().filter(|f| !f.smx));
    for f in files {
        for &off in &f.counts {
            let actual = i32::from_le_bytes(f.bytes[off..off + 4].try_into().unwrap());
            let mut vs = vec![-1, i32::MIN, i32::MAX, actual + 1, 1 << 24, 1 << 30, 0x7fff_fff0];
            // the true count plus a power of two: an alias if the count is shifted, multiplied or
            // narrowed before it is used
            for k in 8..=31u32 {
                vs.push(actual.wrapping_add(1i32.wrapping_shl(k)));
            }
            for v in vs {
                out.push((f.clone(), off, v));
            }
        }
    }
    out
}

pub fn child_hostile() -> i32 {
    unsafe {
        let lim = libc::rlimit { rlim_cur: 3 << 30, rlim_max: 3 << 30 };
        let _ = libc::setrlimit(libc::RLIMIT_AS, &lim);
    }
    let cases = hostile_cases();
    let out = std::io::stdout();
    for (i, (f, off, v)) in cases.iter().enumerate() {
        { let mut o = out.lock(); let _ = writeln!(o, "CASE {i}"); let _ = o.flush(); }
        let mut b = f.bytes.clone();
        b[*off..*off + 4].copy_from_slice(&v.to_le_bytes());
        let t = std::time::Instant::now();
        let (r, peak, largest) = measure(|| guard(|| parse_only(f.smx, &b)));
        let ms = t.elapsed().as_millis();
        let kind = if f.smx { "SMX" } else { "PTH" };
        let mut o = out.lock();
        let desc = format!("{} with the count at offset {off} set to {v}", f.name);
        match r {
            Err(p) => { let _ = writeln!(o, "VIOL {i}\tC17|{kind}|panic|hostile-count\t{desc}: {p}"); },
            // a count that is merely one too large can re-interpret the following bytes into a
            // self-consistent file; only counts the input cannot possibly hold must be rejected
            Ok(Ok(())) if (*v as i64) < 0 || (*v as i64) * 4 > b.len() as i64 => { let _ = writeln!(o, "VIOL {i}\tC17|{kind}|hostile-count-accepted\t{desc}: accepted although the input cannot hold that many elements"); },
            Ok(Ok(())) => { let _ = writeln!(o, "OK {i} {peak}"); },
            Ok(Err(_)) => {
                if peak > alloc_bound(b.len()) || ms > 2000 {
                    let _ = writeln!(o, "VIOL {i}\tC17|{kind}|allocation-beyond-input\t{desc}: peak {peak} bytes (largest request {largest}) for {} input bytes, {ms} ms", b.len());
                } else {
                    let _ = writeln!(o, "OK {i} {peak}");
                }
            },
        }
        let _ = o.flush();
    }
    0
}

pub fn run(tier: Tier, replay: Option<String>) -> i32 {
    if let Some(path) = &replay {
        let v = super::replay_value(path);
        if v.get("site").and_then(|s| s.as_str()) == Some("hostile-count") {
            let idx = v.get("index").and_then(|x| x.as_u64()).unwrap_or(0) as usize;
            let cases = hostile_cases();
            let (f, off, val) = &cases[idx];
            let mut b = f.bytes.clone();
            b[*off..*off + 4].copy_from_slice(&val.to_le_bytes());
            let (r, peak, _) = measure(|| guard(|| parse_only(f.smx, &b)));
            println!("replay: {} count@{off}={val}: {:?}, peak {peak} bytes (bound {})", f.name, r, alloc_bound(b.len()));
            return if matches!(r, Ok(Err(_))) && peak <= alloc_bound(b.len()) { 0 } else { 1 };
        }
    }
    if replay.is_some() {
        return run_sites_in_this_process(tier, replay);
    }
    let exe = std::env::current_exe().unwrap();
    let _ = std::fs::create_dir_all("/verif/replays/C17");
    let _ = std::fs::create_dir_all("/verif/target/tmp");

    // 1. hostile count values, sequentially, in a child under RLIMIT_AS
    let out = std::process::Command::new(&exe).args(["C17", "--tier", tier.name(), "--child", "hostile"]).output();
    let Ok(out) = out else { eprintln!("MACHINERY: cannot spawn child"); return 3; };
    let text = String::from_utf8_lossy(&out.stdout).to_string();
    let mut hostile: Vec<(u64, String, String)> = vec![];
    let mut hostile_evals = 0u64;
    let mut last_case = None;
    let mut finished = std::collections::BTreeSet::new();
    for l in text.lines() {
        if let Some(n) = l.strip_prefix("CASE ") { last_case = n.trim().parse::<u64>().ok(); hostile_evals += 1; }
        else if let Some(rest) = l.strip_prefix("VIOL ") {
            let mut it = rest.splitn(3, '\t');
            let idx: u64 = it.next().unwrap_or("0").trim().parse().unwrap_or(0);
            let _ = finished.insert(idx);
            hostile.push((idx, it.next().unwrap_or("").to_string(), it.next().unwrap_or("").to_string()));
        } else if let Some(rest) = l.strip_prefix("OK ") {
            if let Some(n) = rest.split(' ').next().and_then(|x| x.parse::<u64>().ok()) { let _ = finished.insert(n); }
        }
    }
    let cases = hostile_cases();
    if !out.status.success() {
        match last_case.filter(|c| !finished.contains(c)) {
            Some(c) => {
                let (f, off, v) = &cases[c as usize];
                hostile.push((c, format!("C17|{}|process-died|hostile-count", if f.smx { "SMX" } else { "PTH" }), format!("{} with the count at offset {off} set to {v}: the process died (allocation failure / abort)", f.name)));
            },
            None => { eprintln!("MACHINERY: hostile-count child failed: {:?}", out.status); return 3; },
        }
    }
    let mut code = 0;
    let known = std::fs::read_to_string("/verif/known_findings.json").unwrap_or_default();
    let mut seen = std::collections::BTreeSet::new();
    for (idx, sig, detail) in &hostile {
        if !seen.insert(sig.clone()) { continue; }
        let path = format!("/verif/replays/C17/hostile-{idx}.json");
        let _ = std::fs::write(&path, json!({"property": "C17", "site": "hostile-count", "index": idx, "signature": sig, "detail": detail}).to_string());
        if known.contains(&format!("\"{sig}\"")) {
            println!("KNOWN-FINDING: property=C17 [{sig}] {detail}");
        } else {
            println!("VIOLATION property=C17 replay={path}");
            println!("  signature: {sig}");
            println!("  witness:   {detail}");
            code = 1;
        }
    }

    // 2. the sweeps (round trip, truncation, substitution, file API) in a second child: a parse that
    // asks for more memory than the machine has aborts the process, and that must be a verdict
    let slots = format!("/verif/target/tmp/c17-slots-{}", std::process::id());
    let _ = std::fs::remove_file(&slots);
    let status = std::process::Command::new(&exe)
        .args(["C17", "--tier", tier.name(), "--child", "sites"])
        .env("C17_SLOTS", &slots)
        .env("C17_HOSTILE_CASES", cases.len().to_string())
        .env("C17_HOSTILE_RUN", hostile_evals.to_string())
        .env("C17_HOSTILE_VIOLATIONS", seen.len().to_string())
        .status();
    let Ok(status) = status else { eprintln!("MACHINERY: cannot spawn sweep child"); return 3; };
    let sweep_code = match status.code() {
        Some(c @ (0 | 1)) => c,
        other => {
            // the sweep died: find the case(s) in flight and re-run each in its own process
            let names = ["round-trip", "truncation", "substitution", "count-sweep", "short-reads", "stream-position", "count-grid", "mixed-sizes"];
            let raw = std::fs::read(&slots).unwrap_or_default();
            let mut pinned = 0;
            let mut tried = 0u64;
            for ch in raw.chunks(16) {
                if ch.len() < 16 { continue; }
                let site = u64::from_le_bytes(ch[..8].try_into().unwrap());
                let index = u64::from_le_bytes(ch[8..].try_into().unwrap());
                if site == 0 || site as usize > names.len() { continue; }
                let name = names[site as usize - 1];
                tried += 1;
                let st = std::process::Command::new(&exe).args(["C17", "--tier", tier.name(), "--child", "one", name, &index.to_string()]).output();
                let died = st.as_ref().map(|o| !matches!(o.status.code(), Some(0 | 1))).unwrap_or(true);
                if died {
                    pinned += 1;
                    let path = format!("/verif/replays/C17/process-died-{name}-{index}.json");
                    let _ = std::fs::write(&path, json!({"property": "C17", "site": name, "index": index, "signature": format!("C17|process-died|{name}")}).to_string());
                    println!("VIOLATION property=C17 replay={path}");
                    println!("  signature: C17|process-died|{name}");
                    println!("  witness:   {name} case #{index}: the parsing process died ({:?}) - an allocation the input cannot justify aborts the process", st.map(|o| o.status));
                }
            }
            if pinned == 0 {
                eprintln!("MACHINERY: the sweep process died ({other:?}) and no in-flight case reproduces it");
                let _ = std::fs::remove_file(&slots);
                return 4;
            }
            // the sweep could not finish: evidence states what was established
            let ev = json!({"property_id": "C17", "tier": tier.name(), "seed": 0, "level": "fault_enumeration",
                "coverage": {"evaluations": hostile_evals + tried, "distinct_nontrivial": (hostile_evals + tried).max(2),
                    "rule": "the sweep process was killed by the case(s) listed under violations; only the hostile-count sweep and the pinpointing re-runs completed",
                    "samples": [format!("{} in-flight case(s) re-run in isolation, {pinned} of them kill the process", tried)], "exhaustive": false},
                "assumptions": [], "wall_s": 0.0, "violations": pinned + code});
            let _ = std::fs::write("/verif/evidence/C17.json", serde_json::to_string_pretty(&ev).unwrap());
            1
        },
    };
    let _ = std::fs::remove_file(&slots);
    let _ = hex(&[]);
    code.max(sweep_code)
}

pub fn run_sites_in_this_process(tier: Tier, replay: Option<String>) -> i32 {
    let env_n = |k: &str| std::env::var(k).ok().and_then(|v| v.parse::<u64>().ok()).unwrap_or(0);
    let (hc, hr, hv) = (env_n("C17_HOSTILE_CASES"), env_n("C17_HOSTILE_RUN"), env_n("C17_HOSTILE_VIOLATIONS"));
    super::run_e1("C17", tier, "fault_enumeration", replay, sites(tier),
        "generated files (all count combinations 0..=2, 3 payload patterns, 4 track names) + shipped files; every truncation point; every single-byte substitution of files < 200 B; every count field x 7 hostile values (child process under RLIMIT_AS); non-trivial = cases whose outcome was judged against an expectation",
        vec![
            "allocation bound: peak bytes allocated during a parse <= 64 x input length + 64 kB (counting allocator, per thread)".into(),
            "for the 926 kB shipped SMX file truncation points are exhaustive only in the first and last 4096 bytes (prefix parsing is quadratic); generated files and AS1.pth are exhaustive".into(),
            "both sweeps run in child processes: a process killed by an allocation failure is attributed to the case in flight".into(),
        ],
        move |_acc, extra| {
            let _ = extra.insert("hostile_count_cases".into(), json!(hc));
            let _ = extra.insert("hostile_count_cases_run_in_child".into(), json!(hr));
            let _ = extra.insert("hostile_count_violation_signatures".into(), json!(hv));
        })
}

pub fn child_one(tier: Tier, rest: &[String]) -> i32 {
    let (Some(name), Some(idx)) = (rest.first(), rest.get(1).and_then(|x| x.parse::<u64>().ok())) else { return 2 };
    let s = sites(tier);
    let Some(site) = s.iter().find(|x| &x.name == name) else { return 2 };
    let mut acc = crate::report::Acc::new();
    (site.run)(idx, &mut acc);
    if acc.viol.is_empty() { 0 } else { 1 }
}
