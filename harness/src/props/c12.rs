//! C12 - escaping makes arbitrary text wire-safe; colour stripping is exact.
//! All strings up to a length bound over an alphabet of character-class representatives.

use insim::core::string::{
    codepages::{to_lossy_bytes, to_lossy_string},
    colours::strip,
    escaping::{escape, unescape},
};
use serde_json::json;

use crate::report::{guard, hex, Acc, Site, Tier};

pub const ALPHA: [char; 16] = [
    '^', '0', '8', '9', 'v', 'h', '|', '#', '"', 'L', 'E', 'J', 'x', '\u{e9}', '\u{11b}', '\u{30a2}',
];
const RESERVED: [char; 10] = ['|', '*', ':', '\\', '/', '?', '"', '<', '>', '#'];
const MARKERS: [char; 11] = ['L', 'G', 'C', 'E', 'T', 'B', 'J', 'S', 'K', 'H', '8'];

/// Reference colour stripper: delete ^0..^9, keep ^^ atomic.
pub fn ref_strip(s: &str) -> String {
    let cs: Vec<char> = s.chars().collect();
    let mut out = String::new();
    let mut i = 0;
    while i < cs.len() {
        if cs[i] == '^' && i + 1 < cs.len() {
            if cs[i + 1] == '^' {
                out.push_str("^^");
                i += 2;
                continue;
            }
            if cs[i + 1].is_ascii_digit() {
                i += 2;
                continue;
            }
        }
        out.push(cs[i]);
        i += 1;
    }
    out
}

/// The string-to-string parts only (escape / unescape inverse, no raw reserved character, strip = reference and
/// idempotent): these hold for EVERY string, encodable on the wire or not.
pub fn check_pure(s: &str, order: u64, site: &str, acc: &mut Acc) {
    acc.eval();
    let replay = json!({"site": site, "index": order, "string": s});
    let r = guard(|| {
        let e = escape(s).to_string();
        let u = unescape(&e).to_string();
        let st = strip(s).to_string();
        let st2 = strip(&st).to_string();
        let ste = strip(&e).to_string();
        (e, u, st, st2, ste)
    });
    let (e, u, st, st2, ste) = match r { Ok(x) => x, Err(p) => { acc.violate(order, "C12|panic".into(), format!("{s:?}: {p}"), replay); return; } };
    let mut ok = true;
    if u != s { ok = false; acc.violate(order, "C12|escape|unescape-is-not-the-inverse".into(), format!("unescape(escape({s:?})) = unescape({e:?}) = {u:?}"), replay.clone()); }
    for c in RESERVED { if e.contains(c) { ok = false; acc.violate(order, format!("C12|escape|reserved-character-raw|{}", c as u32), format!("escape({s:?}) = {e:?} still contains {c:?}"), replay.clone()); } }
    let want = ref_strip(s);
    if st != want { ok = false; acc.violate(order, "C12|strip|differs-from-reference".into(), format!("strip({s:?}) = {st:?}, expected {want:?}"), replay.clone()); }
    if st2 != st { ok = false; acc.violate(order, "C12|strip|not-idempotent".into(), format!("strip({s:?}) = {st:?} but strip of that = {st2:?}"), replay.clone()); }
    // (escaped text is what strip usually sees: a caret that was not a colour code arrives as ^^)
    let want_e = ref_strip(&e);
    if ste != want_e { ok = false; acc.violate(order, "C12|strip|differs-from-reference".into(), format!("strip({e:?}) = {ste:?}, expected {want_e:?}"), replay); }
    if ok { acc.class("pure-string-laws-hold"); acc.nontrivial(); } else { acc.class("violates"); }
}

pub fn check(s: &str, order: u64, site: &str, acc: &mut Acc) {
    acc.eval();
    let replay = json!({"site": site, "index": order, "string": s});
    let r = guard(|| {
        let e = escape(s).to_string();
        let u = unescape(&e).to_string();
        let wire = to_lossy_bytes(&e).to_vec();
        let back = to_lossy_string(&wire).to_string();
        let ub = unescape(&back).to_string();
        let st = strip(s).to_string();
        let st2 = strip(&st).to_string();
        (e, u, wire, back, ub, st, st2)
    });
    let (e, u, wire, back, ub, st, st2) = match r {
        Ok(x) => x,
        Err(p) => {
            acc.class("panic");
            acc.violate(order, "C12|panic".into(), format!("{s:?}: {p}"), replay);
            return;
        },
    };
    let mut ok = true;
    if u != s {
        ok = false;
        acc.violate(order, "C12|escape|unescape-is-not-the-inverse".into(), format!("unescape(escape({s:?})) = unescape({e:?}) = {u:?}"), replay.clone());
    }
    // reserved characters must not appear raw; a reserved character right after a caret is the
    // escape letter position only for ^^ (the alphabet of escape letters has no reserved char)
    for c in RESERVED {
        if e.contains(c) {
            ok = false;
            acc.violate(order, format!("C12|escape|reserved-character-raw|{}", c as u32), format!("escape({s:?}) = {e:?} still contains {c:?}"), replay.clone());
        }
    }
    if ub != s {
        ok = false;
        let ec: Vec<char> = e.chars().collect();
        let mut eaten = false;
        let mut i = 0;
        while i + 2 < ec.len() + 0 {
            if ec[i] == '^' && ec[i + 1] == '^' {
                if MARKERS.contains(&ec[i + 2]) {
                    eaten = true;
                }
                i += 2;
            } else {
                i += 1;
            }
        }
        let reset = e.find("^8").map(|p| e[p..].chars().any(|c| (c as u32) >= 0x80)).unwrap_or(false);
        let sig = if eaten {
            "C12|wire|escaped-caret-before-marker-letter-eaten"
        } else if reset {
            "C12|wire|encoder-ignores-page-reset-of-caret-8"
        } else {
            "C12|wire|other"
        };
        acc.violate(order, sig.into(), format!("{s:?} -> escape {e:?} -> wire {} -> {back:?} -> unescape {ub:?}", hex(&wire)), replay.clone());
    }
    let want = ref_strip(s);
    if st != want {
        ok = false;
        acc.violate(order, "C12|strip|differs-from-reference".into(), format!("strip({s:?}) = {st:?}, expected {want:?}"), replay.clone());
    }
    if st2 != st {
        ok = false;
        acc.violate(order, "C12|strip|not-idempotent".into(), format!("strip({s:?}) = {st:?} but strip of that = {st2:?}"), replay);
    }
    if ok {
        acc.class(if e != s { "escaped" } else if st != s { "coloured" } else { "plain" });
        if e != s || st != s {
            acc.nontrivial();
        }
    } else {
        acc.class("violates");
    }
}

pub fn sites(tier: Tier) -> Vec<Site> {
    let maxlen: u32 = if tier == Tier::Thorough { 7 } else { 5 };
    let k = ALPHA.len() as u64;
    let mut starts = vec![];
    let mut count = 0u64;
    for l in 0..=maxlen {
        starts.push(count);
        count += k.pow(l);
    }
    vec![Site::new("strings", count,
        &format!("all strings of length 0..={maxlen} over {{^ 0 8 9 v h | # \" L E J x e-acute e-caron katakana-a}} (16 class representatives)"),
        move |i, acc| {
            let mut l = 0;
            for (q, s) in starts.iter().enumerate() {
                if i >= *s { l = q; }
            }
            let mut j = i - starts[l];
            let mut s = String::new();
            for _ in 0..l {
                s.push(ALPHA[(j % k) as usize]);
                j /= k;
            }
            check(&s, i, "strings", acc);
            if i % 100_003 == 0 { acc.sample(|| json!({"string": s, "escaped": escape(&s)})); }
        }),
    Site::new("reserved-and-escape-letters", 22 * 22 * 22 + 22 * 22 + 22,
        "all strings of length 1..=3 over every reserved character, every escape letter, caret and a digit (22 symbols)",
        |i, acc| {
            let a: [char; 22] = ['|', '*', ':', '\\', '/', '?', '"', '<', '>', '#', 'v', 'a', 'c', 'd', 's', 'q', 't', 'l', 'r', 'h', '^', '3'];
            let (l, mut j) = if i < 22 { (1, i) } else if i < 22 + 22 * 22 { (2, i - 22) } else { (3, i - 22 - 22 * 22) };
            let mut s = String::new();
            for _ in 0..l { s.push(a[(j % 22) as usize]); j /= 22; }
            check(&s, i, "reserved-and-escape-letters", acc);
        }),
    {
        // no memory between calls: every ordered pair of strings of length <= 2 over the class alphabet
        let mut short: Vec<String> = vec![String::new()];
        for x in ALPHA { short.push(x.to_string()); }
        for x in ALPHA { for y in ALPHA { short.push(format!("{x}{y}")); } }
        let short = std::sync::Arc::new(short);
        let n = (short.len() * short.len()) as u64;
        Site::new("call-pairs", n,
            "every ordered pair of strings of length <= 2 over the class alphabet: escape, unescape and strip of the second give the same right after the first as on their own",
            move |i, acc| {
                acc.eval();
                let a = &short[(i as usize) / short.len()];
                let b = &short[(i as usize) % short.len()];
                let f = |s: &str| (escape(s).to_string(), unescape(s).to_string(), insim::core::string::colours::strip(s).to_string());
                let alone = f(b);
                let _ = f(a);
                let after = f(b);
                if alone == after { acc.class("pair-agrees"); acc.nontrivial(); }
                else { acc.violate(i, "C12|history-dependent".into(), format!("{b:?} gives {after:?} right after {a:?}, {alone:?} otherwise"), json!({"site": "call-pairs", "index": i})); }
            })
    },
    {
        // every printable ASCII character followed by every character of the repertoire, in a string that
        // also holds a colour code: two ordinary characters never add up to a code
        let t = crate::reftext::Tables::load();
        let chars: Vec<char> = t.union.iter().copied().filter(|c| (*c as u32) >= 0x80).collect();
        let chars = std::sync::Arc::new(chars);
        let n = chars.len() as u64 * 95;
        Site::new("ascii-then-any-character", n,
            "^7 + every printable ASCII character + every non-ASCII character of the repertoire (95 x ~30 000 strings)",
            move |i, acc| {
                let a = char::from_u32(0x20 + (i % 95) as u32).unwrap();
                let c = chars[(i / 95) as usize];
                let s = format!("^7{a}{c}");
                check(&s, i, "ascii-then-any-character", acc);
            })
    },
    {
        // a caret unit at EVERY offset 0..=300 behind five kinds of filler (1-, 2- and 3-byte characters, a
        // digit, a digit followed by letters) with three tails: block-wise or buffered implementations have
        // their seams somewhere in there
        let fillers: Vec<(&'static str, &'static str)> = vec![("", "a"), ("", "1"), ("", "\u{e9}"), ("", "\u{7f8e}"), ("1", "a"), ("^^", "a")];
        let units = ["^1", "^^", "^x", "^^1", "^", "^v", "^8"];
        let tails = ["", "z", "7"];
        let n = (fillers.len() * 301 * units.len() * tails.len()) as u64;
        Site::new("caret-unit-at-every-offset", n,
            "6 fillers (1-/2-/3-byte characters, digits, a leading digit, a leading escaped caret) x 0..=300 repetitions x 7 caret units x 3 tails",
            move |i, acc| {
                let mut j = i as usize;
                let t = tails[j % tails.len()]; j /= tails.len();
                let u = units[j % units.len()]; j /= units.len();
                let reps = j % 301; j /= 301;
                let (head, fill) = fillers[j % fillers.len()];
                let mut s = String::from(head);
                for _ in 0..reps { s.push_str(fill); }
                s.push_str(u);
                s.push_str(t);
                check(&s, i, "caret-unit-at-every-offset", acc);
            })
    },
    {
        // a caret (or an escaped caret) at EVERY offset of a 24- or 27-byte text and every printable ASCII
        // character at EVERY other offset, with a digit or a caret behind that character: implementations that
        // look for carets a machine word at a time have lanes, and a neighbour of '^' in the character table
        // ('_', ']') next to a real caret is where a lane test goes wrong
        let lens = [24usize, 27];
        let units = ["^", "^^"];
        let after = ['1', '^', 'a'];
        let n = (lens.len() * units.len() * after.len() * 27 * 27 * 95) as u64;
        Site::new("caret-and-any-ascii-at-every-offset", n,
            "texts of 24 and 27 bytes of filler x a caret or an escaped caret at every offset p x every printable ASCII character at every other offset q x a digit, a caret or a letter behind it",
            move |i, acc| {
                let mut j = i as usize;
                let c = (0x20 + (j % 95)) as u8; j /= 95;
                let q = j % 27; j /= 27;
                let p0 = j % 27; j /= 27;
                let a = after[j % after.len()]; j /= after.len();
                let u = units[j % units.len()]; j /= units.len();
                let len = lens[j % lens.len()];
                if p0 >= len || q >= len { return; }
                let mut b = vec![b'a'; len];
                for (k, ub) in u.bytes().enumerate() { if p0 + k < len { b[p0 + k] = ub; } }
                if q >= p0 && q < p0 + u.len() { return; }
                b[q] = c;
                if q + 1 < len && !(q + 1 >= p0 && q + 1 < p0 + u.len()) { b[q + 1] = a as u8; }
                let s = String::from_utf8(b).unwrap();
                check(&s, i, "caret-and-any-ascii-at-every-offset", acc);
            })
    },
    {
        // every character of the repertoire right behind a caret, behind
        // an escaped caret, and in front of a digit: what counts as a colour digit, an escape letter or a
        // marker letter must not depend on look-alikes
        let t = crate::reftext::Tables::load();
        // (characters of no page become '?' on the wire - C10's business - so the repertoire it is)
        let mut chars: Vec<char> = (0x20u32..0x7f).filter_map(char::from_u32).collect();
        chars.extend(t.union.iter().filter(|c| (**c as u32) >= 0x80));
        let chars = std::sync::Arc::new(chars);
        let n = chars.len() as u64 * 4;
        Site::new("caret-then-any-character", n,
            "every character c of the union repertoire of the ten pages (~30 000) in the contexts ^c, a^cb, ^^c, c^1: escape / unescape / strip / wire round trip as for every other string",
            move |i, acc| {
                let c = chars[(i / 4) as usize];
                let s = match i % 4 {
                    0 => format!("^{c}"),
                    1 => format!("a^{c}b"),
                    2 => format!("^^{c}"),
                    _ => format!("{c}^1"),
                };
                check(&s, i, "caret-then-any-character", acc);
            })
    },
    {
        // every Unicode scalar value (not only the characters of the ten pages) next to carets, escaped carets and colour
        // codes: the string-to-string laws hold for every string, so no character may play a part of its own in them
        let n = 0x11_0000u64 * 7;
        Site::new("any-scalar-value", n,
            "every Unicode scalar value c (all 1 112 064) in the contexts c^^, ^^c^1, a^2c^^_^^, ^c, c1?, |c7, ^c9: escape / unescape inverse, no raw reserved character, strip = reference (on the text and on its escaped form) and idempotent",
            move |i, acc| {
                let Some(c) = char::from_u32((i / 7) as u32) else { return };
                let s = match i % 7 {
                    0 => format!("{c}^^"),
                    1 => format!("^^{c}^1"),
                    2 => format!("a^2{c} ^_^"),
                    3 => format!("^{c}"),
                    // (... in front of a digit, with something to escape elsewhere in the text)
                    4 => format!("{c}1?"),
                    5 => format!("|{c}7"),
                    _ => format!("^{c}9"),
                };
                check_pure(&s, i, "any-scalar-value", acc);
            })
    },
    {
        // long stretches of ordinary text BETWEEN two carets / reserved characters: gaps around every power of two up to
        // 2^17 (an offset or a length kept in 8 or 16 bits wraps in there)
        let heads = ["^1", "^^", "<", "^", "a^v"];
        let fills = ["x", "\u{e9}", "lorem ipsum "];
        let tails = ["^2", "?", "^^", "done", "^"];
        let mut gaps: Vec<usize> = vec![];
        for k in [8u32, 12, 15, 16, 17] { for d in [-1i64, 0, 1] { gaps.push(((1i64 << k) + d) as usize); } }
        let n = (heads.len() * fills.len() * tails.len() * gaps.len()) as u64;
        Site::new("long-gaps", n,
            "5 heads (a colour code, an escaped caret, a reserved character, a lone caret, an escape letter) + a filler of 2^k-1, 2^k, 2^k+1 bytes (k in {8, 12, 15, 16, 17}; three kinds of filler) + 5 tails: escape / unescape / strip / wire round trip as for every other string",
            move |i, acc| {
                let mut j = i as usize;
                let t = tails[j % tails.len()]; j /= tails.len();
                let g = gaps[j % gaps.len()]; j /= gaps.len();
                let f = fills[j % fills.len()]; j /= fills.len();
                let h = heads[j % heads.len()];
                let mut s = String::with_capacity(g + 16);
                s.push_str(h);
                while s.len() - h.len() + f.len() <= g { s.push_str(f); }
                while s.len() - h.len() < g { s.push('y'); }
                s.push_str(t);
                check(&s, i, "long-gaps", acc);
            })
    },
    {
        // "any number of codes": one unit repeated around every power of two up to 2^17 (counters of 8 and 16 bits
        // wrap in there), with a different unit in front and behind
        let units = ["^1", "^1a", "a^2", "^^", "^^3", "^v", "|", "^", "^9^^", "\u{e9}^4"];
        let mut counts: Vec<usize> = vec![];
        for k in [8u32, 12, 15, 16, 17] { for d in [-1i64, 0, 1] { counts.push(((1i64 << k) + d) as usize); } }
        counts.extend([3 * 65536 + 2, 100_000]);
        let frames = [("", ""), ("x", "^5y"), ("^3", "")];
        let n = (units.len() * counts.len() * frames.len()) as u64;
        Site::new("many-units", n,
            "10 units (colour codes, escaped carets, escape letters, reserved characters, a lone caret) repeated 2^k-1, 2^k, 2^k+1 times for k in {8, 12, 15, 16, 17} and 100 000 / 196 610 times x 3 surroundings: escape / unescape / strip / wire round trip as for every other string",
            move |i, acc| {
                let mut j = i as usize;
                let (head, tail) = frames[j % frames.len()]; j /= frames.len();
                let c = counts[j % counts.len()]; j /= counts.len();
                let u = units[j % units.len()];
                let mut s = String::with_capacity(head.len() + tail.len() + u.len() * c);
                s.push_str(head);
                for _ in 0..c { s.push_str(u); }
                s.push_str(tail);
                check(&s, i, "many-units", acc);
            })
    },
    {
        // the same units in very long texts through an UNOPTIMISED build of the library (/verif/deepbin, one
        // process per case): a recursion per unit that the optimiser turns into a loop is still a recursion in
        // the builds users test with, and a stack overflow kills the process - which is the verdict
        let units = ["^1", "^1a", "a^2", "^^", "^^3", "^v", "|", "^", "^9^^", "\u{e9}^4", "a", "\0"];
        let counts: Vec<usize> = if tier == Tier::Thorough { vec![1 << 12, 1 << 16, 1 << 20, 1 << 22] } else { vec![1 << 12, 1 << 16, 1 << 20] };
        let n = (units.len() * counts.len()) as u64;
        Site::new("very-long-texts-unoptimised-build", n,
            "12 units (colour codes, escaped carets, escape letters, a reserved character, a lone caret, a letter, NUL) repeated 2^12, 2^16, 2^20 (thorough: 2^22) times, each in a child process of an unoptimised build of the library: no panic, no abort, no hang; unescape(escape(s)) = s; strip = reference and idempotent",
            move |i, acc| {
                acc.eval();
                let u = units[(i as usize) / counts.len()];
                let c = counts[(i as usize) % counts.len()];
                let hexu: String = u.bytes().map(|b| format!("{b:02x}")).collect();
                let replay = json!({"site": "very-long-texts-unoptimised-build", "index": i});
                match std::process::Command::new(deep_bin()).args(["text", hexu.as_str(), &c.to_string()]).output() {
                    Err(e) => panic!("MACHINERY: cannot spawn the child: {e}"),
                    Ok(o) => match o.status.code() {
                        Some(0) => { acc.class("pure-string-laws-hold"); if o.stdout.starts_with(b"changed") { acc.nontrivial(); } },
                        Some(1) => acc.violate(i, format!("C12|very-long-texts|{}", String::from_utf8_lossy(&o.stdout).lines().next().unwrap_or("failed")), format!("{u:?} x {c} in an unoptimised build: {}", String::from_utf8_lossy(&o.stdout)), replay),
                        Some(2) => panic!("MACHINERY: the child refused its arguments"),
                        other => acc.violate(i, "C12|very-long-texts|process-died".into(), format!("{u:?} x {c} in an unoptimised build: the process died ({other:?}, {:?}): {}", o.status, String::from_utf8_lossy(&o.stderr).chars().take(300).collect::<String>()), replay),
                    },
                }
            })
    },
    {
        let corpus: Vec<(String, String)> = ["", "plain", "^1red^8", "a^^b", "^v|^a*", "path/to\\file?", "^Jあ^Lx", "^", "^9^9^9", "100% <ok>", "^hx^tq", "#tag:\"v\""].iter().map(|s| (format!("text {s:?}"), s.to_string())).collect();
        crate::crossthread::site("C12", "cross-thread-calls", "escape / unescape / strip", corpus, |s: &String| (escape(s).to_string(), unescape(s).to_string(), insim::core::string::colours::strip(s).to_string()))
    }]
}

/// The one-case runner built in the dev profile (see /verif/deepbin and ./check).
fn deep_bin() -> String { std::env::var("VERIF_DEEP_BIN").unwrap_or_else(|_| "/verif/target/deep/debug/deep".into()) }

pub fn run(tier: Tier, replay: Option<String>) -> i32 {
    if !std::path::Path::new(&deep_bin()).exists() { eprintln!("MACHINERY: {} is missing (./check builds it)", deep_bin()); return 3; }
    super::run_e1("C12", tier, "exploration", replay, sites(tier),
        "all strings to a length bound over class alphabets; every string is distinct by construction; non-trivial = escaping or stripping changes it",
        vec![
            "oracles: unescape(escape(s)) == s; no raw reserved character in escape(s); unescape(decode(encode(escape(s)))) == s; strip == reference stripper (delete ^0..^9, ^^ atomic); strip idempotent".into(),
            "all alphabet characters are encodable in some LFS code page".into(),
        ],
        |_, _| {})
}
