//! C01 - lossless packet round trip in both directions (typed -> wire -> typed, wire -> typed -> wire).

use std::sync::Arc;

use bytes::BytesMut;
use insim::{core::string::codepages, net::Codec, Packet};
use serde_json::{json, Value};

use super::c02::{field_at, mode_of};
use crate::{
    gen::Gen,
    report::{guard, h64, hex, Acc, Site, Tier},
    spec::{self, Depth},
    textgen, typed,
};

fn short(b: &[u8]) -> String {
    if b.len() <= 40 { hex(b) } else { format!("{} .. ({} bytes)", hex(&b[..40]), b.len()) }
}

pub fn json_diff_path(a: &Value, b: &Value, prefix: String) -> Option<String> {
    match (a, b) {
        (Value::Object(x), Value::Object(y)) => {
            for (k, v) in x {
                match y.get(k) {
                    Some(w) => {
                        if let Some(p) = json_diff_path(v, w, if prefix.is_empty() { k.clone() } else { format!("{prefix}.{k}") }) {
                            return Some(p);
                        }
                    },
                    None => return Some(format!("{prefix}.{k}")),
                }
            }
            if x.len() != y.len() { return Some(prefix); }
            None
        },
        (Value::Array(x), Value::Array(y)) => {
            if x.len() != y.len() { return Some(format!("{prefix}.len")); }
            for (v, w) in x.iter().zip(y) {
                // element index is left out of the path so that one defect has one signature
                if let Some(p) = json_diff_path(v, w, format!("{prefix}[]")) { return Some(p); }
            }
            None
        },
        _ => if a == b { None } else { Some(prefix) },
    }
}

/// Round-trip one typed packet. `kind`: label for signatures; `spec`: optional (kind, vals) to
/// name the wire field that differs.
pub fn roundtrip(acc: &mut Acc, order: u64, label: &str, kname: &str, p: &Packet, compressed: bool,
    must_encode: bool, locate: Option<(&spec::Kind, &[spec::Val])>, replay: &Value) {
    let m = if compressed { "compressed" } else { "uncompressed" };
    let codec = Codec::new(mode_of(compressed));
    acc.eval();
    let f1 = match guard(|| codec.encode(p)) {
        Ok(Ok(b)) => b,
        Ok(Err(e)) => {
            acc.class("encode-refused");
            if must_encode {
                acc.violate(order, format!("C01|{kname}|in-domain-packet-refused"),
                    format!("{label} [{m}]: encoder refused a packet whose fields are representable: {}", e.to_string().chars().take(90).collect::<String>()), replay.clone());
            }
            return;
        },
        Err(msg) => {
            acc.class("encode-panic");
            if must_encode {
                acc.violate(order, format!("C01|{kname}|in-domain-packet-panics"),
                    format!("{label} [{m}]: encoder panicked on a packet whose fields are representable: {msg}"), replay.clone());
            }
            return;
        },
    };
    acc.key(h64(&f1) ^ compressed as u64);
    let mut buf = BytesMut::from(&f1[..]);
    let p1 = match guard(|| codec.decode(&mut buf)) {
        Ok(Ok(Some(x))) if buf.is_empty() => x,
        other => {
            acc.class("own-frame-not-decoded");
            let what = match other { Ok(Ok(Some(_))) => "left bytes behind".to_string(), Ok(Ok(None)) => "asks for more data".into(), Ok(Err(e)) => format!("error {}", e.to_string().chars().take(80).collect::<String>()), Err(p) => format!("panic {p}") };
            acc.violate(order, format!("C01|{kname}|own-frame-not-decoded"),
                format!("{label} [{m}]: the encoder's frame {} does not decode: {what}", short(&f1)), replay.clone());
            return;
        },
    };
    let (d0, d1) = (format!("{p:?}"), format!("{p1:?}"));
    let mut ok = true;
    if d0 != d1 {
        ok = false;
        let (j0, j1) = (serde_json::to_value(p).unwrap(), serde_json::to_value(&p1).unwrap());
        let path = json_diff_path(&j0, &j1, String::new()).unwrap_or_else(|| "debug-only".into());
        acc.violate(order, format!("C01|{kname}|{path}|typed-wire-typed"),
            format!("{label} [{m}]: field {path} changed across encode+decode via {}: before {} after {}", short(&f1),
                crate::spec::describe_path(&j0, &path), crate::spec::describe_path(&j1, &path)), replay.clone());
    }
    match guard(|| codec.encode(&p1)) {
        Ok(Ok(f2)) => {
            if f2[..] != f1[..] {
                ok = false;
                let off = f2.iter().zip(f1.iter()).position(|(a, b)| a != b).unwrap_or(f1.len().min(f2.len()));
                let fname = match locate { Some((k, v)) => field_at(k, v, off), None => format!("offset-{off}") };
                acc.violate(order, format!("C01|{kname}|{fname}|wire-typed-wire"),
                    format!("{label} [{m}]: encoder frame {} re-encodes after decoding as {} (first difference at offset {off})", short(&f1), short(&f2)), replay.clone());
            }
        },
        other => {
            ok = false;
            acc.violate(order, format!("C01|{kname}|decoded-own-frame-not-encodable"),
                format!("{label} [{m}]: the packet decoded from the encoder's own frame {} cannot be encoded again: {}", short(&f1),
                    match other { Ok(Err(e)) => e.to_string().chars().take(80).collect::<String>(), Err(p) => p, _ => String::new() }), replay.clone());
        },
    }
    acc.class(if ok { "round-trips" } else { "lossy" });
}

pub fn sites(tier: Tier) -> Vec<Site> {
    let depth = if tier == Tier::Thorough { Depth::Full } else { Depth::Light };
    let gen = Arc::new(Gen::new(depth));
    let mut sites = vec![];
    {
        let g = gen.clone();
        sites.push(Site::new("gen-roundtrip", gen.total,
            "every Gen case (kind x baseline x field x whole bounded domain) x mode: typed value = decode(specification frame); encode, decode, encode",
            move |i, acc| {
                let (ki, vals, what) = g.case(i);
                let kind = &g.kinds[ki];
                for compressed in [true, false] {
                    let Some(frame) = spec::ref_encode(kind, &vals, compressed) else { continue };
                    let codec = Codec::new(mode_of(compressed));
                    let mut buf = BytesMut::from(&frame[..]);
                    let Ok(Ok(Some(p))) = guard(|| codec.decode(&mut buf)) else { acc.eval(); acc.class("spec-frame-not-decoded"); continue };
                    let replay = json!({"site": "gen-roundtrip", "index": i, "case": what, "spec_frame": hex(&frame[..frame.len().min(64)])});
                    // values come from in-domain frames, so they are representable: the encoder must accept them
                    roundtrip(acc, i, &what, &kind.name, &p, compressed, false, Some((kind, &vals)), &replay);
                    if i % 7919 == 0 { acc.sample(|| json!({"case": what, "typed": format!("{p:?}").chars().take(200).collect::<String>()})); }
                }
            }));
    }
    {
        let hw = Arc::new(typed::handwritten_typed());
        let n = hw.len() as u64 * 2;
        sites.push(Site::new("typed-handwritten", n,
            "typed values built without the decoder for the hand-written reader/writer pairs (ConInfo nibbles 0..15, SmallType durations at u32 boundaries, every CimMode, every representable RaceLaps, Fuel, Vehicle, allowed-car sets, LCL/LCS named flags, multi-codepage MSO) x mode",
            move |i, acc| {
                let compressed = i % 2 == 0;
                let (label, p) = &hw[(i / 2) as usize];
                let replay = json!({"site": "typed-handwritten", "index": i, "case": label});
                let kname = typed::variant_name(p).to_uppercase();
                roundtrip(acc, i, label, &kname, p, compressed, true, None, &replay);
            }));
    }
    {
        // counted kinds built through the typed API (independent of the decoder): 0..=protocol maximum
        let cs = Arc::new(typed::counted());
        let mut cases: Vec<(usize, usize)> = vec![];
        for (ci, c) in cs.iter().enumerate() {
            for n in 0..=c.max {
                cases.push((ci, n));
            }
        }
        let cases = Arc::new(cases);
        let n = cases.len() as u64 * 2;
        sites.push(Site::new("typed-counted", n,
            "every counted kind (NLP MCI AXM PLH MAL IPB HOS) built through the typed API with 0..=protocol-maximum elements x mode",
            move |i, acc| {
                let compressed = i % 2 == 0;
                let (ci, n) = cases[(i / 2) as usize];
                let c = &cs[ci];
                let Some(p) = (c.make)(n) else { return };
                let mut l = c.header + c.elem * n;
                if c.kind == "NLP" && n % 2 == 1 { l += 2; }
                if !compressed && l > 255 { return; }
                let label = format!("{} x{n}", c.kind);
                let replay = json!({"site": "typed-counted", "index": i, "case": label});
                roundtrip(acc, i, &label, c.kind, &p, compressed, true, None, &replay);
            }));
    }
    {
        // text up to the field width, multi-codepage, caret-free, NUL-free, encodable
        let tfs = typed::text_fields();
        let mut cases: Vec<(usize, String, String)> = vec![];
        for (ti, t) in tfs.iter().enumerate() {
            for (fam, s) in textgen::strings(t.width) {
                // (texts holding a character of no code page are lossy by design: C10's business)
                if s.contains('\0') || s.contains('^') || fam.starts_with("no-page") { continue; }
                let enc = if t.raw { s.as_bytes().len() } else { codepages::to_lossy_bytes(&s).len() };
                // MST / MSX / MSL are C strings for LFS: the last byte of the field is the terminator
                let must_terminate = matches!(t.kind, "MST" | "MSX" | "MSL");
                let fits = if t.var || must_terminate { enc < t.width } else { enc <= t.width };
                if !fits { continue; }
                if t.raw && !s.is_ascii() { continue; }
                cases.push((ti, fam, s));
            }
        }
        let tfs = Arc::new(tfs);
        let cases = Arc::new(cases);
        let n = cases.len() as u64 * 2;
        sites.push(Site::new("typed-text", n,
            "every text-bearing field x every generator string whose encoded length fits the field x mode",
            move |i, acc| {
                let compressed = i % 2 == 0;
                let (ti, fam, s) = &cases[(i / 2) as usize];
                let t = &tfs[*ti];
                let p = (t.make)(s);
                let label = format!("{}.{} = {fam}", t.kind, t.field);
                let replay = json!({"site": "typed-text", "index": i, "case": label});
                roundtrip(acc, i, &label, &format!("{}|{}", t.kind, t.field), &p, compressed, true, None, &replay);
            }));
    }
    {
        let cases = Arc::new(super::c02::list_order_cases());
        let kinds = Arc::new(spec::load());
        sites.push(Site::new("list-orders", cases.len() as u64 * 2,
            "every counted list kind x n = 2, 3, 4 elements that differ in every field x every one of the n! orders x mode: encode, decode, encode",
            move |i, acc| {
                let (ki, vals, what) = &cases[(i / 2) as usize];
                let compressed = i % 2 == 0;
                let kind = &kinds[*ki];
                let Some(frame) = spec::ref_encode(kind, vals, compressed) else { return };
                let codec = Codec::new(mode_of(compressed));
                let mut buf = BytesMut::from(&frame[..]);
                let Ok(Ok(Some(p))) = guard(|| codec.decode(&mut buf)) else { acc.eval(); acc.class("spec-frame-not-decoded"); return };
                let replay = json!({"site": "list-orders", "index": i, "case": what});
                roundtrip(acc, i, what, &kind.name, &p, compressed, false, Some((kind, vals)), &replay);
                // the decoder's typed list re-encoded must be the frame it came from (the writer is not asked to sort)
                if let Ok(Ok(f1)) = guard(|| codec.encode(&p)) {
                    if f1[..] != frame[..] && spec::ref_encode_opt(kind, vals, compressed, true).as_deref() != Some(&f1[..]) {
                        acc.violate(i, format!("C01|{}|list-order|wire-typed-wire", kind.name), format!("{what}: frame {} decodes and re-encodes as {}", short(&frame), short(&f1)), replay);
                    }
                }
            }));
    }
    sites.push(packet_short_io_site("C01"));
    sites.push(mso_name_text_site("C01"));
    sites.push(container_ops_site("C01"));
    sites
}

/// MSO: a name in one code page, a separator, a text in another, TextStart at the text - for every user
/// type and mode.  The wire TextStart is the offset of the text in the ENCODED message, the typed one
/// the offset in the string; typed -> wire -> typed must be the identity and wire -> typed -> wire too.
/// (Shared by C01 and C02: it is a statement about values and about the meaning of a wire field.)
/// The packets' own `BinRead` / `BinWrite` are public and take any `Read + Seek` / `Write + Seek`: every kind's B0
/// and B1 packet body (what `Codec` hands to `Packet::read`) through a reader that delivers 1, 2, 3, 5 or 7 bytes
/// per call (optionally `Interrupted` on every second call), and back through a writer that takes as few.
pub fn packet_short_io_site(prop: &'static str) -> Site {
    use insim::core::binrw::{BinRead, BinWrite};
    let mut bodies: Vec<(String, Vec<u8>)> = vec![];
    for k in spec::load().iter() {
        for b in [0u8, 1] {
            let Some(f) = spec::ref_encode(k, &crate::gen::baseline(k, b), true) else { continue };
            bodies.push((format!("{} B{b}", k.name), f[1..].to_vec()));
        }
    }
    let bodies = Arc::new(bodies);
    const CHUNKS: [usize; 5] = [1, 2, 3, 5, 7];
    let n = bodies.len() as u64 * CHUNKS.len() as u64 * 2 * 4;
    Site::new("packet-short-io", n,
        "every kind's B0 and B1 packet body through Packet's public BinRead from a reader that returns at most {1, 2, 3, 5, 7} bytes per call x {never, every second call interrupted} x {no, the 2nd, the 2nd and 3rd, the 2nd..40th} call failing with Interrupted first: same packet as from a plain cursor; written through a writer that takes as few bytes per call: the same bytes",
        move |i, acc| {
            acc.eval();
            // which read calls fail with Interrupted first: none / the 2nd / the 2nd and 3rd / every call from the 2nd to the 40th
            let calls = [0u64, 0b10, 0b110, 0xff_ffff_fffe][(i % 4) as usize];
            let i0 = i;
            let i = i / 4;
            let interrupts = i % 2 == 1;
            let chunk = CHUNKS[((i / 2) % CHUNKS.len() as u64) as usize];
            let (name, body) = &bodies[(i / (2 * CHUNKS.len() as u64)) as usize];
            let replay = json!({"site": "packet-short-io", "index": i0, "interrupted_calls": calls, "packet": name, "bytes_per_call": chunk, "interrupts": interrupts});
            let plain = guard(|| Packet::read_le(&mut std::io::Cursor::new(&body[..])).map(|p| format!("{p:?}")).map_err(|e| e.to_string().chars().take(60).collect::<String>()));
            let chopped = guard(|| {
                let mut c = crate::choppy::Choppy::new(body.clone(), 0, chunk);
                c.interrupt_every = if interrupts { 2 } else { 0 };
                c.interrupt_calls = calls;
                let r = Packet::read_le(&mut c);
                let text = r.as_ref().map(|p| format!("{p:?}")).map_err(|e| e.to_string().chars().take(60).collect::<String>());
                let back = r.ok().map(|p| {
                    let mut w = crate::choppy::ChoppyWriter::new(chunk, if interrupts { 3 } else { 0 });
                    let wr = p.write_le(&mut w).map_err(|e| e.to_string());
                    let mut plainw = std::io::Cursor::new(Vec::new());
                    let pr = p.write_le(&mut plainw).map_err(|e| e.to_string());
                    (wr.is_ok() == pr.is_ok() && (wr.is_err() || w.data == *plainw.get_ref()), crate::report::hex(&w.data[..w.data.len().min(24)]), crate::report::hex(&plainw.get_ref()[..plainw.get_ref().len().min(24)]))
                });
                (text, back)
            });
            match (plain, chopped) {
                (Err(p), _) | (_, Err(p)) => acc.violate(i0, format!("{prop}|packet-short-io|panic"), format!("{name}: {p}"), replay),
                (Ok(a), Ok((b, back))) => {
                    if a != b {
                        acc.violate(i0, format!("{prop}|packet-short-io|read-differs-from-plain-read"), format!("{name} read {chunk} byte(s) at a time gives {}, from a plain cursor {}", format!("{b:?}").chars().take(120).collect::<String>(), format!("{a:?}").chars().take(120).collect::<String>()), replay);
                    } else if let Some((false, slow, fast)) = back {
                        acc.violate(i0, format!("{prop}|packet-short-io|write-differs-from-plain-write"), format!("{name} written {chunk} byte(s) at a time gives {slow}.., into a plain cursor {fast}.."), replay);
                    } else { acc.class("short-io-agrees"); acc.nontrivial(); }
                },
            }
        })
}

pub fn mso_name_text_site(prop: &'static str) -> Site {
        let mut names: Vec<String> = ["", "Vasya", "\u{412}\u{430}\u{441}\u{44f}", "Kub\u{11b}na", "\u{65e5}\u{672c}", "\u{dc}nal", "\u{3a9}\u{3bc}"].iter().map(|s| s.to_string()).collect();
        // names of every length that fits the 128-byte field on the wire: the name's length in UTF-8 (TextStart of the typed
        // packet) and on the wire (TextStart in the frame) drift apart, up to 2:1 and 3:2, past 128 and up to 255
        for letter in ['V', '\u{432}', '\u{11b}', '\u{65e5}', '\u{3a9}'] {
            for len in 1..=120usize {
                let name: String = std::iter::repeat(letter).take(len).collect();
                let wire = codepages::to_lossy_bytes(&format!("{name} : hi")).len();
                if wire <= 127 && format!("{name} : ").len() <= 255 { names.push(name); }
            }
        }
        let texts = ["", "hi", "f\u{fc}r", "\u{44c}\u{440}", "\u{11b}\u{161}", "\u{65e5}\u{672c}\u{8a9e}", "se\u{f1}or 8", "a\u{3a9}"];
        let n = (names.len() * texts.len() * 4 * 2) as u64;
        return Site::new("mso-name-and-text", n,
            "IS_MSO with a name from 7 code-page classes and names of 1..=120 letters of 5 classes (as long as the message fits its field), ' : ', a text from 8 classes, TextStart at the text x 4 user types x mode: wire TextStart = encoded length of the name part, message bytes = encoding of the whole message, decode gives the packet back, re-encode the frame",
            move |i, acc| {
                use insim::insim::{Mso, MsoUserType};
                acc.eval();
                let compressed = i % 2 == 0;
                let mut j = (i / 2) as usize;
                let ut = match j % 4 { 0 => MsoUserType::System, 1 => MsoUserType::User, 2 => MsoUserType::Prefix, _ => MsoUserType::O }; j /= 4;
                let text = texts[j % texts.len()]; j /= texts.len();
                let name = &names[j % names.len()];
                let prefix = if name.is_empty() { String::new() } else { format!("{name} : ") };
                let msg = format!("{prefix}{text}");
                // (long names leave room for the short texts only)
                if codepages::to_lossy_bytes(&msg).len() > 127 || prefix.len() > 255 { return; }
                let p = Mso { usertype: ut.clone(), textstart: prefix.len() as u8, msg: msg.clone(), ..Default::default() };
                let label = format!("MSO {ut:?} {msg:?} textstart {}", prefix.len());
                let replay = json!({"site": "mso-name-and-text", "index": i, "case": label});
                let codec = Codec::new(mode_of(compressed));
                let frame = match crate::report::guard(|| codec.encode(&Packet::Mso(p.clone()))) {
                    Ok(Ok(f)) => f,
                    other => { acc.violate(i, format!("{prop}|MSO|name-and-text|encode-failed"), format!("{label}: {:?}", other.map(|r| r.map(|_| ()).map_err(|e| e.to_string()))), replay); return; },
                };
                let want_ts = codepages::to_lossy_bytes(&prefix).len();
                let want_msg = codepages::to_lossy_bytes(&msg);
                if frame[7] as usize != want_ts {
                    acc.violate(i, format!("{prop}|MSO|TextStart|typed-to-wire|{ut:?}"), format!("{label}: wire TextStart {} where the name part encodes to {want_ts} byte(s)", frame[7]), replay);
                    return;
                }
                if frame.len() < 8 + want_msg.len() || frame[8..8 + want_msg.len()] != want_msg[..] {
                    acc.violate(i, format!("{prop}|MSO|Msg|typed-to-wire"), format!("{label}: message bytes {} where the whole message encodes to {}", crate::report::hex(&frame[8..]), crate::report::hex(&want_msg)), replay);
                    return;
                }
                let mut b = BytesMut::from(&frame[..]);
                match crate::report::guard(|| codec.decode(&mut b)) {
                    Ok(Ok(Some(Packet::Mso(q)))) => {
                        if q.msg != msg || q.textstart as usize != prefix.len() || format!("{:?}", q.usertype) != format!("{ut:?}") {
                            acc.violate(i, format!("{prop}|MSO|name-and-text|typed-wire-typed|{ut:?}"), format!("{label}: decodes to {:?} textstart {}", q.msg, q.textstart), replay);
                            return;
                        }
                        match crate::report::guard(|| codec.encode(&Packet::Mso(q))) {
                            Ok(Ok(f2)) if f2 == frame => { acc.class("mso-name-and-text"); acc.nontrivial(); },
                            _ => acc.violate(i, format!("{prop}|MSO|name-and-text|wire-typed-wire"), format!("{label}: the decoded packet re-encodes differently"), replay),
                        }
                    },
                    other => acc.violate(i, format!("{prop}|MSO|name-and-text|decode-failed"), format!("{label}: {}", format!("{other:?}").chars().take(120).collect::<String>()), replay),
                }
            });

}

/// The three packet values that are built through mutators (IS_IPB, IS_MAL, the allowed-cars set of IS_PLC):
/// every sequence of up to 5 operations over {insert a, insert b, insert c, remove a, remove b, clear}
/// against a plain set; after each sequence the packet encodes to the frame of that set and decodes back to it.
/// (Shared by C01 and C02.)
pub fn container_ops_site(prop: &'static str) -> Site {
    const OPS: u64 = 6;
    let mut n = 0u64;
    for l in 0..=5u32 { n += OPS.pow(l); }
    Site::new("container-operations", n * 3 * 2,
        "IS_IPB / IS_MAL / IS_PLC cars x every sequence of <= 5 operations over {insert a, insert b, insert c, remove a, remove b, clear} x mode: the frame and the decoded packet are those of the resulting set",
        move |i, acc| {
            use insim::insim::{Ipb, Mal, Plc};
            use insim::core::vehicle::Vehicle;
            acc.eval();
            let compressed = i % 2 == 0;
            let which = (i / 2) % 3;
            let mut j = i / 6;
            let mut len = 0u32;
            while j >= OPS.pow(len) { j -= OPS.pow(len); len += 1; }
            let ops: Vec<u64> = (0..len).map(|_| { let o = j % OPS; j /= OPS; o }).collect();
            let codec = Codec::new(mode_of(compressed));
            let pname = ["IPB", "MAL", "PLC"][which as usize];
            let replay = json!({"site": "container-operations", "index": i, "packet": pname, "operations": ops});
            let mut model: Vec<u64> = vec![]; // insertion-ordered set of element ids 0..3
            let apply_model = |model: &mut Vec<u64>, o: u64| match o {
                0..=2 => if !model.contains(&o) { model.push(o) },
                3 | 4 => model.retain(|x| *x != o - 3),
                _ => model.clear(),
            };
            let label = format!("{} after {:?}", ["IPB", "MAL", "PLC"][which as usize], ops);
            let (frame, elems_on_wire): (Result<Vec<u8>, String>, Vec<Vec<u8>>) = match which {
                0 => {
                    let ips = [std::net::Ipv4Addr::new(10, 0, 0, 1), std::net::Ipv4Addr::new(192, 168, 7, 9), std::net::Ipv4Addr::new(1, 2, 3, 4)];
                    let mut p = Ipb::default();
                    for o in &ops { match o { 0..=2 => { let _ = p.insert(ips[*o as usize]); }, 3 | 4 => { let _ = p.remove(&ips[(*o - 3) as usize]); }, _ => p.clear() }; apply_model(&mut model, *o); }
                    if p.len() != model.len() { acc.violate(i, format!("{prop}|IPB|container-length"), format!("{label}: len() = {}, the set has {}", p.len(), model.len()), replay); return; }
                    (crate::report::guard(|| codec.encode(&Packet::Ipb(p))).map_err(|e| e).and_then(|r| r.map(|b| b.to_vec()).map_err(|e| e.to_string())), vec![])
                },
                1 => {
                    let ids = [0x0012_3456u32, 0x00ab_cdef, 0x0100_0001];
                    let mut p = Mal::default();
                    for o in &ops { match o { 0..=2 => { let _ = p.insert(Vehicle::Mod(ids[*o as usize])); }, 3 | 4 => { let _ = p.remove(&Vehicle::Mod(ids[(*o - 3) as usize])); }, _ => p.clear() }; apply_model(&mut model, *o); }
                    if p.len() != model.len() { acc.violate(i, format!("{prop}|MAL|container-length"), format!("{label}: len() = {}, the set has {}", p.len(), model.len()), replay); return; }
                    let want: Vec<Vec<u8>> = model.iter().map(|m| ids[*m as usize].to_le_bytes().to_vec()).collect();
                    (crate::report::guard(|| codec.encode(&Packet::Mal(p))).and_then(|r| r.map(|b| b.to_vec()).map_err(|e| e.to_string())), want)
                },
                _ => {
                    let cars = [Vehicle::Xfg, Vehicle::Xrt, Vehicle::Fbm];
                    let mut p = Plc::default();
                    for o in &ops { match o { 0..=2 => { let _ = p.cars.insert(cars[*o as usize].clone()); }, 3 | 4 => { let _ = p.cars.remove(&cars[(*o - 3) as usize]); }, _ => p.cars.clear() }; apply_model(&mut model, *o); }
                    if p.cars.len() != model.len() { acc.violate(i, format!("{prop}|PLC|container-length"), format!("{label}: len() = {}, the set has {}", p.cars.len(), model.len()), replay); return; }
                    (crate::report::guard(|| codec.encode(&Packet::Plc(p))).and_then(|r| r.map(|b| b.to_vec()).map_err(|e| e.to_string())), vec![])
                },
            };
            let frame = match frame {
                Ok(f) => f,
                Err(e) => { acc.violate(i, format!("{prop}|{}|container-encode-failed", ["IPB", "MAL", "PLC"][which as usize]), format!("{label}: {e}"), replay); return; },
            };
            // the frame: IPB / MAL = 8-byte header with the count at offset 3, then 4 bytes per element in insertion order; PLC = 12 bytes, car bits at 8..12
            let ok_frame = match which {
                0 => frame.len() == 8 + 4 * model.len() && frame[3] as usize == model.len(),
                1 => frame.len() == 8 + 4 * model.len() && frame[3] as usize == model.len() && frame[8..].chunks(4).zip(&elems_on_wire).all(|(a, b)| a == &b[..]),
                _ => {
                    // XF GTI = bit 0, XR GT TURBO = bit 3, FORMULA BMW = bit 17 ... taken from a set built by inserts only
                    let mut fresh = insim::insim::Plc::default();
                    let cars = [Vehicle::Xfg, Vehicle::Xrt, Vehicle::Fbm];
                    for m in &model { let _ = fresh.cars.insert(cars[*m as usize].clone()); }
                    let want = codec.encode(&Packet::Plc(fresh)).map(|b| b.to_vec()).unwrap_or_default();
                    frame == want
                },
            };
            if !ok_frame {
                acc.violate(i, format!("{prop}|{}|container-frame", ["IPB", "MAL", "PLC"][which as usize]), format!("{label}: frame {} does not carry exactly the {} element(s) of the set", crate::report::hex(&frame), model.len()), replay);
                return;
            }
            let mut b = BytesMut::from(&frame[..]);
            match crate::report::guard(|| codec.decode(&mut b)) {
                Ok(Ok(Some(q))) => {
                    let n_back = match &q { Packet::Ipb(x) => x.len(), Packet::Mal(x) => x.len(), Packet::Plc(x) => x.cars.len(), _ => usize::MAX };
                    if n_back == model.len() { acc.class("container-operations"); acc.nontrivial(); }
                    else { acc.violate(i, format!("{prop}|{}|container-decodes-differently", ["IPB", "MAL", "PLC"][which as usize]), format!("{label}: decodes to {n_back} element(s)"), replay); }
                },
                other => acc.violate(i, format!("{prop}|{}|container-frame-does-not-decode", ["IPB", "MAL", "PLC"][which as usize]), format!("{label}: frame {}: {}", crate::report::hex(&frame), format!("{other:?}").chars().take(100).collect::<String>()), replay),
            }
        })
}

pub fn run(tier: Tier, replay: Option<String>) -> i32 {
    super::run_e1("C01", tier, "exploration", replay, sites(tier),
        "Gen (per-field whole bounded domains over B0/B1, thorough: all 16-bit domains and all subsets of flag sets <= 12 bits) + decoder-independent typed values for the hand-written pairs + in-width multi-codepage text in every text field, x both modes; distinct = distinct encoder frames (hashed)",
        vec![
            "typed values of the Gen site are obtained by decoding in-domain specification frames; values the decoder can never produce are covered by the typed-handwritten and typed-text sites".into(),
            "equality of typed values = Debug rendering; byte equality of re-encoded frames covers what Debug hides (NaN payloads)".into(),
            "domain restricted by rule: durations multiples of the field resolution, text encodable / NUL-free / caret-free / within width, nibbles <= 15, handicaps within asserted ranges, defined flag bits only".into(),
        ],
        |_, _| {})
}
