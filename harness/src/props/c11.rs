//! C11 - text fields always occupy their exact wire width and terminate correctly.

use std::sync::Arc;

use bytes::BytesMut;
use insim::{core::string::codepages::{to_lossy_bytes, to_lossy_string}, net::{Codec, Mode}};
use serde_json::json;

use crate::{
    gen::baseline,
    report::{guard, h64, hex, Site, Tier},
    spec, textgen, typed,
};

const MUST_TERMINATE: [&str; 4] = ["MST", "MSX", "MSL", "MTC"];

fn first_nul_cut(b: &[u8]) -> &[u8] {
    match b.iter().position(|x| *x == 0) {
        Some(p) => &b[..p],
        None => b,
    }
}

pub fn sites(_tier: Tier) -> Vec<Site> {
    let kinds = Arc::new(spec::load());
    let tfs = typed::text_fields();
    let mut cases: Vec<(usize, String, String)> = vec![];
    for (ti, t) in tfs.iter().enumerate() {
        for (fam, s) in textgen::strings(t.width) {
            if t.raw && !s.is_ascii() {
                continue;
            }
            cases.push((ti, fam, s));
        }
    }
    let tfs = Arc::new(tfs);
    let cases = Arc::new(cases);
    let mut sites = vec![];
    {
        let (tfs, cases, kinds) = (tfs.clone(), cases.clone(), kinds.clone());
        let n = cases.len() as u64 * 2;
        sites.push(Site::new("encode-width", n,
            "every text-bearing field of every kind x string generator S(N): lengths 0..=2N of ASCII, 1-byte-per-char page text, marker-per-char text, double-byte text, mixed text with every cut phase, embedded NUL",
            move |i, acc| {
                let (ti, fam, s) = &cases[(i / 2) as usize];
                let t = &tfs[*ti];
                acc.eval();
                let uncompressed = i % 2 == 1;
                let label = format!("{}.{} = {fam}{}", t.kind, t.field, if uncompressed { " [uncompressed]" } else { "" });
                let replay = json!({"site": "encode-width", "index": i, "case": label});
                let p = (t.make)(s);
                let codec = Codec::new(if uncompressed { Mode::Uncompressed } else { Mode::Compressed });
                let frame = match guard(|| codec.encode(&p)) {
                    Ok(Ok(f)) => f,
                    _ => { acc.class("encoder-refused (C03's business)"); return; },
                };
                let enc: Vec<u8> = if t.raw { s.as_bytes().to_vec() } else { to_lossy_bytes(s).to_vec() };
                let sigbase = format!("C11|{}|{}", t.kind, t.field);
                let mut ok = true;
                if !t.var {
                    let kind = kinds.iter().find(|k| k.name == t.kind).unwrap();
                    let mut want_len = spec::spec_len(kind, &baseline(kind, 0));
                    if t.kind == "HOS" { want_len = 44; }
                    if frame.len() != want_len {
                        ok = false;
                        acc.violate(i, format!("{sigbase}|frame-length"), format!("{label}: frame is {} bytes, the fixed size is {want_len}", frame.len()), replay.clone());
                    } else {
                        let field = &frame[t.offset..t.offset + t.width];
                        let mut want = enc.clone();
                        want.truncate(t.width);
                        want.resize(t.width, 0);
                        // the free-text packets LFS parses as C strings must keep the last byte zero
                        if MUST_TERMINATE.contains(&t.kind) {
                            want[t.width - 1] = 0;
                        }
                        if field != &want[..] {
                            ok = false;
                            let what = if MUST_TERMINATE.contains(&t.kind) && field[t.width - 1] != 0 { "no-terminator" } else { "field-bytes" };
                            acc.violate(i, format!("{sigbase}|{what}"),
                                format!("{label}: field bytes {} where truncate-then-NUL-pad of the encoded text gives {}", hex(field), hex(&want)), replay.clone());
                        }
                    }
                } else {
                    let region = &frame[t.offset.min(frame.len())..];
                    if region.len() % 4 != 0 || region.len() > t.width {
                        ok = false;
                        acc.violate(i, format!("{sigbase}|variable-width"), format!("{label}: text occupies {} bytes (must be a multiple of 4, at most {})", region.len(), t.width), replay.clone());
                    } else {
                        let m = enc.len().min(region.len());
                        let prefix_ok = region[..m] == enc[..m] || (MUST_TERMINATE.contains(&t.kind) && m > 0 && region[..m - 1] == enc[..m - 1] && region[m - 1] == 0);
                        let pad_ok = region[m..].iter().all(|b| *b == 0);
                        let cut_ok = m == enc.len() || region.len() == t.width;
                        let tight = region.len() <= ((enc.len() + 1 + 3) & !3);
                        if !(prefix_ok && pad_ok && cut_ok && tight) {
                            ok = false;
                            acc.violate(i, format!("{sigbase}|variable-content"),
                                format!("{label}: text region {} is not the encoded text {} NUL-padded to a multiple of 4 (prefix {prefix_ok}, padding {pad_ok}, cut only at maximum {cut_ok}, no excess padding {tight})", hex(region), hex(&enc[..enc.len().min(40)])), replay.clone());
                        }
                    }
                }
                if MUST_TERMINATE.contains(&t.kind) {
                    let region_len = frame.len().saturating_sub(t.offset);
                    if frame.last() != Some(&0) || region_len == 0 {
                        ok = false;
                        acc.violate(i, format!("{sigbase}|no-terminator"),
                            format!("{label}: LFS requires the text to end in a NUL byte; the frame ends {} ({} text bytes)", hex(&frame[frame.len().saturating_sub(6)..]), region_len), replay.clone());
                    }
                }
                // decoding returns the text up to the first NUL of what was written
                let mut buf = BytesMut::from(&frame[..]);
                if let Ok(Ok(Some(back))) = guard(|| codec.decode(&mut buf)) {
                    if let Some(got) = (t.get)(&back) {
                        let written = if t.var { &frame[t.offset.min(frame.len())..] } else { &frame[t.offset..(t.offset + t.width).min(frame.len())] };
                        let cut = first_nul_cut(written);
                        let want = if t.raw { String::from_utf8_lossy(cut).to_string() } else { to_lossy_string(cut).to_string() };
                        if got != want {
                            ok = false;
                            acc.violate(i, format!("{sigbase}|decode-not-cut-at-first-nul"),
                                format!("{label}: decoded text {got:?}, the field bytes up to the first NUL give {want:?}"), replay.clone());
                        }
                    }
                }
                acc.class(if ok { "exact" } else { "violates" });
                if ok { acc.key(h64(&frame)); }
            }));
    }
    {
        // decode side directly: bytes after the first NUL are ignored
        let tfs2 = tfs.clone();
        let kinds = kinds.clone();
        let fills: Vec<(&'static str, Vec<u8>)> = vec![
            ("ab NUL cd", b"ab\0cd".to_vec()),
            ("NUL first", b"\0xyz".to_vec()),
            ("a NUL NUL b", b"a\0\0b".to_vec()),
            ("abc NUL", b"abc\0".to_vec()),
            ("NUL ab NUL cd NUL", b"\0ab\0cd\0".to_vec()),
            ("full no NUL", vec![]),
            // the byte in front of the NUL is half of something: a double-byte character cut after its lead
            // byte, a lone caret, a marker without text, a high single byte
            ("^J lead NUL xy", vec![b'^', b'J', 0x94, 0, b'x', b'y']),
            ("^J char lead NUL x", vec![b'^', b'J', 0x94, 0xfc, 0x94, 0, b'x']),
            ("^J char NUL xy", vec![b'^', b'J', 0x94, 0xfc, 0, b'x', b'y']),
            ("^H lead NUL xy", vec![b'^', b'H', 0xa1, 0, b'x', b'y']),
            ("^S lead NUL xy", vec![b'^', b'S', 0x81, 0, b'x', b'y']),
            ("^K lead NUL xy", vec![b'^', b'K', 0x94, 0, b'x', b'y']),
            ("lead NUL xy", vec![0x83, 0, b'x', b'y']),
            ("caret NUL xy", vec![b'a', b'^', 0, b'x', b'y']),
            ("^J NUL xy", vec![b'^', b'J', 0, b'x', b'y']),
            ("e9 NUL xy", vec![0xe9, 0, b'x', b'y']),
            ("^E e9 NUL ^L", vec![b'^', b'E', 0xe9, 0, b'^', b'L', 0xe9]),
        ];
        let n = tfs.len() as u64 * fills.len() as u64 * 2;
        sites.push(Site::new("decode-first-nul", n,
            "every text-bearing field x hand-built field contents {text NUL text, NUL first, double NUL, exactly full without NUL, and 11 contents whose last byte before the NUL is half of something: a cut double-byte character in each double-byte page, a lone caret, a bare marker, a high byte}",
            move |i, acc| {
                // (around the field: the all-default frame and the frame with every other field off its default)
                let which_base = (i % 2) as u8;
                let i = i / 2;
                let t = &tfs2[(i / fills.len() as u64) as usize];
                let (fname, fill) = &fills[(i % fills.len() as u64) as usize];
                acc.eval();
                let kind = kinds.iter().find(|k| k.name == t.kind).unwrap();
                // start from the reference B0 frame (one element for HOS)
                let mut vals = baseline(kind, which_base);
                if t.kind == "HOS" {
                    let li = kind.fields.iter().position(|f| matches!(f.ty, spec::Ty::List { .. })).unwrap();
                    if let spec::Ty::List { elem, .. } = &kind.fields[li].ty {
                        let mut e: Vec<spec::Val> = elem.iter().map(spec::b0).collect();
                        e[0] = spec::Val::S(String::new());
                        vals[li] = spec::Val::L(vec![e]);
                    }
                }
                let width = if t.var { 8 } else { t.width };
                if t.var {
                    let fi = kind.fields.iter().position(|f| f.name == t.field).unwrap();
                    vals[fi] = spec::Val::S("1234567".into());
                }
                let Some(mut frame) = spec::ref_encode(kind, &vals, true) else { return };
                let content: Vec<u8> = if fill.is_empty() { vec![b'z'; width] } else { let mut c = fill.clone(); c.resize(width, if *fname == "ab NUL cd" { b'q' } else { 0 }); c };
                if t.offset + width > frame.len() { return; }
                frame[t.offset..t.offset + width].copy_from_slice(&content);
                let codec = Codec::new(Mode::Compressed);
                let mut buf = BytesMut::from(&frame[..]);
                let label = format!("{}.{} <- {fname}", t.kind, t.field);
                let replay = json!({"site": "decode-first-nul", "index": i, "case": label, "frame": hex(&frame[..frame.len().min(64)])});
                match guard(|| codec.decode(&mut buf)) {
                    Ok(Ok(Some(p))) => {
                        let got = (t.get)(&p).unwrap_or_default();
                        let cut = first_nul_cut(&content);
                        // (what the bytes in front of the NUL mean is the decoder's business - C10; here: nothing behind it counts)
                        let want = if t.raw { String::from_utf8_lossy(cut).to_string() } else { to_lossy_string(cut).to_string() };
                        if got == want {
                            acc.class("cut-at-first-nul");
                            acc.nontrivial();
                        } else {
                            acc.class("violates");
                            acc.violate(i, format!("C11|{}|{}|decode-not-cut-at-first-nul", t.kind, t.field),
                                format!("{label}: decoded {got:?}, expected {want:?}"), replay);
                        }
                    },
                    other => {
                        acc.class("frame-not-decoded");
                        acc.violate(i, format!("C11|{}|{}|valid-text-frame-rejected", t.kind, t.field),
                            format!("{label}: {}", match other { Ok(Err(e)) => e.to_string().chars().take(80).collect::<String>(), Err(p) => p, _ => "need more".into() }), replay);
                    },
                }
            }));
    }
    {
        // the SMX track name is a 32-byte fixed field at file offset 16
        let strs: Vec<(String, String)> = textgen::strings(32);
        let strs = Arc::new(strs);
        sites.push(Site::new("smx-track", strs.len() as u64,
            "insim_smx::Smx track name (32 bytes at file offset 16) x S(32)",
            move |i, acc| {
                use insim::core::binrw::BinWrite;
                let (fam, s) = &strs[i as usize];
                acc.eval();
                let smx = insim::smx::Smx { track: s.clone(), ..Default::default() };
                let mut c = std::io::Cursor::new(Vec::new());
                let replay = json!({"site": "smx-track", "index": i, "string": fam});
                match guard(|| smx.write(&mut c)) {
                    Ok(Ok(())) => {
                        let b = c.into_inner();
                        let mut want = to_lossy_bytes(s).to_vec();
                        want.truncate(32);
                        want.resize(32, 0);
                        if b.len() != 68 || b[16..48] != want[..] {
                            acc.violate(i, "C11|SMX|Track|field-bytes".into(), format!("track = {fam}: file is {} bytes, field {}", b.len(), hex(&b[16.min(b.len())..48.min(b.len())])), replay);
                        } else { acc.class("exact"); acc.nontrivial(); }
                    },
                    other => acc.violate(i, "C11|SMX|Track|write-failed".into(), format!("track = {fam}: {other:?}"), replay),
                }
            }));
    }
    // the one text field that is written from a typed value rather than a string: the 8-byte game version of IS_VER
    {
        let majors: Vec<f32> = vec![0.0, 7.0, 0.7, 0.12, 0.123, 0.1234, 0.12345, 0.123456, 1.234567, 12.5, 65536.0, 1.0e10, 1.0e-7];
        let minors: Vec<char> = vec!['F', 'z', '\u{e9}', '\u{65e5}', '\u{1f600}', '\u{10ffff}'];
        let patches: Vec<Option<usize>> = vec![None, Some(0), Some(5), Some(12345), Some(usize::MAX)];
        let n = (majors.len() * minors.len() * patches.len() * 2) as u64;
        sites.push(Site::new("ver-version-field", n,
            "IS_VER built from a typed game version: 13 numbers (1 to 11 characters when printed) x 6 letters (ASCII, 2-, 3- and 4-byte characters) x 5 revisions x mode: the frame is 20 bytes, the version field is the first 8 bytes of the printed version NUL-padded, product and InSim version sit at their offsets",
            move |i, acc| {
                use insim::core::game_version::GameVersion;
                acc.eval();
                let compressed = i % 2 == 0;
                let mut j = (i / 2) as usize;
                let patch = patches[j % patches.len()]; j /= patches.len();
                let minor = minors[j % minors.len()]; j /= minors.len();
                let major = majors[j % majors.len()];
                let v = GameVersion { major, minor, patch };
                let printed = v.to_string();
                let p = insim::Packet::Ver(insim::insim::Ver { reqi: insim::identifiers::RequestId(1), version: v, product: "S3".into(), insimver: 9 });
                let replay = json!({"site": "ver-version-field", "index": i, "version": printed});
                let codec = insim::net::Codec::new(if compressed { insim::net::Mode::Compressed } else { insim::net::Mode::Uncompressed });
                match crate::report::guard(|| codec.encode(&p).map(|b| b.to_vec())) {
                    Err(pn) => acc.violate(i, "C11|VER|Version|encode-panics".into(), format!("version {printed:?}: {pn}"), replay),
                    Ok(Err(e)) => acc.violate(i, "C11|VER|Version|encode-refused".into(), format!("version {printed:?}: {e}"), replay),
                    Ok(Ok(f)) => {
                        let mut want = printed.as_bytes().to_vec();
                        want.truncate(8);
                        want.resize(8, 0);
                        if f.len() == 20 && f[4..12] == want[..] && &f[12..14] == b"S3" && f[18] == 9 { acc.class("ver-field-exact"); acc.nontrivial(); }
                        else { acc.violate(i, "C11|VER|Version|fixed-width".into(), format!("version {printed:?}: frame {} ({} bytes) where the version field is 8 bytes at offset 4 and the frame 20 bytes", crate::report::hex(&f), f.len()), replay); }
                    },
                }
            }));
    }
    // text fields are filled from the text given, not from what an earlier, failed write left behind
    sites.push(super::c03::after_writer_failure_site("C11"));
    sites
}

pub fn run(tier: Tier, replay: Option<String>) -> i32 {
    super::run_e1("C11", tier, "exploration", replay, sites(tier),
        "every text-bearing field (30 fields of 21 kinds) x S(N) string generator (lengths 0..=2N, families whose encoded length differs from the character count) located by the specification offsets; distinct = distinct frames that satisfy the oracle (hashed)",
        vec![
            "expected content = the implementation's own code-page encoding of the string (C10 judges the encoding), truncated to the width and NUL-padded".into(),
            "MST/MSX/MSL/MTC must end in a NUL byte for every string; other variable fields may or may not carry an extra terminator block".into(),
            "the SMX track name (insim_smx) has its own site".into(),
        ],
        |_, _| {})
}
