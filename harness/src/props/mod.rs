use crate::report::{self, Tier};

pub mod c01;
pub mod c02;
pub mod c03;
pub mod c04;
pub mod c08;
pub mod c10;
pub mod c11;
pub mod c12;
pub mod c13;
pub mod c14;
pub mod c15;
pub mod c16;
pub mod c17;
pub mod c18;
pub mod c20;
pub mod e2props;
pub mod longsession;

pub fn replay_value(path: &str) -> serde_json::Value {
    let s = std::fs::read_to_string(path).unwrap_or_else(|e| {
        eprintln!("MACHINERY: cannot read replay file {path}: {e}");
        std::process::exit(3);
    });
    serde_json::from_str(&s).unwrap_or_else(|e| {
        eprintln!("MACHINERY: replay file does not parse: {e}");
        std::process::exit(3);
    })
}

/// Shared driver for E1 properties made of sites.
pub fn run_e1(
    property: &str,
    tier: Tier,
    level: &'static str,
    replay: Option<String>,
    sites: Vec<report::Site>,
    rule: &str,
    assumptions: Vec<String>,
    extra_fn: impl FnOnce(&report::Acc, &mut serde_json::Map<String, serde_json::Value>),
) -> i32 {
    if let Some(path) = replay {
        let v = replay_value(&path);
        let site = v.get("site").and_then(|x| x.as_str()).unwrap_or("");
        let index = v.get("index").and_then(|x| x.as_u64()).unwrap_or(0);
        return report::replay_site_case(&sites, site, index);
    }
    let started = std::time::Instant::now();
    report::start_hang_watchdog(property, tier, level, 90);
    let (acc, per_site) = report::run_sites(&sites);
    let mut extra = serde_json::Map::new();
    let _ = extra.insert("sites".into(), serde_json::Value::Array(per_site));
    extra_fn(&acc, &mut extra);
    report::finish(report::Outcome {
        property: property.to_string(),
        tier,
        level,
        acc,
        rule: rule.to_string(),
        exhaustive: true,
        extra,
        assumptions,
        started,
    })
}

pub fn dispatch(prop: &str, tier: Tier, replay: Option<String>) -> i32 {
    match prop {
        "C01" => c01::run(tier, replay),
        "C02" => c02::run(tier, replay),
        "C03" => c03::run(tier, replay),
        "C04" => c04::run(tier, replay),
        "C05" => e2props::c05(tier, replay),
        "C06" => e2props::c06(tier, replay),
        "C07" => e2props::c07(tier, replay),
        "C08" => c08::run_check(tier, replay),
        "C09" => e2props::c09(tier, replay),
        "C18" => c18::run(tier, replay),
        "C19" => e2props::c19(tier, replay),
        "C20" => c20::run(tier, replay),
        "C10" => c10::run(tier, replay),
        "C11" => c11::run(tier, replay),
        "C12" => c12::run(tier, replay),
        "C13" => c13::run(tier, replay),
        "C14" => c14::run(tier, replay),
        "C15" => c15::run(tier, replay),
        "C16" => c16::run(tier, replay),
        "C17" => c17::run(tier, replay),
        _ => {
            eprintln!("unknown property {prop}");
            2
        },
    }
}

/// Child-process entry points (sweeps that may abort the process).
pub fn child(prop: &str, tier: Tier, which: &str, rest: &[String]) -> i32 {
    match (prop, which) {
        ("C17", "hostile") => c17::child_hostile(),
        ("C17", "sites") => c17::run_sites_in_this_process(tier, None),
        ("C17", "one") => c17::child_one(tier, rest),
        ("C16", "deep") => c16::child_deep(tier, rest),
        _ => 2,
    }
}
