//! C02 - wire layout conforms to the InSim v9 / relay specification.
//! Model = spec/insim_v9.spec (independent transcription) + table-driven reference encoder.
//! Conformance = every enumerated specification value is replayed through the implementation in
//! both directions (bytes -> typed, typed -> bytes); nothing is sampled.

use std::sync::Arc;

use bytes::BytesMut;
use insim::net::{Codec, Mode};
use serde_json::json;

use crate::{
    gen::Gen,
    report::{guard, h64, hex, Acc, Site, Tier},
    spec::{self, Depth, Kind, Val},
};

pub fn mode_of(compressed: bool) -> Mode {
    if compressed {
        Mode::Compressed
    } else {
        Mode::Uncompressed
    }
}

/// Which top-level field owns frame offset `off`.
pub fn field_at(kind: &Kind, vals: &[Val], off: usize) -> String {
    if off == 0 {
        return "Size".into();
    }
    if off == 1 {
        return "Type".into();
    }
    for (fi, start, len) in spec::layout(kind, vals) {
        if off >= start && off < start + len {
            return kind.fields[fi].name.clone();
        }
    }
    "beyond-frame".into()
}

pub fn check_case(gen: &Gen, i: u64, acc: &mut Acc, site: &str) {
    let (ki, vals, what) = gen.case(i);
    check_vals(&gen.kinds[ki], &vals, &what, i, acc, site);
}

/// Every ordering of a list: n elements that differ in every field (numbers j+1 in element j, so that every numeric
/// field over the list is a permutation of 1..=n), in every one of the n! orders, n = 2, 3, 4.
pub fn list_order_cases() -> Vec<(usize, Vec<Val>, String)> {
    fn perms(n: usize) -> Vec<Vec<usize>> {
        if n == 1 { return vec![vec![0]]; }
        let mut out = vec![];
        for p in perms(n - 1) { for pos in 0..n { let mut q = p.clone(); q.insert(pos, n - 1); out.push(q); } }
        out
    }
    let kinds = spec::load();
    let mut out = vec![];
    for (ki, k) in kinds.iter().enumerate() {
        for (lf, f) in k.fields.iter().enumerate() {
            let (elem, max) = match &f.ty { spec::Ty::List { elem, max, .. } => (elem, *max), _ => continue };
            for n in 2..=4usize {
                if n > max { continue; }
                let elems: Vec<Vec<Val>> = (0..n).map(|j| elem.iter().enumerate().map(|(fi, ef)| match &ef.ty {
                    spec::Ty::U8 | spec::Ty::U16 | spec::Ty::I16 | spec::Ty::U32 | spec::Ty::I32 | spec::Ty::Ms16 | spec::Ty::Cs16 | spec::Ty::Ms32 | spec::Ty::Cs32 => Val::N(j as i64 + 1),
                    _ => spec::b1(ef, j * 3 + fi),
                }).collect()).collect();
                for p in perms(n) {
                    let mut vals = crate::gen::baseline(k, 1);
                    vals[lf] = Val::L(p.iter().map(|j| elems[*j].clone()).collect());
                    out.push((ki, vals, format!("{} {} in the order {:?}", k.name, f.name, p.iter().map(|j| j + 1).collect::<Vec<_>>())));
                }
            }
        }
    }
    out
}

pub fn check_vals(kind: &Kind, vals: &[Val], what: &str, i: u64, acc: &mut Acc, site: &str) {
    let vals = vals.to_vec();
    let what = what.to_string();
    for compressed in [true, false] {
        acc.eval();
        let m = if compressed { "compressed" } else { "uncompressed" };
        let Some(frame) = spec::ref_encode(kind, &vals, compressed) else {
            acc.class("frame-not-representable-in-mode");
            continue;
        };
        acc.key(h64(&frame) ^ (compressed as u64));
        let replay = json!({"site": site, "index": i, "case": what, "mode": m, "spec_frame": hex(&frame)});
        let codec = Codec::new(mode_of(compressed));
        let mut buf = BytesMut::from(&frame[..]);
        let decoded = guard(|| codec.decode(&mut buf));
        let packet = match decoded {
            Ok(Ok(Some(p))) if buf.is_empty() => p,
            Ok(Ok(Some(_))) => {
                acc.class("decode-left-bytes");
                acc.violate(i, format!("C02|{}|decode-leaves-bytes", kind.name),
                    format!("{what} [{m}]: decoding the specification frame {} left {} byte(s)", hex(&frame), buf.len()), replay);
                continue;
            },
            Ok(Ok(None)) => {
                acc.class("decode-wants-more");
                acc.violate(i, format!("C02|{}|decode-wants-more", kind.name),
                    format!("{what} [{m}]: decoder asks for more data on the complete specification frame {}", hex(&frame)), replay);
                continue;
            },
            Ok(Err(e)) => {
                acc.class("decode-error");
                let es: String = e.to_string().chars().take(100).collect();
                acc.violate(i, format!("C02|{}|decode-rejects-spec-frame", kind.name),
                    format!("{what} [{m}]: specification frame {} rejected: {es}", hex(&frame)), replay);
                continue;
            },
            Err(p) => {
                acc.class("decode-panic");
                acc.violate(i, format!("C02|{}|decode-panics", kind.name),
                    format!("{what} [{m}]: decoding the specification frame {} panicked: {p}", hex(&frame)), replay);
                continue;
            },
        };
        let root = serde_json::to_value(&packet).expect("serde rendering");
        let mut ok = true;
        // the same frame with more traffic already behind it in the receive buffer: the fields it carries are its own
        {
            let mut both = BytesMut::from(&frame[..]);
            both.extend_from_slice(if compressed { &[1u8, 3, 2, 3, 2, 4, 1, 0, 0, 0, 0, 0] } else { &[4u8, 3, 2, 3, 8, 4, 1, 0, 0, 0, 0, 0] });
            match guard(|| codec.decode(&mut both)) {
                Ok(Ok(Some(p2))) if both.len() == 12 && format!("{p2:?}") == format!("{packet:?}") => {},
                other => {
                    ok = false;
                    acc.violate(i, format!("C02|{}|decode-depends-on-what-follows", kind.name),
                        format!("{what} [{m}]: with a TINY and a SMALL behind it in the buffer, specification frame {} decodes to {} leaving {} byte(s); on its own: {}", hex(&frame),
                            match &other { Ok(Ok(Some(p2))) => format!("{p2:?}").chars().take(120).collect::<String>(), Ok(Ok(None)) => "need more".into(), Ok(Err(e)) => e.to_string().chars().take(80).collect(), Err(p) => p.clone() }, both.len(), format!("{packet:?}").chars().take(120).collect::<String>()), replay.clone());
                },
            }
        }
        if root.get("type").and_then(|t| t.as_str()) != Some(kind.tag.as_str()) {
            ok = false;
            acc.violate(i, format!("C02|{}|Type|decode", kind.name),
                format!("{what} [{m}]: type number {} decoded as {}", kind.ty, root.get("type").unwrap_or(&json!(null))), replay.clone());
        }
        for (f, v) in kind.fields.iter().zip(&vals) {
            if let Err(e) = spec::check_field(f, v, &root) {
                if e.starts_with("typed packet has no field") {
                    // the public struct changed shape (renamed / removed field): the binding table of
                    // the harness has to follow; this is not a statement about the wire layout
                    eprintln!("MACHINERY: {} {}: {e}", kind.name, f.name);
                    std::process::exit(3);
                }
                ok = false;
                acc.violate(i, format!("C02|{}|{}|decode", kind.name, f.name),
                    format!("{what} [{m}]: field {} of specification frame {}: {e}", f.name, hex(&frame)), replay.clone());
            }
        }
        if let Some(bits) = small_flag_bits(&packet) {
            let uval_i = kind.fields.iter().position(|f| f.name == "UVal").unwrap();
            if let Val::N(want) = vals[uval_i] {
                if bits as i64 != want {
                    ok = false;
                    acc.violate(i, format!("C02|{}|UVal|decode", kind.name),
                        format!("{what} [{m}]: UVal {want:#x} of specification frame {} decoded to switches {bits:#x}", hex(&frame)), replay.clone());
                }
            }
        }
        // typed -> bytes
        match guard(|| codec.encode(&packet)) {
            Ok(Ok(bytes)) => {
                let lenient = spec::ref_encode_opt(kind, &vals, compressed, true);
                if bytes[..] != frame[..] && lenient.as_deref() != Some(&bytes[..]) {
                    ok = false;
                    let off = bytes.iter().zip(frame.iter()).position(|(a, b)| a != b).unwrap_or(bytes.len().min(frame.len()));
                    let fname = field_at(kind, &vals, off);
                    acc.violate(i, format!("C02|{}|{}|encode", kind.name, fname),
                        format!("{what} [{m}]: encoder produced {} where the specification image is {} (first difference at offset {off}, field {fname})", hex(&bytes), hex(&frame)), replay.clone());
                }
            },
            Ok(Err(e)) => {
                ok = false;
                let es: String = e.to_string().chars().take(100).collect();
                acc.violate(i, format!("C02|{}|encode-refuses", kind.name),
                    format!("{what} [{m}]: the packet decoded from specification frame {} cannot be encoded: {es}", hex(&frame)), replay.clone());
            },
            Err(p) => {
                ok = false;
                acc.violate(i, format!("C02|{}|encode-panics", kind.name),
                    format!("{what} [{m}]: encoding the packet decoded from specification frame {} panicked: {p}", hex(&frame)), replay.clone());
            },
        }
        acc.class(if ok { "conforms" } else { "deviates" });
        if i % 9973 == 0 {
            acc.sample(|| json!({"case": what, "mode": m, "spec_frame": hex(&frame), "typed": root}));
        }
    }
}

fn small_flag_bits(p: &insim::Packet) -> Option<u32> {
    use insim::insim::SmallType;
    match p {
        insim::Packet::Small(s) => match &s.subt {
            SmallType::Lcs(f) => Some(f.bits()),
            SmallType::Lcl(f) => Some(f.bits()),
            _ => None,
        },
        _ => None,
    }
}

/// Typed leaves that no specification field binds: a gap in the harness table, not a verdict.
fn completeness(gen: &Gen) -> Vec<String> {
    fn leaves(v: &serde_json::Value, prefix: String, out: &mut Vec<String>) {
        match v {
            serde_json::Value::Object(m) => {
                for (k, x) in m {
                    let p = if prefix.is_empty() { k.clone() } else { format!("{prefix}.{k}") };
                    leaves(x, p, out);
                }
            },
            _ => out.push(prefix),
        }
    }
    let mut gaps = vec![];
    for k in &gen.kinds {
        let vals = crate::gen::baseline(k, 1);
        let Some(frame) = spec::ref_encode(k, &vals, true) else { continue };
        let codec = Codec::new(Mode::Compressed);
        let mut buf = BytesMut::from(&frame[..]);
        let Ok(Ok(Some(p))) = guard(|| codec.decode(&mut buf)) else { continue };
        let root = serde_json::to_value(&p).unwrap();
        let mut bound = vec!["type".to_string()];
        spec::bound_paths(&k.fields, "", &mut bound);
        let mut ls = vec![];
        leaves(&root, String::new(), &mut ls);
        for l in ls {
            let covered = bound.iter().any(|b| {
                l == *b || l.starts_with(&format!("{b}.")) || b.starts_with(&format!("{l}."))
            });
            if !covered {
                gaps.push(format!("{}:{}", k.name, l));
            }
        }
    }
    gaps
}

pub fn run(tier: Tier, replay: Option<String>) -> i32 {
    let depth = if tier == Tier::Thorough { Depth::Full } else { Depth::Light };
    let gen = Arc::new(Gen::new(depth));
    let n73 = spec::distinct_types(&gen.kinds);
    if n73 != 73 {
        eprintln!("MACHINERY: specification table has {n73} packet types, expected 73");
        return 3;
    }
    let gaps = completeness(&gen);
    let g2 = gen.clone();
    let sites = vec![Site::new(
        "spec-conformance",
        gen.total,
        "every (kind, baseline B0|B1, field, value of the field's specification domain) x {compressed, uncompressed}",
        move |i, acc| check_case(&g2, i, acc, "spec-conformance"),
    ), super::c01::mso_name_text_site("C02"), super::c01::container_ops_site("C02"), super::c03::after_refusal_spec_site("C02"), {
        let cases = Arc::new(list_order_cases());
        let kinds = Arc::new(spec::load());
        Site::new("list-orders", cases.len() as u64,
            "every counted list kind x n = 2, 3, 4 elements that differ in every field (every numeric field over the list a permutation of 1..=n) x every one of the n! orders: the elements are carried in wire order",
            move |i, acc| { let (ki, vals, what) = &cases[i as usize]; check_vals(&kinds[*ki], vals, what, i, acc, "list-orders"); })
    }];
    let total = gen.total;
    super::run_e1(
        "C02",
        tier,
        "model_checking",
        replay,
        sites,
        "cases = Gen over spec/insim_v9.spec; distinct = distinct reference frames (hashed); every case is replayed through Codec::decode and Codec::encode and compared field by field / byte by byte with the reference model",
        vec![
            "spec/insim_v9.spec is a faithful transcription of InSim.txt v9 / InSim-Relay (DESIGN.md Appendix A); fields marked uncertain are not judged (IP octet order)".into(),
            "typed field values are observed through the serde rendering of insim::Packet".into(),
            "text in this check is ASCII (code pages are C10's business)".into(),
        ],
        move |acc, extra| {
            let _ = extra.insert("states".into(), json!(total));
            let _ = extra.insert("transitions".into(), json!(acc.evals));
            let _ = extra.insert("traces_validated_against_impl".into(), json!(acc.evals));
            let _ = extra.insert("model".into(), json!("spec/insim_v9.spec + harness/src/spec.rs::ref_encode"));
            let _ = extra.insert("typed_fields_without_spec_binding".into(), json!(gaps));
        },
    )
}
