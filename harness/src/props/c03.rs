//! C03 - every successfully encoded frame is exactly one well-formed frame; unrepresentable
//! packets are refused loudly; packets that came out of the decoder never abort the encoder.

use std::sync::Arc;

use bytes::BytesMut;
use insim::{net::Codec, Packet};
use serde_json::json;

use super::{c02::mode_of, c04::{SENTINEL_C, SENTINEL_U}};
use crate::{
    gen::Gen,
    report::{guard, h64, hex, Acc, Site, Tier},
    spec::{self, Depth},
    textgen, typed,
};

fn limit(compressed: bool) -> usize {
    if compressed { 1020 } else { 255 }
}

fn short(b: &[u8]) -> String {
    if b.len() <= 40 { hex(b) } else { format!("{} .. ({} bytes)", hex(&b[..40]), b.len()) }
}

/// Well-formedness of an encoder output. Returns (signature suffix, detail) problems.
pub fn wellformed(compressed: bool, bytes: &[u8], want_variant: &str, count: Option<(usize, usize, usize, usize)>) -> Vec<(String, String)> {
    let mut out = vec![];
    let len = bytes.len();
    if len % 4 != 0 {
        out.push(("length-not-multiple-of-4".into(), format!("frame of {len} bytes: {}", short(bytes))));
    }
    if len < 4 || len > limit(compressed) {
        out.push(("length-out-of-range".into(), format!("frame of {len} bytes emitted (limit {})", limit(compressed))));
    }
    if len == 0 {
        return out;
    }
    let want_size = if compressed { len / 4 } else { len };
    if bytes[0] as usize != want_size || (compressed && len % 4 != 0) {
        out.push(("size-byte-wrong".into(), format!("size byte {} on a frame of {len} bytes", bytes[0])));
    }
    if let Some((at, header, elem, n)) = count {
        if bytes.len() > at {
            let follows = (len.saturating_sub(header)) / elem;
            if bytes[at] as usize != n || follows != n {
                out.push(("count-byte-wrong".into(), format!("count byte {} for {n} elements ({follows} element slots follow) in a frame of {len} bytes", bytes[at])));
            }
        }
    }
    if !out.is_empty() {
        return out;
    }
    let codec = Codec::new(mode_of(compressed));
    let mut buf = BytesMut::from(bytes);
    buf.extend_from_slice(if compressed { &SENTINEL_C } else { &SENTINEL_U });
    match guard(|| codec.decode(&mut buf)) {
        Ok(Ok(Some(p))) => {
            let got = typed::variant_name(&p);
            if got != want_variant {
                out.push(("decodes-as-other-kind".into(), format!("frame {} decodes as {got}, encoded from {want_variant}", short(bytes))));
            }
            let sent: &[u8] = if compressed { &SENTINEL_C } else { &SENTINEL_U };
            if buf[..] != *sent {
                out.push(("not-consumed-exactly".into(), format!("decoding {} left {} byte(s) instead of the 4-byte successor", short(bytes), buf.len())));
            }
        },
        Ok(Ok(None)) => out.push(("own-frame-incomplete".into(), format!("decoder asks for more data on the encoder's own frame {}", short(bytes)))),
        Ok(Err(e)) => out.push(("own-frame-rejected".into(), format!("decoder rejects the encoder's own frame {}: {}", short(bytes), e.to_string().chars().take(80).collect::<String>()))),
        Err(p) => out.push(("own-frame-panics-decoder".into(), format!("decoding the encoder's own frame {} panicked: {p}", short(bytes)))),
    }
    out
}

fn record(acc: &mut Acc, order: u64, kind: &str, problems: Vec<(String, String)>, ctx: &str, replay: &serde_json::Value) {
    for (sig, detail) in problems {
        acc.violate(order, format!("C03|{kind}|{sig}"), format!("{ctx}: {detail}"), replay.clone());
    }
}

pub fn sites(tier: Tier) -> Vec<Site> {
    let depth = if tier == Tier::Thorough { Depth::Full } else { Depth::Light };
    let gen = Arc::new(Gen::new(depth));
    let mut sites = vec![];

    // (a) packets obtained by decoding specification frames
    {
        let g = gen.clone();
        sites.push(Site::new("decoded-spec-frames", gen.total,
            "every Gen case x mode: decode the specification frame, re-encode the packet",
            move |i, acc| {
                let (ki, vals, what) = g.case(i);
                let kind = &g.kinds[ki];
                for compressed in [true, false] {
                    let Some(frame) = spec::ref_encode(kind, &vals, compressed) else { continue };
                    let codec = Codec::new(mode_of(compressed));
                    let mut buf = BytesMut::from(&frame[..]);
                    let Ok(Ok(Some(p))) = guard(|| codec.decode(&mut buf)) else { acc.eval(); acc.class("spec-frame-not-decoded"); continue };
                    acc.eval();
                    let m = if compressed { "compressed" } else { "uncompressed" };
                    let replay = json!({"site": "decoded-spec-frames", "index": i, "case": what, "mode": m, "frame": hex(&frame)});
                    match guard(|| codec.encode(&p)) {
                        Err(msg) => {
                            acc.class("encode-panic");
                            acc.violate(i, format!("C03|{}|encode-panics-on-decoded-packet", kind.name),
                                format!("{what} [{m}]: the packet decoded from {} makes the encoder panic: {msg}", short(&frame)), replay);
                        },
                        Ok(Err(_)) => acc.class("encode-refused"),
                        Ok(Ok(bytes)) => {
                            acc.class("encoded");
                            acc.key(h64(&bytes) ^ compressed as u64);
                            let pr = wellformed(compressed, &bytes, &typed::variant_name(&p), None);
                            record(acc, i, &kind.name, pr, &format!("{what} [{m}]"), &replay);
                        },
                    }
                }
            }));
    }

    // (b) element counts 0..=255 for every counted kind
    {
        let cs = Arc::new(typed::counted());
        let n = cs.len() as u64 * 256 * 2;
        sites.push(Site::new("counts", n,
            "every counted kind (NLP MCI AXM PLH MAL IPB HOS) x element count 0..=255 x mode",
            move |i, acc| {
                let compressed = i % 2 == 0;
                let j = i / 2;
                let c = &cs[(j / 256) as usize];
                let n = (j % 256) as usize;
                let m = if compressed { "compressed" } else { "uncompressed" };
                acc.eval();
                let replay = json!({"site": "counts", "index": i, "kind": c.kind, "count": n, "mode": m});
                // specification length
                let mut l = c.header + c.elem * n;
                if c.kind == "NLP" && n % 2 == 1 { l += 2; }
                let built = guard(|| (c.make)(n));
                let p = match built {
                    Ok(Some(p)) => p,
                    Ok(None) => { acc.class("typed-api-refuses"); return; },
                    Err(_) => { acc.class("typed-api-panics"); return; },
                };
                let codec = Codec::new(mode_of(compressed));
                let legal = l % 4 == 0 && l <= limit(compressed);
                match guard(|| codec.encode(&p)) {
                    Err(msg) => {
                        acc.class("refused-by-panic");
                        if legal && n <= c.max {
                            acc.violate(i, format!("C03|{}|legal-packet-refused", c.kind),
                                format!("{} with {n} element(s) [{m}] is a legal {l}-byte packet but the encoder panicked: {msg}", c.kind), replay);
                        }
                    },
                    Ok(Err(e)) => {
                        acc.class("refused-by-error");
                        if legal && n <= c.max {
                            acc.violate(i, format!("C03|{}|legal-packet-refused", c.kind),
                                format!("{} with {n} element(s) [{m}] is a legal {l}-byte packet but the encoder refused: {}", c.kind, e.to_string().chars().take(80).collect::<String>()), replay);
                        }
                    },
                    Ok(Ok(bytes)) => {
                        acc.class("encoded");
                        acc.nontrivial();
                        if !legal {
                            acc.violate(i, format!("C03|{}|oversize-packet-emitted", c.kind),
                                format!("{} with {n} element(s) needs {l} bytes (limit {} in {m} mode) but the encoder emitted a {}-byte frame with size byte {}", c.kind, limit(compressed), bytes.len(), bytes[0]), replay.clone());
                        }
                        let pr = wellformed(compressed, &bytes, &typed::variant_name(&p), Some((c.count_at, c.header, c.elem, n)));
                        record(acc, i, c.kind, pr, &format!("{} x{n} [{m}]", c.kind), &replay);
                        if legal && bytes.len() != l {
                            acc.violate(i, format!("C03|{}|length-differs-from-specification", c.kind),
                                format!("{} with {n} element(s) [{m}] must be {l} bytes, encoder produced {}", c.kind, bytes.len()), replay);
                        }
                    },
                }
            }));
    }

    // (c) texts of every length 0..=2N in every text field
    {
        let tfs = typed::text_fields();
        let mut cases: Vec<(usize, String, String)> = vec![];
        for (ti, t) in tfs.iter().enumerate() {
            for (fam, s) in textgen::strings(t.width) {
                cases.push((ti, fam, s));
            }
        }
        let tfs = Arc::new(tfs);
        let cases = Arc::new(cases);
        let n = cases.len() as u64 * 2;
        sites.push(Site::new("texts", n,
            "every text-bearing field x string generator S(N) (lengths 0..=2N, 6 families) x mode",
            move |i, acc| {
                let compressed = i % 2 == 0;
                let (ti, fam, s) = &cases[(i / 2) as usize];
                let t = &tfs[*ti];
                let m = if compressed { "compressed" } else { "uncompressed" };
                acc.eval();
                let replay = json!({"site": "texts", "index": i, "kind": t.kind, "field": t.field, "string": fam, "mode": m});
                let p = (t.make)(s);
                let codec = Codec::new(mode_of(compressed));
                match guard(|| codec.encode(&p)) {
                    Err(msg) => {
                        acc.class("refused-by-panic");
                        acc.violate(i, format!("C03|{}|{}|text-makes-encoder-panic", t.kind, t.field),
                            format!("{}.{} = {fam} [{m}]: encoder panicked: {msg}", t.kind, t.field), replay);
                    },
                    Ok(Err(e)) => {
                        acc.class("refused-by-error");
                        acc.violate(i, format!("C03|{}|{}|text-refused", t.kind, t.field),
                            format!("{}.{} = {fam} [{m}]: text must be truncated to the field, but the encoder refused: {}", t.kind, t.field, e.to_string().chars().take(80).collect::<String>()), replay);
                    },
                    Ok(Ok(bytes)) => {
                        acc.class("encoded");
                        acc.key(h64(&bytes) ^ compressed as u64);
                        let pr = wellformed(compressed, &bytes, &typed::variant_name(&p), None);
                        record(acc, i, &format!("{}|{}", t.kind, t.field), pr, &format!("{}.{} = {fam} [{m}]", t.kind, t.field), &replay);
                    },
                }
            }));
    }

    // (d) packets obtained by decoding arbitrary accepted frames: the 1-byte mutation corpus
    {
        let frames: Vec<(String, bool, Vec<u8>)> = {
            let mut out = vec![];
            for k in &gen.kinds {
                for b in 0..2u8 {
                    let vals = crate::gen::baseline(k, b);
                    for c in [true, false] {
                        if let Some(f) = spec::ref_encode(k, &vals, c) {
                            out.push((format!("{} B{b}", k.name), c, f));
                        }
                    }
                }
            }
            out
        };
        let mut offs = vec![0u64];
        for f in frames.iter() {
            offs.push(offs.last().unwrap() + f.2.len() as u64 * 256);
        }
        let total = *offs.last().unwrap();
        let frames = Arc::new(frames);
        sites.push(Site::new("decoded-mutation-corpus", total,
            "every reference frame x every byte position x all 256 values; every frame the decoder accepts is re-encoded",
            move |i, acc| {
                let fi = match offs.binary_search(&i) { Ok(x) => x, Err(x) => x - 1 };
                let (name, compressed, frame) = &frames[fi];
                let r = i - offs[fi];
                let pos = (r / 256) as usize;
                let val = (r % 256) as u8;
                if pos == 0 { return; }
                let mut f = frame.clone();
                f[pos] = val;
                let codec = Codec::new(mode_of(*compressed));
                let mut buf = BytesMut::from(&f[..]);
                acc.eval();
                let Ok(Ok(Some(p))) = guard(|| codec.decode(&mut buf)) else { acc.class("not-accepted"); return; };
                let m = if *compressed { "compressed" } else { "uncompressed" };
                let replay = json!({"site": "decoded-mutation-corpus", "index": i, "frame": name, "position": pos, "value": val, "mode": m, "input": hex(&f[..f.len().min(64)])});
                let _ = name.split(' ').next();
                let kname = typed::variant_name(&p).to_uppercase();
                match guard(|| codec.encode(&p)) {
                    Err(msg) => {
                        acc.class("encode-panic");
                        acc.violate(i, format!("C03|{kname}|encode-panics-on-decoded-packet"),
                            format!("{name} with byte {pos} = {val} [{m}] is accepted by the decoder, but re-encoding the packet panics: {msg}"), replay);
                    },
                    Ok(Err(_)) => acc.class("encode-refused"),
                    Ok(Ok(bytes)) => {
                        acc.class("encoded");
                        acc.key(h64(&bytes) ^ *compressed as u64);
                        let pr = wellformed(*compressed, &bytes, &typed::variant_name(&p), None);
                        record(acc, i, &kname, pr, &format!("{name} byte {pos} = {val} [{m}]"), &replay);
                    },
                }
            }));
    }
    // (e) MSO frames as LFS sends them: name part + text part, high bytes, every TextStart
    {
        let fills: [u8; 6] = [b'a', 0x80, 0xe9, 0x5e, 0x83, 0xff];
        let n = 32 * fills.len() as u64 * 129 * 2;
        sites.push(Site::new("mso-decoded", n,
            "MSO frames with message length 4..=128 (step 4) x fill byte {a,80,e9,5e,83,ff} x TextStart 0..=128 x mode; accepted frames are re-encoded",
            move |i, acc| {
                let compressed = i % 2 == 0;
                let mut j = i / 2;
                let ts = (j % 129) as usize; j /= 129;
                let fill = fills[(j % fills.len() as u64) as usize]; j /= fills.len() as u64;
                let l = ((j % 32) as usize + 1) * 4;
                if ts > l { return; }
                let total = 8 + l;
                if !compressed && total > 255 { return; }
                let mut f = vec![if compressed { (total / 4) as u8 } else { total as u8 }, 11, 0, 0, 1, 2, 1, ts as u8];
                for k in 0..l { f.push(if k == l - 1 { 0 } else { fill }); }
                let codec = Codec::new(mode_of(compressed));
                let mut buf = BytesMut::from(&f[..]);
                acc.eval();
                let m = if compressed { "compressed" } else { "uncompressed" };
                let replay = json!({"site": "mso-decoded", "index": i, "msg_len": l, "fill": fill, "textstart": ts, "mode": m});
                let p = match guard(|| codec.decode(&mut buf)) {
                    Ok(Ok(Some(p))) => p,
                    Ok(_) => { acc.class("not-accepted"); return; },
                    Err(msg) => {
                        acc.class("decode-panic");
                        acc.violate(i, "C03|MSO|decode-panics".into(), format!("MSO frame with {l} message bytes of {fill:#04x}, TextStart {ts} [{m}]: decoder panicked: {msg}"), replay);
                        return;
                    },
                };
                match guard(|| codec.encode(&p)) {
                    Err(msg) => {
                        acc.class("encode-panic");
                        acc.violate(i, "C03|MSO|encode-panics-on-decoded-packet".into(),
                            format!("MSO frame with {l} message bytes of {fill:#04x}, TextStart {ts} [{m}] is accepted by the decoder, but re-encoding the packet panics: {msg}"), replay);
                    },
                    Ok(Err(_)) => acc.class("encode-refused"),
                    Ok(Ok(bytes)) => {
                        acc.class("encoded");
                        acc.key(h64(&bytes) ^ compressed as u64);
                        let pr = wellformed(compressed, &bytes, "Mso", None);
                        record(acc, i, "MSO", pr, &format!("MSO {l}x{fill:#04x} TextStart {ts} [{m}]"), &replay);
                    },
                }
            }));
    }
    // (f) MSO frames whose TextStart may fall inside a code-page marker or a double-byte character
    {
        const A: [u8; 8] = [b'a', b'^', b'E', b'J', 0xec, 0x83, 0x9f, 0];
        let thorough = tier == Tier::Thorough;
        // length 4: all 8^4 texts; length 8: all 8^8 (thorough) or the first 6 bytes free + "a\0" (quick)
        let n4: u64 = 8u64.pow(4) * 5;
        let n8: u64 = if thorough { 8u64.pow(8) * 9 } else { 8u64.pow(6) * 9 };
        sites.push(Site::new("mso-marker-corpus", (n4 + n8) * 2,
            "MSO frames with every message of length 4 (and 8) over {a ^ E J 0xEC 0x83 0x9F NUL} x every TextStart 0..=length x mode; accepted frames are re-encoded (the packet came out of the decoder: the encoder must not abort)",
            move |i, acc| {
                let compressed = i % 2 == 0;
                let j = i / 2;
                let (len, mut k, ts) = if j < n4 { (4usize, j / 5, (j % 5) as usize) } else { let q = j - n4; (8usize, q / 9, (q % 9) as usize) };
                let free = if len == 4 { 4 } else if thorough { 8 } else { 6 };
                let mut msg = vec![];
                for _ in 0..free { msg.push(A[(k % 8) as usize]); k /= 8; }
                while msg.len() < len { msg.push(if msg.len() == len - 1 { 0 } else { b'a' }); }
                let total = 8 + len;
                let mut f = vec![if compressed { (total / 4) as u8 } else { total as u8 }, 11, 0, 0, 1, 2, 1, ts as u8];
                f.extend_from_slice(&msg);
                let codec = Codec::new(mode_of(compressed));
                let mut buf = BytesMut::from(&f[..]);
                acc.eval();
                let m = if compressed { "compressed" } else { "uncompressed" };
                let replay = json!({"site": "mso-marker-corpus", "index": i, "frame": hex(&f), "mode": m});
                let p = match guard(|| codec.decode(&mut buf)) {
                    Ok(Ok(Some(p))) => p,
                    Ok(_) => { acc.class("not-accepted"); return; },
                    Err(msg) => { acc.violate(i, "C03|MSO|decode-panics".into(), format!("MSO frame {} [{m}]: decoder panicked: {msg}", hex(&f)), replay); return; },
                };
                match guard(|| codec.encode(&p)) {
                    Err(msg) => {
                        acc.class("encode-panic");
                        acc.violate(i, "C03|MSO|encode-panics-on-decoded-packet".into(),
                            format!("MSO frame {} [{m}] is accepted by the decoder, but re-encoding the packet panics: {msg}", hex(&f)), replay);
                    },
                    Ok(Err(_)) => acc.class("encode-refused"),
                    Ok(Ok(bytes)) => {
                        acc.class("encoded");
                        acc.key(h64(&bytes) ^ compressed as u64);
                        let pr = wellformed(compressed, &bytes, "Mso", None);
                        record(acc, i, "MSO", pr, &format!("MSO {} [{m}]", hex(&f)), &replay);
                    },
                }
            }));
    }
    // (g) no memory between calls: an encode that is REFUSED part-way (an element deep in a list is out of
    // range, a late field does not fit) followed on the same thread by the encode of a shorter packet of any
    // kind - the second frame is that packet's frame and nothing else
    {
        use insim::insim::{Hcp, Isi, Plh};
        let mut refused: Vec<(String, Packet)> = vec![];
        {
            // a PLH whose last handicap is out of range
            let mut hs: Vec<insim::insim::PlayerHandicap> = (0..20u8).map(|k| insim::insim::PlayerHandicap { plid: insim::identifiers::PlayerId(k + 1), h_mass: 10, h_tres: 5, ..Default::default() }).collect();
            if let Some(l) = hs.last_mut() { l.h_mass = 250; }
            refused.push(("PLH x20, last H_Mass 250".into(), Packet::Plh(Plh { hcaps: hs, ..Default::default() })));
        }
        {
            let mut p = Hcp::default();
            if let Some(l) = p.info.last_mut() { l.h_tres = 200; }
            refused.push(("HCP, last H_TRes 200".into(), Packet::Hcp(p)));
        }
        refused.push(("ISI, interval 70 s".into(), Packet::Isi(Isi { interval: std::time::Duration::from_secs(70), iname: "x".repeat(16), admin: "y".repeat(16), ..Default::default() })));
        let refused = Arc::new(refused);
        let mut followers: Vec<(String, bool, Packet, Vec<u8>)> = vec![];
        for k in gen.kinds.iter() {
            for c in [true, false] {
                let vals = crate::gen::baseline(k, 1);
                let Some(f) = spec::ref_encode(k, &vals, c) else { continue };
                let codec = Codec::new(mode_of(c));
                let mut b = BytesMut::from(&f[..]);
                let Ok(Some(p)) = codec.decode(&mut b) else { continue };
                let Ok(Ok(own)) = guard(|| codec.encode(&p)) else { continue };
                followers.push((k.name.clone(), c, p, own.to_vec()));
            }
        }
        let followers = Arc::new(followers);
        {
            // ... and every ordered pair of accepted packets
            let followers = followers.clone();
            let n2 = (followers.len() * followers.len()) as u64;
            sites.push(Site::new("encode-pairs", n2,
                "every ordered pair of B1 packets (every kind, both modes) encoded back to back on one thread: the second frame is the one the packet has on its own",
                move |i, acc| {
                    acc.eval();
                    let (na, ca, pa, _) = &followers[(i as usize) / followers.len()];
                    let (nb, cb, pb, own) = &followers[(i as usize) % followers.len()];
                    let _ = guard(|| Codec::new(mode_of(*ca)).encode(pa).map(|b| b.len()));
                    match guard(|| Codec::new(mode_of(*cb)).encode(pb).map(|b| b.to_vec())) {
                        Ok(Ok(b)) if b == *own => { acc.class("pair-agrees"); acc.nontrivial(); },
                        other => acc.violate(i, format!("C03|{nb}|frame-depends-on-the-previous-encode"), format!("{nb} encoded right after {na}: {} ; on its own {}", match other { Ok(Ok(b)) => hex(&b[..b.len().min(32)]), Ok(Err(e)) => e.to_string(), Err(pn) => pn }, hex(&own[..own.len().min(32)])), json!({"site": "encode-pairs", "index": i})),
                    }
                }));
        }
        let n = (refused.len() * followers.len()) as u64;
        sites.push(Site::new("encode-after-refusal", n,
            "3 packets whose encoding is refused part-way (PLH / HCP with the last handicap out of range, ISI with an interval beyond 16 bits) x every kind's B1 packet (both modes) encoded right afterwards on the same thread: the frame is the one the packet has on its own",
            move |i, acc| {
                acc.eval();
                let (rname, r) = &refused[(i as usize) / followers.len()];
                let (kname, c, p, own) = &followers[(i as usize) % followers.len()];
                let codec = Codec::new(mode_of(*c));
                let first = guard(|| codec.encode(r).map(|b| b.len()));
                let second = guard(|| codec.encode(p).map(|b| b.to_vec()));
                let replay = json!({"site": "encode-after-refusal", "index": i, "refused": rname, "then": kname});
                match second {
                    Ok(Ok(b)) if b == *own => { acc.class(if matches!(first, Ok(Ok(_))) { "after-an-accepted-packet" } else { "after-a-refused-packet" }); acc.nontrivial(); },
                    other => acc.violate(i, format!("C03|{kname}|frame-depends-on-the-previous-encode"), format!("{kname} encoded right after {rname} ({}): {} ; on its own {}", match &first { Ok(Ok(n)) => format!("accepted, {n} bytes"), Ok(Err(e)) => format!("refused: {}", e.to_string().chars().take(40).collect::<String>()), Err(_) => "panicked".into() }, match other { Ok(Ok(b)) => hex(&b[..b.len().min(32)]), Ok(Err(e)) => e.to_string(), Err(pn) => pn }, hex(&own[..own.len().min(32)])), replay),
                }
            }));
    }
    sites.push(after_writer_failure_site("C03"));
    // MSO built through the typed API with names of every length and code-page class (the frame must decode again)
    sites.push(super::c01::mso_name_text_site("C03"));
    // ... nor between threads: histories of 2 and 3 encodes spread over two threads (refused packets among them)
    {
        let mut corpus: Vec<(String, (bool, Packet))> = vec![];
        for k in spec::load().iter() {
            if !["TINY", "SMALL", "MSO", "MST", "MCI", "NPL", "AXM", "BTN"].contains(&k.name.as_str()) { continue; }
            let c = k.name.len() % 2 == 0;
            let Some(f) = spec::ref_encode(k, &crate::gen::baseline(k, 1), c) else { continue };
            let mut b = BytesMut::from(&f[..]);
            if let Ok(Some(p)) = Codec::new(mode_of(c)).decode(&mut b) { corpus.push((format!("encode {} ({})", k.name, if c { "compressed" } else { "uncompressed" }), (c, p))); }
        }
        for (n, p) in super::e2props::refused_packets() { corpus.push((format!("encode {n}"), (true, p))); }
        sites.push(crate::crossthread::site("C03", "cross-thread-encodes", "Codec::encode", corpus, |(c, p): &(bool, Packet)| Codec::new(mode_of(*c)).encode(p).map(|b| b.to_vec()).map_err(|_| ())));
    }
    let _ = Packet::default();
    sites
}

/// A writer that fails hard part-way (the packets' BinWrite is public and takes any Write + Seek: a slice that is too
/// small answers WriteZero) leaves nothing behind either: every kind's B1 packet written into a slice of every length
/// shorter than its body, then every text-bearing kind's B1 packet encoded on the same thread - its frame is its own.
pub fn after_writer_failure_site(prop: &'static str) -> Site {
    use insim::core::binrw::BinWrite;
    let mut firsts: Vec<(String, Packet, usize)> = vec![];
    let mut followers: Vec<(String, bool, Packet, Vec<u8>)> = vec![];
    for k in spec::load().iter() {
        let vals = crate::gen::baseline(k, 1);
        let Some(f) = spec::ref_encode(k, &vals, true) else { continue };
        let codec = Codec::new(mode_of(true));
        let mut b = BytesMut::from(&f[..]);
        let Ok(Some(p)) = codec.decode(&mut b) else { continue };
        let Ok(Ok(own)) = guard(|| codec.encode(&p)) else { continue };
        firsts.push((k.name.clone(), p.clone(), own.len() - 1));
        let has_text = k.fields.iter().any(|f| matches!(f.ty, spec::Ty::Text(_) | spec::Ty::VarText { .. } | spec::Ty::Raw(_)));
        if has_text || k.name == "TINY" {
            followers.push((k.name.clone(), true, p.clone(), own.to_vec()));
            if let Some(fu) = spec::ref_encode(k, &vals, false) {
                let cu = Codec::new(mode_of(false));
                let mut bu = BytesMut::from(&fu[..]);
                if let Ok(Some(pu)) = cu.decode(&mut bu) { if let Ok(Ok(ownu)) = guard(|| cu.encode(&pu)) { followers.push((k.name.clone(), false, pu, ownu.to_vec())); } }
            }
        }
    }
    let mut cases: Vec<(usize, usize)> = vec![];
    for (fi, (_, _, len)) in firsts.iter().enumerate() { for room in 0..*len { cases.push((fi, room)); } }
    let (firsts, followers, cases) = (Arc::new(firsts), Arc::new(followers), Arc::new(cases));
    let n = cases.len() as u64;
    Site::new("encode-after-writer-failure", n,
        "every kind's B1 packet written through its public BinWrite into a slice of every length shorter than its body (the write fails with WriteZero at that byte), then every text-bearing kind's B1 packet (both modes) encoded on the same thread: each frame is the one the packet has on its own",
        move |i, acc| {
            acc.eval();
            let (fi, room) = cases[i as usize];
            let (fname, p, _) = &firsts[fi];
            let first = guard(|| { let mut space = vec![0u8; room]; let mut c = std::io::Cursor::new(&mut space[..]); p.write_le(&mut c).is_ok() });
            for (kname, c, q, own) in followers.iter() {
                let replay = json!({"site": "encode-after-writer-failure", "index": i, "first": fname, "room": room, "then": kname});
                match guard(|| Codec::new(mode_of(*c)).encode(q).map(|b| b.to_vec())) {
                    Ok(Ok(b)) if b == *own => {},
                    other => {
                        acc.violate(i, format!("{prop}|{kname}|frame-depends-on-an-earlier-failed-write"), format!("{kname} encoded right after {fname} was written into a {room}-byte slice ({}): {} ; on its own {}", match first { Ok(true) => "accepted?!", Ok(false) => "refused", Err(_) => "panicked" },
                            match other { Ok(Ok(b)) => hex(&b[..b.len().min(32)]), Ok(Err(e)) => e.to_string(), Err(pn) => pn }, hex(&own[..own.len().min(32)])), replay);
                        return;
                    },
                }
            }
            acc.class("nothing-left-behind-by-a-failed-write");
            acc.nontrivial();
        })
}

/// The layout of a frame does not depend on what the encoder was asked before: every kind's B1 packet (both
/// modes) encoded right after a packet that was refused part-way, compared byte for byte with the frame the
/// specification table gives (C02's oracle).
pub fn after_refusal_spec_site(prop: &'static str) -> Site {
    let refused = Arc::new(super::e2props::refused_packets());
    let mut followers: Vec<(String, bool, Packet, Vec<u8>)> = vec![];
    for k in spec::load().iter() {
        for c in [true, false] {
            let vals = crate::gen::baseline(k, 1);
            let Some(f) = spec::ref_encode(k, &vals, c) else { continue };
            let codec = Codec::new(mode_of(c));
            let mut b = BytesMut::from(&f[..]);
            let Ok(Some(p)) = codec.decode(&mut b) else { continue };
            // (kinds whose B1 frame the encoder does not reproduce are judged by the value sites)
            let Ok(Ok(own)) = guard(|| codec.encode(&p)) else { continue };
            if own[..] != f[..] { continue; }
            followers.push((k.name.clone(), c, p, f));
        }
    }
    let n = (refused.len() * followers.len()) as u64;
    Site::new("layout-after-refusal", n,
        "3 packets whose encoding is refused part-way x every kind's B1 packet (both modes) encoded right afterwards on the same thread: the frame is the specification's, byte for byte",
        move |i, acc| {
            acc.eval();
            let (rname, r) = &refused[(i as usize) / followers.len()];
            let (kname, c, p, want) = &followers[(i as usize) % followers.len()];
            let codec = Codec::new(mode_of(*c));
            let _ = guard(|| codec.encode(r).map(|b| b.len()));
            match guard(|| codec.encode(p).map(|b| b.to_vec())) {
                Ok(Ok(b)) if b == *want => { acc.class("layout-after-refusal-agrees"); acc.nontrivial(); },
                other => acc.violate(i, format!("{prop}|{kname}|layout-depends-on-the-previous-encode"), format!("{kname} encoded right after {rname} was refused: {} ; the specification gives {}", match other { Ok(Ok(b)) => hex(&b[..b.len().min(32)]), Ok(Err(e)) => e.to_string(), Err(pn) => pn }, hex(&want[..want.len().min(32)])), json!({"site": "layout-after-refusal", "index": i, "refused": rname, "then": kname})),
            }
        })
}

pub fn run(tier: Tier, replay: Option<String>) -> i32 {
    super::run_e1("C03", tier, "exploration", replay, sites(tier),
        "Gen+ = decoded specification frames (all field domains) + element counts 0..=255 of every counted kind + texts of length 0..=2N in every text field + every decoder-accepted 1-byte mutation of every reference frame, x both size modes; non-trivial = the encoder produced a frame (distinct frames hashed / counted)",
        vec![
            "expected lengths of counted kinds come from the specification table (4+6n(+2), 4+28n, 8+8n, 4+4n, 8+4n, 8+4n, 4+40n)".into(),
            "a refusal may be an Err or a panic for hand-built packets; for packets that came out of the decoder a panic is a violation".into(),
        ],
        |_, _| {})
}
