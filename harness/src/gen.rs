//! "Gen": the shared, index-addressable packet value generator built on the specification table.
//! For every kind: baselines B0 and B1 and, per field, its whole bounded domain with the other
//! fields at B0 and at B1 (DESIGN.md §4).

use std::{collections::HashMap, sync::Arc};

use crate::spec::{self, Depth, Field, Kind, Ty, Val};

pub struct Block {
    pub kind: usize,
    pub baseline: u8,
    /// None = the baseline itself; Some((field, None)) = top-level field sweep;
    /// Some((field, Some((elem_pos, elem_field)))) = sweep of a field inside one list/array element
    pub target: Option<(usize, Option<(usize, usize)>)>,
    pub start: u64,
    pub dom: Arc<Vec<Val>>,
    /// Some((fi, fj, values of fi, values of fj)) = cross product of two fields' boundary values
    pub pair: Option<(usize, usize, Arc<Vec<Val>>, Arc<Vec<Val>>)>,
    /// Some(f): the pair indexes the element fields of list/array field f (first element)
    pub within: Option<usize>,
    /// Some((fk, values of fk)): a third field on top of `pair` (triples of top-level fields)
    pub third: Option<(usize, Arc<Vec<Val>>)>,
}

pub struct Gen {
    pub kinds: Vec<Kind>,
    pub blocks: Vec<Block>,
    pub total: u64,
}

pub fn baseline(kind: &Kind, which: u8) -> Vec<Val> {
    kind.fields
        .iter()
        .enumerate()
        .map(|(i, f)| if which == 0 { spec::b0(f) } else { spec::b1(f, i) })
        .collect()
}

fn capped(fields: &[Field]) -> bool {
    fields
        .iter()
        .any(|f| f.name == "H_Mass" || f.name == "H_TRes")
}

impl Gen {
    pub fn new(depth: Depth) -> Gen {
        let kinds = spec::load();
        let mut cache: HashMap<String, Arc<Vec<Val>>> = HashMap::new();
        let mut dom = |f: &Field, cap: bool| -> Arc<Vec<Val>> {
            let key = format!("{:?}|{}|{:?}|{}", f.ty, cap, depth, if cap { &f.name } else { "" });
            cache
                .entry(key)
                .or_insert_with(|| Arc::new(spec::domain(f, depth, cap)))
                .clone()
        };
        let mut blocks = vec![];
        let mut total = 0u64;
        for (ki, k) in kinds.iter().enumerate() {
            for b in 0..2u8 {
                blocks.push(Block {
                    kind: ki,
                    baseline: b,
                    target: None,
                    start: total,
                    dom: Arc::new(vec![Val::Z]),
                    pair: None,
                    within: None,
                    third: None,
                });
                total += 1;
                for (fi, f) in k.fields.iter().enumerate() {
                    // NPL handicaps are plain bytes (no writer assertion), PLH/HCP ones are capped
                    let d = dom(f, false);
                    if !d.is_empty() {
                        blocks.push(Block {
                            kind: ki,
                            baseline: b,
                            target: Some((fi, None)),
                            start: total,
                            dom: d.clone(),
                            pair: None,
                    within: None,
                    third: None,
                        });
                        total += d.len() as u64;
                    }
                    match &f.ty {
                        Ty::List { elem, .. } => {
                            let cap = capped(elem);
                            for (ei, ef) in elem.iter().enumerate() {
                                let d = dom(ef, cap);
                                if d.is_empty() {
                                    continue;
                                }
                                blocks.push(Block {
                                    kind: ki,
                                    baseline: b,
                                    target: Some((fi, Some((0, ei)))),
                                    start: total,
                                    dom: d.clone(),
                                    pair: None,
                    within: None,
                    third: None,
                                });
                                total += d.len() as u64;
                                // the same sweep on the LAST element of a three-element list
                                blocks.push(Block {
                                    kind: ki,
                                    baseline: b,
                                    target: Some((fi, Some((2, ei)))),
                                    start: total,
                                    dom: d.clone(),
                                    pair: None,
                    within: None,
                    third: None,
                                });
                                total += d.len() as u64;
                            }
                        },
                        Ty::Array { n, elem } => {
                            let cap = capped(elem);
                            for pos in [0usize, *n - 1] {
                                for (ei, ef) in elem.iter().enumerate() {
                                    let d = dom(ef, cap);
                                    if d.is_empty() {
                                        continue;
                                    }
                                    blocks.push(Block {
                                        kind: ki,
                                        baseline: b,
                                        target: Some((fi, Some((pos, ei)))),
                                        start: total,
                                        dom: d.clone(),
                                        pair: None,
                    within: None,
                    third: None,
                                    });
                                    total += d.len() as u64;
                                }
                            }
                        },
                        _ => {},
                    }
                }
                // pairs of fields: cross product of their boundary values (adjacent pairs in the
                // light depth, all pairs in the full depth) - value-dependent interactions between
                // neighbours (overlapping bits, swapped order) show up here
                let pv: Vec<Arc<Vec<Val>>> = k.fields.iter().map(|f| Arc::new(spec::pair_values(f, depth))).collect();
                for i in 0..k.fields.len() {
                    if pv[i].is_empty() {
                        continue;
                    }
                    #[allow(unused_assignments, unused_variables)]
                    let mut seen_next = false;
                    for j in (i + 1)..k.fields.len() {
                        if pv[j].is_empty() {
                            continue;
                        }
                        // (all pairs in both depths: the light depth used to stop at the next
                        // neighbour; the whole cross product is only ~3x more cases)
                        seen_next = true;
                        let n = (pv[i].len() * pv[j].len()) as u64;
                        blocks.push(Block {
                            kind: ki,
                            baseline: b,
                            target: None,
                            start: total,
                            dom: Arc::new(vec![]),
                            pair: Some((i, j, pv[i].clone(), pv[j].clone())),
                            within: None,
                    third: None,
                        });
                        total += n;
                    }
                }
                // triples of top-level fields over small value sets (boundaries, every enumerant, every flag bit):
                // a condition on three fields at once, in kinds with at most 9 valued fields
                {
                    let tv: Vec<Arc<Vec<Val>>> = k.fields.iter().map(|f| {
                        let mut v = spec::pair_values(f, Depth::Light);
                        if v.len() > 12 && !matches!(f.ty, Ty::Enum { .. } | Ty::Flags { .. }) { v.truncate(12); }
                        Arc::new(v)
                    }).collect();
                    let idx: Vec<usize> = (0..k.fields.len()).filter(|i| !tv[*i].is_empty()).collect();
                    // wider kinds: the same over narrower value sets (every enumerant and flag bit; for numbers the two ends,
                    // the sign / top bit and the values the protocol documents as special), so that a condition on three
                    // fields of a 15- or 30-field packet is met as well
                    let wide = idx.len() > 9;
                    let tv: Vec<Arc<Vec<Val>>> = if !wide { tv } else {
                        k.fields.iter().enumerate().map(|(fi, f)| {
                            let full = &tv[fi];
                            let v: Vec<Val> = match &f.ty {
                                Ty::Enum { .. } | Ty::Flags { .. } => (**full).clone(),
                                Ty::U8 => { let mut v = vec![Val::N(0), Val::N(0x80), Val::N(0xff)]; for x in &f.notable { if !v.contains(&Val::N(*x)) { v.push(Val::N(*x)); } } v },
                                _ => { let mut v: Vec<Val> = vec![]; if let Some(a) = full.first() { v.push(a.clone()); } if full.len() > 1 { v.push(full[full.len() - 1].clone()); } if full.len() > 2 { v.push(full[full.len() / 2].clone()); } v },
                            };
                            Arc::new(v)
                        }).collect()
                    };
                    if idx.len() >= 3 {
                        for a in 0..idx.len() {
                            for b2 in (a + 1)..idx.len() {
                                for c in (b2 + 1)..idx.len() {
                                    let (i, j, l) = (idx[a], idx[b2], idx[c]);
                                    let n = (tv[i].len() * tv[j].len() * tv[l].len()) as u64;
                                    if n > 40_000 || (wide && n > 4_000) { continue; }
                                    blocks.push(Block {
                                        kind: ki,
                                        baseline: b,
                                        target: None,
                                        start: total,
                                        dom: Arc::new(vec![]),
                                        pair: Some((i, j, tv[i].clone(), tv[j].clone())),
                                        within: None,
                                        third: Some((l, tv[l].clone())),
                                    });
                                    total += n;
                                }
                            }
                        }
                    }
                }
                // the same products between the fields of one list / array element
                for (fi, f) in k.fields.iter().enumerate() {
                    let elem = match &f.ty {
                        Ty::List { elem, .. } | Ty::Array { elem, .. } => elem,
                        _ => continue,
                    };
                    let cap = capped(elem);
                    let pv: Vec<Arc<Vec<Val>>> = elem
                        .iter()
                        .map(|ef| {
                            if cap && (ef.name == "H_Mass" || ef.name == "H_TRes") {
                                Arc::new(vec![])
                            } else {
                                Arc::new(spec::pair_values(ef, depth))
                            }
                        })
                        .collect();
                    for i in 0..elem.len() {
                        for j in (i + 1)..elem.len() {
                            if pv[i].is_empty() || pv[j].is_empty() {
                                continue;
                            }
                            let n = (pv[i].len() * pv[j].len()) as u64;
                            blocks.push(Block {
                                kind: ki,
                                baseline: b,
                                target: None,
                                start: total,
                                dom: Arc::new(vec![]),
                                pair: Some((i, j, pv[i].clone(), pv[j].clone())),
                                within: Some(fi),
                                third: None,
                            });
                            total += n;
                        }
                    }
                }
            }
        }
        Gen {
            kinds,
            blocks,
            total,
        }
    }

    fn block_of(&self, i: u64) -> &Block {
        let idx = match self.blocks.binary_search_by(|b| b.start.cmp(&i)) {
            Ok(x) => x,
            Err(x) => x - 1,
        };
        &self.blocks[idx]
    }

    /// The i-th case: (kind index, field values, short description of what is being swept).
    pub fn case(&self, i: u64) -> (usize, Vec<Val>, String) {
        let b = self.block_of(i);
        let k = &self.kinds[b.kind];
        let mut vals = baseline(k, b.baseline);
        let off = (i - b.start) as usize;
        let what = match b.target {
            None if b.pair.is_some() && b.within.is_some() => {
                let lf = b.within.unwrap();
                let (ei, ej, di, dj) = b.pair.as_ref().unwrap();
                let (a, c) = (off / dj.len(), off % dj.len());
                let (elem, is_list) = match &k.fields[lf].ty {
                    Ty::List { elem, .. } => (elem, true),
                    Ty::Array { elem, .. } => (elem, false),
                    _ => unreachable!(),
                };
                if is_list {
                    let mut e: Vec<Val> = elem
                        .iter()
                        .enumerate()
                        .map(|(j, f)| {
                            if b.baseline == 0 {
                                spec::b0(f)
                            } else if capped(elem) && f.name == "H_Mass" {
                                Val::N(77)
                            } else if capped(elem) && f.name == "H_TRes" {
                                Val::N(33)
                            } else {
                                spec::b1(f, j)
                            }
                        })
                        .collect();
                    e[*ei] = di[a].clone();
                    e[*ej] = dj[c].clone();
                    vals[lf] = Val::L(vec![e]);
                } else if let Val::L(items) = &mut vals[lf] {
                    items[0][*ei] = di[a].clone();
                    items[0][*ej] = dj[c].clone();
                }
                format!("{} B{} {}[0].{}#{}x{}#{}", k.name, b.baseline, k.fields[lf].name, elem[*ei].name, a, elem[*ej].name, c)
            },
            None if b.pair.is_some() && b.third.is_some() => {
                let (fi, fj, di, dj) = b.pair.as_ref().unwrap();
                let (fk, dk) = b.third.as_ref().unwrap();
                let t = off % dk.len();
                let rest = off / dk.len();
                let (a, c) = (rest / dj.len(), rest % dj.len());
                vals[*fi] = di[a].clone();
                vals[*fj] = dj[c].clone();
                vals[*fk] = dk[t].clone();
                format!("{} B{} {}#{}x{}#{}x{}#{}", k.name, b.baseline, k.fields[*fi].name, a, k.fields[*fj].name, c, k.fields[*fk].name, t)
            },
            None if b.pair.is_some() => {
                let (fi, fj, di, dj) = b.pair.as_ref().unwrap();
                let (a, c) = (off / dj.len(), off % dj.len());
                vals[*fi] = di[a].clone();
                vals[*fj] = dj[c].clone();
                format!("{} B{} {}#{}x{}#{}", k.name, b.baseline, k.fields[*fi].name, a, k.fields[*fj].name, c)
            },
            None => format!("{} B{}", k.name, b.baseline),
            Some((fi, None)) => {
                vals[fi] = b.dom[off].clone();
                format!("{} B{} {}#{}", k.name, b.baseline, k.fields[fi].name, off)
            },
            Some((fi, Some((pos, ei)))) => {
                let (elem, is_list) = match &k.fields[fi].ty {
                    Ty::List { elem, .. } => (elem, true),
                    Ty::Array { elem, .. } => (elem, false),
                    _ => unreachable!(),
                };
                if is_list {
                    // exactly one element, at B0 or B1, with one field swept
                    let mut e: Vec<Val> = elem
                        .iter()
                        .enumerate()
                        .map(|(j, f)| {
                            if b.baseline == 0 {
                                spec::b0(f)
                            } else if capped(elem) && f.name == "H_Mass" {
                                Val::N(77)
                            } else if capped(elem) && f.name == "H_TRes" {
                                Val::N(33)
                            } else {
                                spec::b1(f, j)
                            }
                        })
                        .collect();
                    e[ei] = b.dom[off].clone();
                    if pos == 0 {
                        vals[fi] = Val::L(vec![e]);
                    } else {
                        // two distinct elements in front of the swept one
                        let front = |salt: usize| -> Vec<Val> {
                            elem.iter().enumerate().map(|(j, f)| {
                                if capped(elem) && f.name == "H_Mass" { Val::N(10 + salt as i64) }
                                else if capped(elem) && f.name == "H_TRes" { Val::N(20 + salt as i64) }
                                else { spec::b1(f, j + 11 * (salt + 1)) }
                            }).collect()
                        };
                        vals[fi] = Val::L(vec![front(0), front(1), e]);
                    }
                } else if let Val::L(items) = &mut vals[fi] {
                    items[pos][ei] = b.dom[off].clone();
                }
                format!(
                    "{} B{} {}[{}].{}#{}",
                    k.name, b.baseline, k.fields[fi].name, pos, elem[ei].name, off
                )
            },
        };
        // MSO: TextStart is an offset into Msg, so it must not exceed the text
        if k.name == "MSO" {
            let ts_i = k.fields.iter().position(|f| f.name == "TextStart").unwrap();
            let msg_i = k.fields.iter().position(|f| f.name == "Msg").unwrap();
            if let (Val::N(ts), Val::S(m)) = (vals[ts_i].clone(), vals[msg_i].clone()) {
                if ts as usize > m.len() {
                    if ts <= 120 {
                        vals[msg_i] = Val::S(
                            (0..(ts as usize + 2))
                                .map(|j| (b'a' + (j % 26) as u8) as char)
                                .collect(),
                        );
                    } else {
                        vals[ts_i] = Val::N(m.len() as i64);
                    }
                }
            }
        }
        (b.kind, vals, what)
    }
}
