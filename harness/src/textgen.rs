//! The string generator S(N) shared by C03 and C11: strings whose encoded length differs from
//! their character count, so that a width cut falls on every offset inside a code-page marker
//! and inside a double-byte character.

/// (family name, string) for every length 0..=2N of every family.
pub fn strings(width: usize) -> Vec<(String, String)> {
    let mut out = vec![];
    let top = 2 * width;
    for n in 0..=top {
        out.push((format!("ascii x{n}"), "a".repeat(n)));
    }
    for n in 1..=top {
        // one marker, then 1 byte per char (page E)
        out.push((format!("e-caron x{n}"), "\u{11b}".repeat(n)));
    }
    for n in 1..=(top / 3 + 2) {
        // a marker per character: 3 bytes each
        let s: String = (0..n).map(|i| if i % 2 == 0 { '\u{11b}' } else { '\u{448}' }).collect();
        out.push((format!("alternating-pages x{n}"), s));
    }
    for n in 1..=(top / 2 + 2) {
        // double-byte characters (page J)
        out.push((format!("katakana x{n}"), "\u{30a2}".repeat(n)));
    }
    for lead in 0..4usize {
        for n in 1..=(top / 2 + 2) {
            // ASCII lead so that the cut lands on every phase of marker / lead / trail byte
            let mut s = "x".repeat(lead);
            for i in 0..n {
                s.push(if i % 3 == 0 { '\u{30a2}' } else if i % 3 == 1 { '\u{11b}' } else { 'y' });
            }
            out.push((format!("mixed lead{lead} x{n}"), s));
        }
    }
    for lead in 0..4usize {
        for n in 1..=(top / 2 + 2) {
            // a run of double-byte characters behind 0..3 single bytes: the cut falls on a lead byte,
            // on a trail byte and between characters
            out.push((format!("kanji lead{lead} x{n}"), format!("{}{}", "x".repeat(lead), "\u{65e5}".repeat(n))));
        }
        for n in 1..=(top + 2) {
            // carets (each is written as a caret pair when escaped by the caller; here raw)
            out.push((format!("colour-codes lead{lead} x{n}"), format!("{}{}", "x".repeat(lead), "^1a".repeat(n / 3 + 1).chars().take(n).collect::<String>())));
        }
    }
    for lead in ["\u{feff}", "\u{200b}", "\u{fffe}", "\u{e01}"] {
        for n in 0..=top {
            // a leading character of no code page (byte order mark, zero width space, ...) is one '?'
            // like any other: it counts towards the width
            out.push((format!("no-page-lead {:x} x{n}", lead.chars().next().unwrap() as u32), format!("{lead}{}", "a".repeat(n))));
        }
    }
    for n in 1..=top {
        // characters outside the BMP: 4 bytes of UTF-8 each, one '?' each on the wire
        out.push((format!("no-page-astral x{n}"), "\u{1f600}".repeat(n)));
    }
    for n in 1..=(top / 2 + 2) {
        out.push((format!("no-page-astral-mixed x{n}"), "\u{1f600}a".repeat(n)));
    }
    // far more text than any field holds: lengths around 2^8, 2^12 and 2^16 (a length kept in 8 or 16 bits wraps
    // in there), in one-byte, marker-led and double-byte text
    for n in [255usize, 256, 257, 4095, 4096, 65535, 65536, 65537, 65536 + width, 131073] {
        out.push((format!("far-too-long ascii x{n}"), "a".repeat(n)));
        out.push((format!("far-too-long e-caron x{n}"), "\u{11b}".repeat(n)));
        out.push((format!("far-too-long katakana x{n}"), "\u{30a2}".repeat(n)));
        out.push((format!("far-too-long mixed x{n}"), "\u{30a2}\u{11b}y".repeat(n / 3 + 1)));
    }
    // ... with 1..3 single bytes in front, so that every byte offset (1020, 4096, 65536 ...) falls inside a character for one of them
    for lead in 1..=3usize {
        for n in [509usize, 510, 511, 680, 2047, 2048, 32767, 32768] {
            out.push((format!("far-too-long lead{lead} e-caron x{n}"), format!("{}{}", "a".repeat(lead), "\u{11b}".repeat(n))));
            out.push((format!("far-too-long lead{lead} katakana x{n}"), format!("{}{}", "a".repeat(lead), "\u{30a2}".repeat(n))));
            out.push((format!("far-too-long lead{lead} astral x{n}"), format!("{}{}", "a".repeat(lead), "\u{1f600}".repeat(n))));
        }
    }
    // every ASCII character (the control characters among them) as the LAST character of the text, at lengths either side
    // of a machine word: whatever looks for the terminating NUL must not be impressed by the byte in front of it
    for b in 1u8..=0x7f {
        if b == b'^' { continue; }
        for k in [0usize, 2, 6, 7, 8] {
            if k + 1 >= width && width > 1 { continue; }
            out.push((format!("ends-with {b:#04x} after {k}"), format!("{}{}", "p".repeat(k), b as char)));
        }
    }
    // white space and control characters are ordinary text: nothing may trim or normalise them
    for t in [" ", "  ", " a", "a ", " a ", "a  b", "\t", "a\tb", "a\u{7f}", "\u{1}x", "x\r\n", "~{}[]"] {
        out.push((format!("ascii-odd {t:?}"), t.to_string()));
        if width > 12 {
            out.push((format!("ascii-odd padded {t:?}"), format!("{}{t}", "p".repeat(width - 1 - t.len().min(width - 1)))));
        }
    }
    for n in [0usize, 1, 2, 3, 5, width.saturating_sub(1), width, width + 1] {
        // embedded NUL
        let mut s = "b".repeat(n);
        s.push('\0');
        s.push_str("tail");
        out.push((format!("embedded-nul after {n}"), s));
    }
    out
}
