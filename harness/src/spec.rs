//! The wire-layout reference model: parser for spec/insim_v9.spec, value domains, a table-driven
//! reference encoder, and the binding from specification fields to the typed packet (through the
//! serde rendering of insim::Packet).  Nothing here reads the Rust packet declarations.

use serde_json::{json, Value};

#[derive(Clone, Debug)]
pub enum Ty {
    U8,
    U16,
    I16,
    U32,
    I32,
    F32,
    Bool,
    Bool32,
    Char,
    Enum { w: u8, items: Vec<(String, u32, String)> },
    Flags { w: u8, items: Vec<(String, u8, Option<String>)> },
    Text(usize),
    Raw(usize),
    VarText { max: usize, min: usize, term_required: bool },
    Ms16,
    Cs16,
    Ms32,
    Cs32,
    Vehicle,
    Track,
    RaceLaps,
    Fuel,
    GameVer,
    Ip4,
    Nib { hi: Option<String>, lo: Option<String> },
    SpClose,
    Spare(usize),
    Count(String),
    List { max: usize, elem: Vec<Field> },
    Array { n: usize, elem: Vec<Field> },
    Tag { v: u8, variant: String },
    Cars32,
    SkinList { max: usize },
    IpList { max: usize },
    Pad4,
}

#[derive(Clone, Debug)]
pub struct Field {
    pub name: String,
    pub ty: Ty,
    pub path: Option<String>,
    /// values the protocol documents as special for this field (`notable=a,b,..` in the spec): they join
    /// the field's boundary set wherever fields are combined
    pub notable: Vec<i64>,
}

#[derive(Clone, Debug)]
pub struct Kind {
    pub name: String,
    pub ty: u8,
    pub tag: String,
    pub fields: Vec<Field>,
}

#[derive(Clone, Debug, PartialEq)]
pub enum Val {
    /// any integer-like wire value (also enum numbers, flag bits, raw vehicle u32, durations in wire units)
    N(i64),
    /// f32 bit pattern
    F(u32),
    /// text (ASCII in the spec-driven domains)
    S(String),
    /// raw bytes (track 6 bytes, game version 8 bytes)
    B(Vec<u8>),
    /// nibble pair (hi, lo)
    Nb(u8, u8),
    /// list / array: one Vec<Val> per element, aligned with the element fields
    L(Vec<Vec<Val>>),
    /// spare / count / pad (nothing to choose)
    Z,
}

pub const SPEC_TEXT: &str = include_str!("../../spec/insim_v9.spec");

fn camel(s: &str) -> String {
    let mut out = String::new();
    for part in s.split('_') {
        let mut cs = part.chars();
        if let Some(c) = cs.next() {
            out.push(c.to_ascii_uppercase());
            out.push_str(&cs.as_str().to_ascii_lowercase());
        }
    }
    out
}

fn parse_field(line: &str, lines: &mut std::iter::Peekable<std::str::Lines>) -> Field {
    let toks: Vec<&str> = line.split_whitespace().collect();
    assert!(toks.len() >= 3, "bad spec line: {line}");
    let name = toks[0].to_string();
    let t = toks[1];
    let path = if toks[2] == "-" {
        None
    } else {
        Some(toks[2].to_string())
    };
    let args = &toks[3..];
    let kv = |k: &str| -> Option<String> {
        args.iter()
            .find_map(|a| a.strip_prefix(&format!("{k}=")).map(|s| s.to_string()))
    };
    let ty = match t {
        "u8" => Ty::U8,
        "u16" => Ty::U16,
        "i16" => Ty::I16,
        "u32" => Ty::U32,
        "i32" => Ty::I32,
        "f32" => Ty::F32,
        "bool" => Ty::Bool,
        "bool32" => Ty::Bool32,
        "char" => Ty::Char,
        "ms16" => Ty::Ms16,
        "cs16" => Ty::Cs16,
        "ms32" => Ty::Ms32,
        "cs32" => Ty::Cs32,
        "vehicle" => Ty::Vehicle,
        "track" => Ty::Track,
        "racelaps" => Ty::RaceLaps,
        "fuel" => Ty::Fuel,
        "gamever" => Ty::GameVer,
        "ip4" => Ty::Ip4,
        "spclose" => Ty::SpClose,
        "cars32" => Ty::Cars32,
        "pad4" => Ty::Pad4,
        "enum8" | "enum32" => {
            let items = args
                .iter()
                .map(|a| {
                    let (n, rest) = a.split_once('=').expect("enum item");
                    let (v, rust) = match rest.split_once(':') {
                        Some((v, r)) => (v, r.to_string()),
                        None => (rest, camel(n)),
                    };
                    (n.to_string(), v.parse::<u32>().expect("enum value"), rust)
                })
                .collect();
            Ty::Enum {
                w: if t == "enum8" { 1 } else { 4 },
                items,
            }
        },
        "flags8" | "flags16" | "flags32" => {
            let items = args
                .iter()
                .map(|a| {
                    let (n, rest) = a.split_once('=').expect("flag item");
                    let (v, rust) = match rest.split_once(':') {
                        Some((v, "-")) => (v, None),
                        Some((v, r)) => (v, Some(r.to_string())),
                        None => (rest, Some(n.to_string())),
                    };
                    (n.to_string(), v.parse::<u8>().expect("flag bit"), rust)
                })
                .collect();
            Ty::Flags {
                w: match t {
                    "flags8" => 1,
                    "flags16" => 2,
                    _ => 4,
                },
                items,
            }
        },
        "vartext" => Ty::VarText {
            max: kv("max").unwrap().parse().unwrap(),
            min: kv("min").unwrap().parse().unwrap(),
            term_required: kv("term").as_deref() == Some("req"),
        },
        "nib" => Ty::Nib {
            hi: kv("hi").filter(|s| s != "-"),
            lo: kv("lo").filter(|s| s != "-"),
        },
        "count" => Ty::Count(toks[2].to_string()),
        "tag8" => {
            let (v, variant) = args[0].split_once(':').unwrap();
            Ty::Tag {
                v: v.parse().unwrap(),
                variant: variant.to_string(),
            }
        },
        "skinlist" => Ty::SkinList {
            max: kv("max").unwrap().parse().unwrap(),
        },
        "iplist" => Ty::IpList {
            max: kv("max").unwrap().parse().unwrap(),
        },
        "list" | "array" => {
            let mut elem = vec![];
            loop {
                let l = lines.next().expect("unterminated list").trim();
                if l == "end" {
                    break;
                }
                if l.is_empty() || l.starts_with('#') {
                    continue;
                }
                elem.push(parse_field(l, lines));
            }
            if t == "list" {
                Ty::List {
                    max: kv("max").unwrap().parse().unwrap(),
                    elem,
                }
            } else {
                Ty::Array {
                    n: kv("n").unwrap().parse().unwrap(),
                    elem,
                }
            }
        },
        other => {
            if let Some(n) = other.strip_prefix("text") {
                Ty::Text(n.parse().unwrap())
            } else if let Some(n) = other.strip_prefix("raw") {
                Ty::Raw(n.parse().unwrap())
            } else if let Some(n) = other.strip_prefix("spare") {
                Ty::Spare(n.parse().unwrap())
            } else {
                panic!("unknown spec type {other} in: {line}")
            }
        },
    };
    let path = match ty {
        Ty::Count(_) => None,
        _ => path,
    };
    let notable: Vec<i64> = kv("notable").map(|s| s.split(',').filter_map(|x| x.parse().ok()).collect()).unwrap_or_default();
    Field { name, ty, path, notable }
}

pub fn load() -> Vec<Kind> {
    let mut kinds: Vec<Kind> = vec![];
    let mut lines = SPEC_TEXT.lines().peekable();
    while let Some(l) = lines.next() {
        let l = l.trim();
        if l.is_empty() || l.starts_with('#') {
            continue;
        }
        if let Some(rest) = l.strip_prefix("kind ") {
            let t: Vec<&str> = rest.split_whitespace().collect();
            kinds.push(Kind {
                name: t[0].to_string(),
                ty: t[1].parse().unwrap(),
                tag: t[2].to_string(),
                fields: vec![],
            });
        } else {
            let f = parse_field(l, &mut lines);
            kinds.last_mut().expect("field before kind").fields.push(f);
        }
    }
    kinds
}

/// Number of distinct packet type numbers in the table (must be 73).
pub fn distinct_types(kinds: &[Kind]) -> usize {
    let mut s = std::collections::BTreeSet::new();
    for k in kinds {
        let _ = s.insert(k.ty);
    }
    s.len()
}

// ---------------------------------------------------------------------------------------------
// value domains

pub const BUILTIN_CARS: [&str; 20] = [
    "XFG", "XRG", "XRT", "RB4", "FXO", "LX4", "LX6", "MRT", "UF1", "RAC", "FZ5", "FOX", "XFR", "UFR",
    "FO8", "FXR", "XRR", "FZR", "BF1", "FBM",
];

/// Track codes asserted from the LFS documentation (a subset is enough for layout conformance;
/// the whole table is the business of C14).
pub const SOME_TRACKS: [&str; 24] = [
    "BL1", "BL1R", "BL2", "BL2R", "BL3", "BL1X", "BL1Y", "SO1", "SO1R", "SO4", "FE1", "FE2R", "AU1",
    "KY1", "KY3R", "WE1", "WE2R", "AS1", "AS7R", "RO1", "RO10", "RO11X", "LA1", "LA2X",
];

pub fn u32_boundary() -> Vec<i64> {
    let mut v: Vec<u64> = vec![0, 1, 2, 3, 9, 10, 11, 99, 100, 101, 255, 256, 257, 999, 1000, 1001];
    for k in 2..=32u32 {
        let p = 1u64 << k;
        for d in [-1i64, 0, 1] {
            let x = p as i64 + d;
            if (0..=u32::MAX as i64).contains(&x) {
                v.push(x as u64);
            }
        }
    }
    for lane in 0..4 {
        for b in [0x01u64, 0x7f, 0x80, 0xa5, 0xff] {
            v.push(b << (8 * lane));
        }
    }
    // round amounts of time in milliseconds and in hundredths (1 s, 1 min, 1 h, 1 day) and their neighbours
    for t in [100u64, 1000, 6000, 60_000, 360_000, 3_600_000, 8_640_000, 86_400_000, 600_000, 36_000] {
        v.extend([t - 1, t, t + 1]);
    }
    v.extend([
        0x01020304,
        0x04030201,
        0xdeadbeef,
        0x7fffffff,
        0x80000000,
        0xfffffffe,
        0xffffffff,
        429_496_729,
        429_496_730,
        4_294_967,
        4_294_968,
    ]);
    v.sort();
    v.dedup();
    v.into_iter().map(|x| x as i64).collect()
}

pub fn u16_boundary() -> Vec<i64> {
    let mut v: Vec<i64> = vec![0, 1, 2, 9, 10, 11, 99, 100, 101, 254, 255, 256, 257, 0x0102, 0x0201];
    for k in 2..=16u32 {
        for d in [-1i64, 0, 1] {
            let x = (1i64 << k) + d;
            if (0..=65535).contains(&x) {
                v.push(x);
            }
        }
    }
    v.extend([6553, 6554, 32767, 32768, 65534, 65535, 4095, 4096, 0xa55a]);
    v.sort();
    v.dedup();
    v
}

pub fn f32_specials() -> Vec<u32> {
    vec![
        0x00000000, 0x80000000, 0x3f800000, 0xbf800000, 0x3f000000, 0x40490fdb, 0x00800000, 0x7f7fffff,
        0x00000001, 0x007fffff, 0x7f800000, 0xff800000, 0x7fc00000, 0x7fc00001, 0xffc00000, 0x7fa00000,
        0x42f6e979, 0x3dcccccd,
    ]
}

#[derive(Clone, Copy, PartialEq, Eq, Debug)]
pub enum Depth {
    /// boundary sets for 16-bit fields, singles for flags
    Light,
    /// whole 16-bit domains, all subsets of flag sets with <= 12 bits
    Full,
}

fn vehicle_u32(name: &str) -> i64 {
    let b = name.as_bytes();
    u32::from_le_bytes([b[0], b[1], b[2], 0]) as i64
}

fn looks_builtin(v: u32) -> bool {
    let b = v.to_le_bytes();
    b[3] == 0 && b[..3].iter().all(|c| c.is_ascii_alphanumeric())
}

fn sig_text(n: usize, salt: usize) -> String {
    // distinct, NUL-free, caret-free ASCII signature text of n chars
    (0..n)
        .map(|i| (b'A' + ((i * 7 + salt * 3) % 26) as u8) as char)
        .collect()
}

pub fn track_bytes(code: &str) -> Vec<u8> {
    let mut b = code.as_bytes().to_vec();
    b.resize(6, 0);
    b
}

pub fn gamever_bytes(s: &str) -> Vec<u8> {
    let mut b = s.as_bytes().to_vec();
    b.resize(8, 0);
    b
}

/// B0: the all-zero / first-enumerant / empty baseline.
pub fn b0(f: &Field) -> Val {
    match &f.ty {
        Ty::Enum { items, .. } => Val::N(items[0].1 as i64),
        Ty::F32 => Val::F(0),
        Ty::Text(_) | Ty::Raw(_) | Ty::VarText { .. } => Val::S(String::new()),
        Ty::Track => Val::B(track_bytes("BL1")),
        Ty::GameVer => Val::B(gamever_bytes("0.7F")),
        Ty::Nib { .. } => Val::Nb(0, 0),
        Ty::Spare(_) | Ty::Count(_) | Ty::Pad4 | Ty::Tag { .. } => Val::Z,
        Ty::List { .. } | Ty::SkinList { .. } | Ty::IpList { .. } => Val::L(vec![]),
        Ty::Array { n, elem } => Val::L((0..*n).map(|_| elem.iter().map(b0).collect()).collect()),
        _ => Val::N(0),
    }
}

/// B1: every field a distinct non-zero signature value so that swapped neighbours are visible.
pub fn b1(f: &Field, salt: usize) -> Val {
    let s = salt as i64;
    match &f.ty {
        Ty::U8 => Val::N(0x11 + (s * 7) % 0xe0),
        Ty::U16 => Val::N(0x0201 + (s * 0x0305) % 0xf000),
        Ty::I16 => Val::N(-(0x0102 + (s * 0x0203) % 0x7000)),
        Ty::U32 => Val::N(0x04030201 + (s * 0x01010305) % 0x70000000),
        Ty::I32 => Val::N(-(0x01020304 + (s * 0x00030507) % 0x70000000)),
        Ty::F32 => Val::F(0x3f800000 + ((s as u32) << 12) + 0x123),
        Ty::Bool | Ty::Bool32 => Val::N(1),
        Ty::Char => Val::N((b'a' as i64) + s % 26),
        Ty::Enum { items, .. } => Val::N(items[(1 + salt) % items.len()].1 as i64),
        Ty::Flags { items, .. } => {
            // alternate bits, at least one
            let mut v = 0i64;
            for (i, it) in items.iter().enumerate() {
                if (i + salt) % 2 == 0 {
                    v |= 1 << it.1;
                }
            }
            if v == 0 {
                v = 1 << items[0].1;
            }
            Val::N(v)
        },
        Ty::Text(n) | Ty::Raw(n) => Val::S(sig_text((*n - 1).min(5 + salt % 3), salt)),
        Ty::VarText { max, .. } => Val::S(sig_text((*max - 1).min(6 + salt % 5), salt)),
        Ty::Ms16 | Ty::Cs16 => Val::N(0x0304 + s),
        Ty::Ms32 | Ty::Cs32 => Val::N(0x00050607 + s),
        Ty::Vehicle => Val::N(vehicle_u32(BUILTIN_CARS[(3 + salt) % 20])),
        Ty::Track => Val::B(track_bytes(SOME_TRACKS[(5 + salt) % SOME_TRACKS.len()])),
        Ty::RaceLaps => Val::N(42 + s % 50),
        Ty::Fuel => Val::N(33 + s % 60),
        Ty::GameVer => Val::B(gamever_bytes("0.6W43")),
        Ty::Ip4 => Val::N(0x0a141e28),
        Ty::Nib { lo, .. } => Val::Nb(
            (5 + salt as u8) % 16,
            if lo.is_some() { (9 + salt as u8) % 16 } else { 0 },
        ),
        Ty::SpClose => Val::N(0x0123 + s % 0x800),
        Ty::Spare(_) | Ty::Count(_) | Ty::Pad4 | Ty::Tag { .. } => Val::Z,
        Ty::List { elem, .. } => Val::L(
            (0..2)
                .map(|e| {
                    elem.iter()
                        .enumerate()
                        .map(|(i, f)| match handicap_cap(f) {
                            Some(cap) if elem.iter().any(|g| g.name == "PLID") && elem.len() == 4 => {
                                Val::N(((e * 31 + i * 7 + 5) as i64) % (cap + 1))
                            },
                            _ => b1(f, salt + 3 * e + i + 1),
                        })
                        .collect()
                })
                .collect(),
        ),
        Ty::Array { n, elem } => Val::L(
            (0..*n)
                .map(|e| {
                    elem.iter()
                        .enumerate()
                        .map(|(i, f)| match &f.ty {
                            // keep handicaps inside their asserted ranges (mass <= 200, tres <= 50)
                            Ty::U8 if f.name == "H_TRes" => Val::N(((e * 3 + 1) % 51) as i64),
                            Ty::U8 if f.name == "H_Mass" => Val::N(((e * 5 + 2) % 201) as i64),
                            _ => b1(f, salt + e + i + 1),
                        })
                        .collect()
                })
                .collect(),
        ),
        Ty::Cars32 => Val::N(0b1010_0101_0011_0000_1001),
        Ty::SkinList { .. } => Val::L(vec![
            vec![Val::N(0x00abcdef)],
            vec![Val::N(0x12345678)],
        ]),
        Ty::IpList { .. } => Val::L(vec![vec![Val::N(0x7f000001)], vec![Val::N(0x0a000002)]]),
    }
}

fn handicap_cap(f: &Field) -> Option<i64> {
    match f.name.as_str() {
        "H_Mass" => Some(200),
        "H_TRes" => Some(50),
        _ => None,
    }
}

/// The domain a single field sweeps over.  `in_list` = the field is an element of PLH/HCP lists
/// whose writer asserts handicap ranges (values above are outside the wire-representable domain).
pub fn domain(f: &Field, depth: Depth, in_capped: bool) -> Vec<Val> {
    let n = |v: Vec<i64>| v.into_iter().map(Val::N).collect::<Vec<_>>();
    match &f.ty {
        Ty::U8 => {
            let top = if in_capped {
                handicap_cap(f).unwrap_or(255)
            } else {
                255
            };
            n((0..=top).collect())
        },
        Ty::U16 | Ty::Ms16 | Ty::Cs16 => match depth {
            Depth::Full => n((0..=65535).collect()),
            Depth::Light => n(u16_boundary()),
        },
        Ty::I16 => match depth {
            Depth::Full => n((-32768..=32767).collect()),
            Depth::Light => n(u16_boundary()
                .into_iter()
                .map(|x| (x as u16) as i16 as i64)
                .collect()),
        },
        Ty::U32 | Ty::Ms32 | Ty::Cs32 | Ty::Ip4 => n(u32_boundary()),
        Ty::I32 => n(u32_boundary()
            .into_iter()
            .map(|x| (x as u32) as i32 as i64)
            .collect()),
        Ty::F32 => f32_specials().into_iter().map(Val::F).collect(),
        Ty::Bool | Ty::Bool32 => n(vec![0, 1]),
        Ty::Char => n((0..=255).collect()),
        Ty::Enum { items, .. } => n(items.iter().map(|i| i.1 as i64).collect()),
        Ty::Flags { items, .. } => {
            let bits: Vec<u8> = items.iter().map(|i| i.1).collect();
            let mut out: Vec<i64> = vec![0];
            let all: i64 = bits.iter().fold(0, |a, b| a | (1i64 << b));
            if depth == Depth::Full && bits.len() <= 12 {
                for m in 1..(1u32 << bits.len()) {
                    let mut v = 0i64;
                    for (i, b) in bits.iter().enumerate() {
                        if m & (1 << i) != 0 {
                            v |= 1i64 << b;
                        }
                    }
                    out.push(v);
                }
            } else {
                for b in &bits {
                    out.push(1i64 << b);
                }
                for (i, a) in bits.iter().enumerate() {
                    for b in &bits[i + 1..] {
                        out.push((1i64 << a) | (1i64 << b));
                    }
                }
                out.push(all);
            }
            out.sort();
            out.dedup();
            n(out)
        },
        Ty::Text(w) | Ty::Raw(w) => {
            let mut lens = vec![0usize, 1, 2, 3, 4, 5, *w / 2, *w - 2, *w - 1];
            lens.retain(|l| *l < *w);
            lens.sort();
            lens.dedup();
            lens.into_iter()
                .map(|l| Val::S(sig_text(l, l)))
                .collect()
        },
        Ty::VarText { max, .. } => {
            let mut lens: Vec<usize> = (0..=9).collect();
            lens.extend([*max / 2, *max - 5, *max - 4, *max - 3, *max - 2, *max - 1]);
            lens.retain(|l| *l < *max);
            lens.sort();
            lens.dedup();
            lens.into_iter()
                .map(|l| Val::S(sig_text(l, l + 1)))
                .collect()
        },
        Ty::Vehicle => {
            let mut v: Vec<i64> = BUILTIN_CARS.iter().map(|c| vehicle_u32(c)).collect();
            v.push(0);
            for x in u32_boundary() {
                if x != 0 && !looks_builtin(x as u32) {
                    v.push(x);
                }
            }
            n(v)
        },
        Ty::Track => SOME_TRACKS.iter().map(|t| Val::B(track_bytes(t))).collect(),
        Ty::RaceLaps => n((0..=238).collect()),
        Ty::Fuel => n((0..=255).collect()),
        Ty::GameVer => ["0.7F", "0.6W43", "0.04K", "0.7E15", "0.3H6", "1A", "0.5Z34"]
            .iter()
            .map(|s| Val::B(gamever_bytes(s)))
            .collect(),
        Ty::Nib { lo, .. } => {
            let mut out = vec![];
            for hi in 0..16u8 {
                if lo.is_some() {
                    for l in 0..16u8 {
                        out.push(Val::Nb(hi, l));
                    }
                } else {
                    out.push(Val::Nb(hi, 0));
                }
            }
            out
        },
        Ty::SpClose => n((0..=4095).collect()),
        Ty::Cars32 => {
            let mut out: Vec<i64> = vec![0, (1 << 20) - 1];
            for b in 0..20 {
                out.push(1 << b);
            }
            for b in 0..19 {
                out.push((1 << b) | (1 << (b + 1)));
            }
            n(out)
        },
        Ty::List { max, elem } => {
            // counts 0..=max with signature elements
            let capped = elem.iter().any(|f| handicap_cap(f).is_some());
            let mk = |e: usize| -> Vec<Val> {
                elem.iter().enumerate().map(|(i, f)| {
                    if capped { if let Some(cap) = handicap_cap(f) { return Val::N(((e * 7 + i) as i64) % (cap + 1)); } }
                    b1(f, e * 5 + i)
                }).collect()
            };
            // equal elements and a repeated first element: order and multiplicity must survive
            let mut extra = vec![Val::L(vec![mk(3), mk(3)]), Val::L(vec![mk(1), mk(2), mk(1)])];
            if *max < 3 { extra.clear(); }
            let mut base: Vec<Val> = (0..=*max)
                .map(|c| {
                    Val::L(
                        (0..c)
                            .map(|e| {
                                elem.iter()
                                    .enumerate()
                                    .map(|(i, f)| {
                                        if capped {
                                            if let Some(cap) = handicap_cap(f) {
                                                return Val::N(((e * 7 + i) as i64) % (cap + 1));
                                            }
                                        }
                                        b1(f, e * 5 + i)
                                    })
                                    .collect()
                            })
                            .collect(),
                    )
                })
                .collect();
            base.extend(extra);
            base
        },
        Ty::SkinList { max } => {
            let mut out: Vec<Val> = (0..=*max)
                .map(|c| {
                    Val::L(
                        (0..c)
                            .map(|e| vec![Val::N(0x0100_0000 + (e as i64) * 0x010203 + 0xa1)])
                            .collect(),
                    )
                })
                .collect();
            // every element is a raw mod id: ids that look like car names (or are 0) are still ids
            let mut ids: Vec<i64> = u32_boundary();
            ids.extend(BUILTIN_CARS.iter().map(|c| vehicle_u32(c)));
            for shaped in ["BA9", "xfg", "000", "zzz", "A1b"] {
                ids.push(vehicle_u32(shaped));
            }
            for id in ids {
                out.push(Val::L(vec![vec![Val::N(id)]]));
                out.push(Val::L(vec![vec![Val::N(0x00ab_cdef)], vec![Val::N(id)], vec![Val::N(0x7654_3210)]]));
            }
            out
        },
        Ty::IpList { max } => {
            let mut out: Vec<Val> = (0..=*max)
                .map(|c| {
                    Val::L(
                        (0..c)
                            .map(|e| vec![Val::N(0x0a00_0000 + (e as i64) * 0x0103 + 7)])
                            .collect(),
                    )
                })
                .collect();
            for ip in u32_boundary() {
                out.push(Val::L(vec![vec![Val::N(ip)]]));
                if ip != 0x0a00_0001 {
                    out.push(Val::L(vec![vec![Val::N(0x0a00_0001)], vec![Val::N(ip)]]));
                }
            }
            out
        },
        Ty::Array { .. } | Ty::Spare(_) | Ty::Count(_) | Ty::Pad4 | Ty::Tag { .. } => vec![],
    }
}

// ---------------------------------------------------------------------------------------------
// reference encoder

fn put_int(out: &mut Vec<u8>, v: i64, w: usize) {
    let b = (v as u64).to_le_bytes();
    out.extend_from_slice(&b[..w]);
}

fn text_bytes(s: &str) -> Vec<u8> {
    // spec-driven text is ASCII / Latin-1 only; C10 owns code pages
    s.chars().map(|c| c as u32 as u8).collect()
}

fn list_len(vals: &[Val], fields: &[Field], path: &str) -> usize {
    for (f, v) in fields.iter().zip(vals) {
        let is = match &f.ty {
            Ty::List { .. } | Ty::SkinList { .. } | Ty::IpList { .. } => {
                f.path.as_deref() == Some(path)
            },
            _ => false,
        };
        if is {
            if let Val::L(l) = v {
                return l.len();
            }
        }
    }
    panic!("count refers to unknown list {path}")
}

/// Encode the fields (not the size/type header). Records (field index, offset, len) of top-level
/// fields when `layout` is given (offsets are relative to the frame start, i.e. +2).
pub fn encode_fields(
    fields: &[Field],
    vals: &[Val],
    out: &mut Vec<u8>,
    mut layout: Option<&mut Vec<(usize, usize, usize)>>,
    lenient: bool,
) {
    assert_eq!(fields.len(), vals.len());
    for (idx, (f, v)) in fields.iter().zip(vals).enumerate() {
        let start = out.len();
        match (&f.ty, v) {
            (Ty::U8 | Ty::Bool | Ty::Char | Ty::RaceLaps | Ty::Fuel, Val::N(x)) => put_int(out, *x, 1),
            (Ty::U16 | Ty::I16 | Ty::Ms16 | Ty::Cs16 | Ty::SpClose, Val::N(x)) => put_int(out, *x, 2),
            (
                Ty::U32 | Ty::I32 | Ty::Ms32 | Ty::Cs32 | Ty::Bool32 | Ty::Vehicle | Ty::Ip4 | Ty::Cars32,
                Val::N(x),
            ) => put_int(out, *x, 4),
            (Ty::F32, Val::F(b)) => out.extend_from_slice(&b.to_le_bytes()),
            (Ty::Enum { w, .. }, Val::N(x)) => put_int(out, *x, *w as usize),
            (Ty::Flags { w, .. }, Val::N(x)) => put_int(out, *x, *w as usize),
            (Ty::Text(n) | Ty::Raw(n), Val::S(s)) => {
                let mut b = text_bytes(s);
                b.truncate(*n);
                b.resize(*n, 0);
                out.extend_from_slice(&b);
            },
            (Ty::VarText { max, min, term_required }, Val::S(s)) => {
                let mut b = text_bytes(s);
                // NUL-terminated, padded to a multiple of 4, at least `min`, at most `max`.
                // `lenient` = the alternative image for fields whose terminator the
                // specification does not demand of a *sender* (everything but MTC): padded to a
                // multiple of 4 only.
                if lenient && !*term_required {
                    while b.len() % 4 != 0 {
                        b.push(0);
                    }
                } else if *min == 0 && b.is_empty() {
                    // BTN allows an empty text
                } else {
                    b.push(0);
                    while b.len() % 4 != 0 {
                        b.push(0);
                    }
                    if b.len() < *min {
                        b.resize(*min, 0);
                    }
                    assert!(b.len() <= *max, "spec text too long");
                }
                out.extend_from_slice(&b);
            },
            (Ty::Track | Ty::GameVer, Val::B(b)) => out.extend_from_slice(b),
            (Ty::Nib { .. }, Val::Nb(hi, lo)) => out.push((hi << 4) | (lo & 15)),
            (Ty::Spare(n), _) => out.extend(std::iter::repeat(0).take(*n)),
            (Ty::Tag { v, .. }, _) => out.push(*v),
            (Ty::Count(p), _) => out.push(list_len(vals, fields, p) as u8),
            (Ty::Pad4, _) => {
                // frame so far = size byte + type byte + out
                while (out.len() + 2) % 4 != 0 {
                    out.push(0);
                }
            },
            (Ty::List { elem, .. } | Ty::Array { elem, .. }, Val::L(items)) => {
                for it in items {
                    encode_fields(elem, it, out, None, lenient);
                }
            },
            (Ty::SkinList { .. } | Ty::IpList { .. }, Val::L(items)) => {
                for it in items {
                    if let Val::N(x) = it[0] {
                        put_int(out, x, 4);
                    }
                }
            },
            (t, v) => panic!("spec value {v:?} does not fit field type {t:?} ({})", f.name),
        }
        if let Some(l) = layout.as_deref_mut() {
            l.push((idx, start + 2, out.len() - start));
        }
    }
}

/// Reference frame for a packet value. `compressed` selects the size-byte convention.
/// Returns None when the frame length is not representable (not a multiple of 4 or too long).
pub fn ref_encode(kind: &Kind, vals: &[Val], compressed: bool) -> Option<Vec<u8>> {
    ref_encode_opt(kind, vals, compressed, false)
}

pub fn ref_encode_opt(kind: &Kind, vals: &[Val], compressed: bool, lenient: bool) -> Option<Vec<u8>> {
    let mut body = vec![];
    encode_fields(&kind.fields, vals, &mut body, None, lenient);
    let len = body.len() + 2;
    if len % 4 != 0 {
        return None;
    }
    let size = if compressed {
        if len > 1020 {
            return None;
        }
        (len / 4) as u8
    } else {
        if len > 255 {
            return None;
        }
        len as u8
    };
    let mut out = Vec::with_capacity(len);
    out.push(size);
    out.push(kind.ty);
    out.extend_from_slice(&body);
    Some(out)
}

pub fn spec_len(kind: &Kind, vals: &[Val]) -> usize {
    let mut body = vec![];
    encode_fields(&kind.fields, vals, &mut body, None, false);
    body.len() + 2
}

pub fn layout(kind: &Kind, vals: &[Val]) -> Vec<(usize, usize, usize)> {
    let mut body = vec![];
    let mut l = vec![];
    encode_fields(&kind.fields, vals, &mut body, Some(&mut l), false);
    l
}

// ---------------------------------------------------------------------------------------------
// typed-side binding: expected serde rendering of each specification field

fn dur_json(ms: u64) -> Value {
    json!({"secs": ms / 1000, "nanos": (ms % 1000) * 1_000_000})
}

fn vehicle_json(v: u32) -> Option<Value> {
    if v == 0 {
        return Some(json!("Unknown"));
    }
    if looks_builtin(v) {
        let b = v.to_le_bytes();
        let name = std::str::from_utf8(&b[..3]).unwrap().to_string();
        if BUILTIN_CARS.contains(&name.as_str()) {
            return Some(json!(camel(&name)));
        }
        return None; // must be rejected
    }
    Some(json!({"Mod": v}))
}

fn ip_ok(actual: &Value, v: u32) -> bool {
    let b = v.to_be_bytes();
    let a = format!("{}.{}.{}.{}", b[0], b[1], b[2], b[3]);
    let r = format!("{}.{}.{}.{}", b[3], b[2], b[1], b[0]);
    // octet order is deliberately not judged (DESIGN.md C02)
    actual.as_str() == Some(a.as_str()) || actual.as_str() == Some(r.as_str())
}

fn racelaps_json(b: u8) -> Value {
    match b {
        0 => json!("Practice"),
        1..=99 => json!({"Laps": b}),
        100..=190 => json!({"Laps": (b as u32 - 100) * 10 + 100}),
        191..=238 => json!({"Hours": b as u32 - 190}),
        _ => json!("Practice"),
    }
}

fn lookup<'a>(root: &'a Value, path: &str) -> Option<&'a Value> {
    let mut cur = root;
    if path == "@" {
        return Some(cur);
    }
    for p in path.split('.') {
        cur = match cur {
            Value::Object(m) => m.get(p)?,
            Value::Array(a) => a.get(p.parse::<usize>().ok()?)?,
            _ => return None,
        };
    }
    Some(cur)
}

fn flag_names_ok(actual: &Value, items: &[(String, u8, Option<String>)], v: u64) -> Result<(), String> {
    let Some(s) = actual.as_str() else {
        return Err(format!("flags not rendered as a string: {actual}"));
    };
    let mut got: Vec<String> = s
        .split('|')
        .map(|x| x.trim().to_string())
        .filter(|x| !x.is_empty())
        .collect();
    got.sort();
    let mut want: Vec<String> = vec![];
    let mut unnamed: u64 = 0;
    for (spec_name, bit, rust) in items {
        if v & (1u64 << bit) != 0 {
            match rust {
                Some(r) => want.push(r.clone()),
                None => {
                    let _ = spec_name;
                    unnamed |= 1u64 << bit
                },
            }
        }
    }
    if unnamed != 0 {
        want.push(format!("{:#x}", unnamed));
    }
    want.sort();
    if got == want {
        Ok(())
    } else {
        Err(format!("flags {got:?} where the specification value {v:#x} means {want:?}"))
    }
}

/// Compare one field against the serde rendering. Ok(()) or a description of the mismatch.
pub fn check_field(f: &Field, v: &Val, root: &Value) -> Result<(), String> {
    let need = |p: &Option<String>| -> Result<&Value, String> {
        let p = p.as_ref().ok_or_else(|| "unbound".to_string())?;
        lookup(root, p).ok_or_else(|| format!("typed packet has no field `{p}` (rendering: {root})"))
    };
    let cmp = |a: &Value, e: Value| -> Result<(), String> {
        if *a == e {
            Ok(())
        } else {
            Err(format!("typed value {a} where the specification frame carries {e}"))
        }
    };
    match (&f.ty, v) {
        (Ty::Spare(_) | Ty::Count(_) | Ty::Pad4, _) => Ok(()),
        (Ty::U8 | Ty::U16 | Ty::U32 | Ty::SpClose, Val::N(x)) => cmp(need(&f.path)?, json!(*x as u64)),
        (Ty::I16 | Ty::I32, Val::N(x)) => cmp(need(&f.path)?, json!(*x)),
        (Ty::F32, Val::F(b)) => {
            let a = need(&f.path)?;
            let x = f32::from_bits(*b);
            if x.is_finite() {
                cmp(a, json!(x))
            } else if a.is_null() {
                Ok(())
            } else {
                Err(format!("non-finite f32 rendered as {a}"))
            }
        },
        (Ty::Bool | Ty::Bool32, Val::N(x)) => cmp(need(&f.path)?, json!(*x != 0)),
        (Ty::Char, Val::N(x)) => cmp(
            need(&f.path)?,
            json!(char::from_u32(*x as u32).unwrap().to_string()),
        ),
        (Ty::Enum { items, .. }, Val::N(x)) => {
            let it = items
                .iter()
                .find(|i| i.1 as i64 == *x)
                .ok_or("value outside enum")?;
            cmp(need(&f.path)?, json!(it.2))
        },
        (Ty::Flags { items, .. }, Val::N(x)) => {
            if items.iter().any(|i| i.2.is_none()) {
                // sub-fields without single-bit typed names (LCS/LCL): compared through bits() by the caller
                Ok(())
            } else {
                flag_names_ok(need(&f.path)?, items, *x as u64)
            }
        },
        (Ty::Text(n) | Ty::Raw(n), Val::S(s)) => {
            let mut t = s.clone();
            t.truncate(*n);
            cmp(need(&f.path)?, json!(t))
        },
        (Ty::VarText { .. }, Val::S(s)) => cmp(need(&f.path)?, json!(s)),
        (Ty::Ms16 | Ty::Ms32, Val::N(x)) => cmp(need(&f.path)?, dur_json(*x as u64)),
        (Ty::Cs16 | Ty::Cs32, Val::N(x)) => cmp(need(&f.path)?, dur_json(*x as u64 * 10)),
        (Ty::Vehicle, Val::N(x)) => match vehicle_json(*x as u32) {
            Some(e) => cmp(need(&f.path)?, e),
            None => Err("unrecognised built-in-style name must be rejected".into()),
        },
        (Ty::Track, Val::B(b)) => {
            let code: String = b.iter().take_while(|c| **c != 0).map(|c| *c as char).collect();
            cmp(need(&f.path)?, json!(camel(&code)))
        },
        (Ty::RaceLaps, Val::N(x)) => cmp(need(&f.path)?, racelaps_json(*x as u8)),
        (Ty::Fuel, Val::N(x)) => cmp(
            need(&f.path)?,
            if *x == 255 {
                json!("No")
            } else {
                json!({"Percentage": x})
            },
        ),
        (Ty::GameVer, Val::B(b)) => {
            let s: String = b.iter().take_while(|c| **c != 0).map(|c| *c as char).collect();
            let split = s.find(|c: char| c.is_ascii_alphabetic()).unwrap();
            let major: f32 = s[..split].parse().unwrap();
            let minor = s[split..split + 1].to_ascii_uppercase();
            let patch = &s[split + 1..];
            let a = need(&f.path)?;
            let got_major = a.get("major").and_then(|m| m.as_f64()).map(|m| m as f32);
            let got_minor = a.get("minor").and_then(|m| m.as_str()).map(|m| m.to_string());
            let got_patch = a.get("patch").and_then(|m| m.as_u64()).unwrap_or(0);
            let want_patch: u64 = if patch.is_empty() { 0 } else { patch.parse().unwrap() };
            if got_major == Some(major) && got_minor.as_deref() == Some(&minor) && got_patch == want_patch {
                Ok(())
            } else {
                Err(format!("game version {a} where the frame carries {s}"))
            }
        },
        (Ty::Ip4, Val::N(x)) => {
            let a = need(&f.path)?;
            if ip_ok(a, *x as u32) {
                Ok(())
            } else {
                Err(format!("ip {a} for wire value {x:#x}"))
            }
        },
        (Ty::Nib { hi, lo }, Val::Nb(h, l)) => {
            if hi.is_some() {
                cmp(need(hi)?, json!(*h))?;
            }
            if lo.is_some() {
                cmp(need(lo)?, json!(*l))?;
            }
            Ok(())
        },
        (Ty::Tag { variant, .. }, _) => {
            let a = need(&f.path)?;
            let ok = a.as_str() == Some(variant.as_str())
                || a.as_object().map(|m| m.len() == 1 && m.contains_key(variant)) == Some(true);
            if ok {
                Ok(())
            } else {
                Err(format!("variant {a} where the discriminant means {variant}"))
            }
        },
        (Ty::Cars32, Val::N(x)) => {
            let a = need(&f.path)?;
            let inner = a.get("inner").unwrap_or(a);
            let mut got: Vec<String> = inner
                .as_array()
                .ok_or("cars not a list")?
                .iter()
                .map(|c| c.as_str().unwrap_or("?").to_string())
                .collect();
            got.sort();
            // specification order of the allowed-cars bits: XFG=bit0 ... FBM=bit19
            let mut want: Vec<String> = (0..20)
                .filter(|b| x & (1 << b) != 0)
                .map(|b| camel(BUILTIN_CARS[b]))
                .collect();
            want.sort();
            if got == want {
                Ok(())
            } else {
                Err(format!("cars {got:?} where bits {x:#x} mean {want:?}"))
            }
        },
        (Ty::List { elem, .. } | Ty::Array { elem, .. }, Val::L(items)) => {
            let a = need(&f.path)?;
            let arr = a.as_array().ok_or("list not rendered as array")?;
            if arr.len() != items.len() {
                return Err(format!("{} elements where the frame carries {}", arr.len(), items.len()));
            }
            for (i, (it, av)) in items.iter().zip(arr).enumerate() {
                for (ef, ev) in elem.iter().zip(it) {
                    check_field(ef, ev, av).map_err(|e| format!("element {i} {}: {e}", ef.name))?;
                }
            }
            Ok(())
        },
        (Ty::SkinList { .. }, Val::L(items)) => {
            let a = need(&f.path)?;
            let want: Vec<Value> = items
                .iter()
                .map(|it| match it[0] {
                    Val::N(x) => json!({"Mod": x}),
                    _ => Value::Null,
                })
                .collect();
            cmp(a, Value::Array(want))
        },
        (Ty::IpList { .. }, Val::L(items)) => {
            let a = need(&f.path)?;
            let arr = a.as_array().ok_or("ip list not rendered as array")?;
            if arr.len() != items.len() {
                return Err(format!("{} ips where the frame carries {}", arr.len(), items.len()));
            }
            for (it, av) in items.iter().zip(arr) {
                if let Val::N(x) = it[0] {
                    if !ip_ok(av, x as u32) {
                        return Err(format!("ip {av} for wire value {x:#x}"));
                    }
                }
            }
            Ok(())
        },
        (t, v) => Err(format!("harness: value {v:?} does not fit {t:?}")),
    }
}

/// All typed leaves the specification binds (used to detect typed fields with no spec counterpart).
pub fn bound_paths(fields: &[Field], prefix: &str, out: &mut Vec<String>) {
    for f in fields {
        let mut push = |p: &str| {
            out.push(if prefix.is_empty() {
                p.to_string()
            } else {
                format!("{prefix}.{p}")
            })
        };
        match &f.ty {
            Ty::Nib { hi, lo } => {
                if let Some(h) = hi {
                    push(h)
                }
                if let Some(l) = lo {
                    push(l)
                }
            },
            _ => {
                if let Some(p) = &f.path {
                    push(p)
                }
            },
        }
    }
}

pub fn describe(kind: &Kind, vals: &[Val]) -> Value {
    let mut m = serde_json::Map::new();
    for (f, v) in kind.fields.iter().zip(vals) {
        let jv = match v {
            Val::Z => continue,
            Val::N(x) => json!(x),
            Val::F(b) => json!(format!("f32:{b:#010x}")),
            Val::S(s) => json!(s),
            Val::B(b) => json!(String::from_utf8_lossy(b).trim_end_matches('\0')),
            Val::Nb(h, l) => json!([h, l]),
            Val::L(items) => json!(format!("{} element(s)", items.len())),
        };
        let _ = m.insert(f.name.clone(), jv);
    }
    json!({"kind": kind.name, "fields": Value::Object(m)})
}

/// Value at a json_diff_path-style path ("a.b[].c" - arrays: first element that exists).
pub fn describe_path(root: &Value, path: &str) -> String {
    let mut cur = root;
    for part in path.split('.') {
        let (name, arr) = match part.strip_suffix("[]") {
            Some(n) => (n, true),
            None => (part, false),
        };
        if !name.is_empty() && name != "len" {
            match cur.get(name) {
                Some(v) => cur = v,
                None => break,
            }
        }
        if arr {
            match cur.as_array().and_then(|a| a.first()) {
                Some(v) => cur = v,
                None => break,
            }
        }
    }
    cur.to_string().chars().take(80).collect()
}

/// A handful of boundary values per field for the pairwise blocks of Gen (empty = field does not
/// take part: lists, spares, counts, tags).
pub fn pair_values(f: &Field, depth: Depth) -> Vec<Val> {
    let n = |v: &[i64]| {
        let mut out = v.iter().map(|x| Val::N(*x)).collect::<Vec<_>>();
        for x in &f.notable { if !out.contains(&Val::N(*x)) { out.push(Val::N(*x)); } }
        out
    };
    match &f.ty {
        // full depth: the whole byte, so that the product of two byte fields is complete (a
        // condition on two particular mid-range values is met); light: boundaries and a few mid values
        Ty::U8 if depth == Depth::Full => (0..=255).map(Val::N).collect(),
        Ty::U8 => n(&[0, 1, 2, 7, 0x2a, 0x7f, 0x80, 0xc8, 0xfe, 0xff]),
        Ty::U16 | Ty::Ms16 | Ty::Cs16 => n(&[0, 1, 0xff, 0x100, 0xffff]),
        Ty::I16 => n(&[0, 1, -1, 32767, -32768]),
        Ty::U32 | Ty::Ms32 | Ty::Cs32 | Ty::Ip4 => n(&[0, 1, 0xffff, 0x10000, 0xffff_ffff]),
        Ty::I32 => n(&[0, 1, -1, i32::MAX as i64, i32::MIN as i64]),
        Ty::Bool | Ty::Bool32 => n(&[0, 1]),
        Ty::Char => n(&[0, b'A' as i64, 0x7f, 0xff]),
        // every enumerant and every single flag bit: an interaction that needs ONE particular
        // value of a discriminant-like neighbour is only met if that value is in the product
        Ty::Enum { items, .. } => {
            let mut v: Vec<i64> = items.iter().map(|i| i.1 as i64).collect();
            v.sort();
            v.dedup();
            n(&v)
        },
        Ty::Flags { items, .. } => {
            let all: i64 = items.iter().fold(0, |a, b| a | (1i64 << b.1));
            let mut v = vec![0, all];
            v.extend(items.iter().map(|b| 1i64 << b.1));
            v.sort();
            v.dedup();
            n(&v)
        },
        // (... and two texts shaped like the names LFS itself puts there: a standard car's and a mod's default skin)
        Ty::Text(w) if *w >= 8 => vec![Val::S(String::new()), Val::S("Z".repeat(*w - 1)), Val::S("XFG_DEFAULT".chars().take(*w - 1).collect()), Val::S("39CEEB_DEFAULT".chars().take(*w - 1).collect())],
        Ty::Text(w) | Ty::Raw(w) => vec![Val::S(String::new()), Val::S("Z".repeat(*w - 1))],
        Ty::Vehicle => n(&[0, u32::from_le_bytes(*b"XFG\0") as i64, u32::from_le_bytes(*b"FBM\0") as i64, 0x0012_3456, 0xffff_ffff]),
        Ty::RaceLaps => n(&[0, 1, 99, 100, 190, 191, 238]),
        Ty::Fuel => n(&[0, 100, 254, 255]),
        Ty::Nib { lo, .. } => {
            if lo.is_some() {
                vec![Val::Nb(0, 0), Val::Nb(15, 0), Val::Nb(0, 15), Val::Nb(15, 15), Val::Nb(5, 10)]
            } else {
                vec![Val::Nb(0, 0), Val::Nb(15, 0), Val::Nb(5, 0)]
            }
        },
        Ty::SpClose => n(&[0, 1, 0xff, 0x100, 0xfff]),
        Ty::Cars32 => n(&[0, 1, 1 << 19, (1 << 20) - 1]),
        _ => vec![],
    }
}
