//! mc <Cxx> [--tier quick|thorough] [--replay <file>]
mod alloc;
mod choppy;
mod crossthread;
mod e2;
mod gen;
mod props;
mod reftext;
mod report;
mod spec;
mod textgen;
mod typed;

use report::Tier;

#[global_allocator]
static GLOBAL: alloc::Counting = alloc::Counting;

/// Logging is part of the environment: a subscriber that enables every callsite (and throws the events
/// away) makes the library evaluate the arguments of all its trace!/debug! statements, as it does for a user
/// running with RUST_LOG=trace.  VERIF_TRACING=off runs without it.
struct EnableAll;
impl tracing::Subscriber for EnableAll {
    fn enabled(&self, _: &tracing::Metadata<'_>) -> bool { true }
    fn new_span(&self, _: &tracing::span::Attributes<'_>) -> tracing::span::Id { tracing::span::Id::from_u64(1) }
    fn record(&self, _: &tracing::span::Id, _: &tracing::span::Record<'_>) {}
    fn record_follows_from(&self, _: &tracing::span::Id, _: &tracing::span::Id) {}
    fn event(&self, e: &tracing::Event<'_>) {
        // visit the fields so that lazily formatted values are formatted, too
        struct V;
        impl tracing::field::Visit for V {
            fn record_debug(&mut self, _: &tracing::field::Field, v: &dyn std::fmt::Debug) { let _ = format!("{v:?}"); }
        }
        e.record(&mut V);
    }
    fn enter(&self, _: &tracing::span::Id) {}
    fn exit(&self, _: &tracing::span::Id) {}
}

fn main() {
    if std::env::var("VERIF_TRACING").ok().as_deref() != Some("off") {
        let _ = tracing::subscriber::set_global_default(EnableAll);
    }
    let args: Vec<String> = std::env::args().collect();
    if args.len() < 2 {
        eprintln!("usage: mc <Cxx> [--tier quick|thorough] [--replay file]");
        std::process::exit(2);
    }
    let prop = args[1].clone();
    let mut tier = match std::env::var("VERIF_TIER").ok().as_deref() {
        Some("thorough") => Tier::Thorough,
        _ => Tier::Quick,
    };
    let mut replay: Option<String> = None;
    let mut i = 2;
    while i < args.len() {
        match args[i].as_str() {
            "--tier" => {
                tier = match args.get(i + 1).map(|s| s.as_str()) {
                    Some("quick") => Tier::Quick,
                    Some("thorough") => Tier::Thorough,
                    other => {
                        eprintln!("bad tier {other:?}");
                        std::process::exit(2);
                    },
                };
                i += 2;
            },
            "--child" => {
                let which = args.get(i + 1).cloned().unwrap_or_default();
                let rest: Vec<String> = args[(i + 2).min(args.len())..].to_vec();
                report::silence_panics();
                std::process::exit(props::child(&prop, tier, &which, &rest));
            },
            "--replay" => {
                replay = args.get(i + 1).cloned();
                i += 2;
            },
            other => {
                eprintln!("unknown argument {other}");
                std::process::exit(2);
            },
        }
    }
    report::silence_panics();
    let code = match std::panic::catch_unwind(|| props::dispatch(&prop, tier, replay)) {
        Ok(c) => c,
        Err(_) => {
            eprintln!("MACHINERY: harness panicked outside the subject");
            5
        },
    };
    std::process::exit(code);
}
