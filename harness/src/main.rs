//! mc <Cxx> [--tier quick|thorough] [--replay <file>]
mod alloc;
mod choppy;
mod e2;
mod gen;
mod props;
mod reftext;
mod report;
mod spec;
mod textgen;
mod typed;

use report::Tier;

#[global_allocator]
static GLOBAL: alloc::Counting = alloc::Counting;

fn main() {
    let args: Vec<String> = std::env::args().collect();
    if args.len() < 2 {
        eprintln!("usage: mc <Cxx> [--tier quick|thorough] [--replay file]");
        std::process::exit(2);
    }
    let prop = args[1].clone();
    let mut tier = match std::env::var("VERIF_TIER").ok().as_deref() {
        Some("thorough") => Tier::Thorough,
        _ => Tier::Quick,
    };
    let mut replay: Option<String> = None;
    let mut i = 2;
    while i < args.len() {
        match args[i].as_str() {
            "--tier" => {
                tier = match args.get(i + 1).map(|s| s.as_str()) {
                    Some("quick") => Tier::Quick,
                    Some("thorough") => Tier::Thorough,
                    other => {
                        eprintln!("bad tier {other:?}");
                        std::process::exit(2);
                    },
                };
                i += 2;
            },
            "--child" => {
                let which = args.get(i + 1).cloned().unwrap_or_default();
                let rest: Vec<String> = args[(i + 2).min(args.len())..].to_vec();
                report::silence_panics();
                std::process::exit(props::child(&prop, tier, &which, &rest));
            },
            "--replay" => {
                replay = args.get(i + 1).cloned();
                i += 2;
            },
            other => {
                eprintln!("unknown argument {other}");
                std::process::exit(2);
            },
        }
    }
    report::silence_panics();
    let code = match std::panic::catch_unwind(|| props::dispatch(&prop, tier, replay)) {
        Ok(c) => c,
        Err(_) => {
            eprintln!("MACHINERY: harness panicked outside the subject");
            5
        },
    };
    std::process::exit(code);
}
