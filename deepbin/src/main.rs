//! `deep <code point, hex> <run length> <shape 0..5>`: parse one very long text as a game version on the main
//! thread (default 8 MiB stack) of a process built without optimisation.  Prints `parsed`, `rejected`, or a
//! failure class on the first line; exit 0 = fine, 1 = the property is broken; dying = the parent's verdict.
use std::str::FromStr;

use insim_core::game_version::GameVersion;

fn main() {
    let a: Vec<String> = std::env::args().collect();
    let (Some(cp), Some(l), Some(shape)) = (
        a.get(1).and_then(|x| u32::from_str_radix(x, 16).ok()).and_then(char::from_u32),
        a.get(2).and_then(|x| x.parse::<usize>().ok()),
        a.get(3).and_then(|x| x.parse::<usize>().ok()),
    ) else {
        std::process::exit(2)
    };
    let run = cp.to_string().repeat(l);
    let text = match shape {
        0 => run,
        1 => format!("0.7F{run}"),
        2 => format!("{run}0.7F"),
        3 => format!("0.7{run}F"),
        _ => format!("0.7F1{run}"),
    };
    let _ = std::thread::spawn(|| {
        std::thread::sleep(std::time::Duration::from_secs(120));
        println!("hang");
        std::process::exit(1);
    });
    std::panic::set_hook(Box::new(|_| {}));
    let code = match std::panic::catch_unwind(|| GameVersion::from_str(&text)) {
        Err(_) => { println!("panic"); 1 },
        Ok(Err(_)) => { println!("rejected"); 0 },
        Ok(Ok(v)) => {
            let mut code = 0;
            if v.major.is_finite() {
                let printed = v.to_string();
                match std::panic::catch_unwind(|| GameVersion::from_str(&printed)) {
                    Ok(Ok(w)) if w == v => {},
                    _ => { println!("not-reparseable\n{v:?} prints as {} bytes that do not parse back to it", printed.len()); code = 1; },
                }
            }
            if code == 0 { println!("parsed"); }
            code
        },
    };
    std::process::exit(code);
}
