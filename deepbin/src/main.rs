//! `deep text <unit, hex of its UTF-8> <count>`: the unit repeated `count` times through escape / unescape / strip
//! (C12's string-to-string laws), same conventions.
//! `deep <code point, hex> <run length> <shape 0..5>`: parse one very long text as a game version on the main
//! thread (default 8 MiB stack) of a process built without optimisation.  Prints `parsed`, `rejected`, or a
//! failure class on the first line; exit 0 = fine, 1 = the property is broken; dying = the parent's verdict.
use std::str::FromStr;

use insim_core::game_version::GameVersion;

/// Reference colour stripper (as in the harness): delete ^0..^9, keep ^^ atomic.
fn ref_strip(s: &str) -> String {
    let cs: Vec<char> = s.chars().collect();
    let mut out = String::new();
    let mut i = 0;
    while i < cs.len() {
        if cs[i] == '^' && i + 1 < cs.len() {
            if cs[i + 1] == '^' { out.push_str("^^"); i += 2; continue; }
            if cs[i + 1].is_ascii_digit() { i += 2; continue; }
        }
        out.push(cs[i]);
        i += 1;
    }
    out
}

fn text_mode(a: &[String]) -> i32 {
    use insim_core::string::{colours::strip, escaping::{escape, unescape}};
    let unit: Option<Vec<u8>> = a.get(2).and_then(|h| (0..h.len() / 2).map(|k| u8::from_str_radix(h.get(2 * k..2 * k + 2)?, 16).ok()).collect());
    let (Some(unit), Some(count)) = (unit.and_then(|u| String::from_utf8(u).ok()), a.get(3).and_then(|x| x.parse::<usize>().ok())) else { return 2 };
    let s = unit.repeat(count);
    let r = std::panic::catch_unwind(|| {
        let e = escape(&s).to_string();
        let u = unescape(&e).to_string();
        let st = strip(&s).to_string();
        let st2 = strip(&st).to_string();
        (u, st, st2)
    });
    match r {
        Err(_) => { println!("panic"); 1 },
        Ok((u, st, st2)) => {
            if u != s { println!("unescape-is-not-the-inverse"); return 1; }
            if st != ref_strip(&s) { println!("strip-differs-from-reference"); return 1; }
            if st2 != st { println!("strip-not-idempotent"); return 1; }
            println!("{}", if st != s { "changed" } else { "plain" });
            0
        },
    }
}

fn fnv(b: &[u8]) -> u64 {
    let mut h: u64 = 0xcbf29ce484222325;
    for x in b { h ^= *x as u64; h = h.wrapping_mul(0x100000001b3); }
    h
}

/// `deep codepage <unit, hex of its UTF-8> <count>`: encode the repeated unit to LFS bytes and decode those; prints
/// `ok <fnv of the bytes> <fnv of the decoded text>` for the parent to compare with what the optimised build makes.
fn codepage_mode(a: &[String]) -> i32 {
    use insim_core::string::codepages::{to_lossy_bytes, to_lossy_string};
    let unit: Option<Vec<u8>> = a.get(2).and_then(|h| (0..h.len() / 2).map(|k| u8::from_str_radix(h.get(2 * k..2 * k + 2)?, 16).ok()).collect());
    let (Some(unit), Some(count)) = (unit.and_then(|u| String::from_utf8(u).ok()), a.get(3).and_then(|x| x.parse::<usize>().ok())) else { return 2 };
    let s = unit.repeat(count);
    match std::panic::catch_unwind(|| { let b = to_lossy_bytes(&s).to_vec(); let t = to_lossy_string(&b).to_string(); (b, t) }) {
        Err(_) => { println!("panic"); 1 },
        Ok((b, t)) => { println!("ok {:016x} {:016x}", fnv(&b), fnv(t.as_bytes())); 0 },
    }
}

fn main() {
    let a: Vec<String> = std::env::args().collect();
    if a.get(1).map(|x| x == "codepage").unwrap_or(false) {
        let _ = std::thread::spawn(|| {
            std::thread::sleep(std::time::Duration::from_secs(120));
            println!("hang");
            std::process::exit(1);
        });
        std::panic::set_hook(Box::new(|_| {}));
        std::process::exit(codepage_mode(&a));
    }
    if a.get(1).map(|x| x == "text").unwrap_or(false) {
        let _ = std::thread::spawn(|| {
            std::thread::sleep(std::time::Duration::from_secs(120));
            println!("hang");
            std::process::exit(1);
        });
        std::panic::set_hook(Box::new(|_| {}));
        std::process::exit(text_mode(&a));
    }
    let (Some(cp), Some(l), Some(shape)) = (
        a.get(1).and_then(|x| u32::from_str_radix(x, 16).ok()).and_then(char::from_u32),
        a.get(2).and_then(|x| x.parse::<usize>().ok()),
        a.get(3).and_then(|x| x.parse::<usize>().ok()),
    ) else {
        std::process::exit(2)
    };
    let run = cp.to_string().repeat(l);
    let text = match shape {
        0 => run,
        1 => format!("0.7F{run}"),
        2 => format!("{run}0.7F"),
        3 => format!("0.7{run}F"),
        _ => format!("0.7F1{run}"),
    };
    let _ = std::thread::spawn(|| {
        std::thread::sleep(std::time::Duration::from_secs(120));
        println!("hang");
        std::process::exit(1);
    });
    std::panic::set_hook(Box::new(|_| {}));
    let code = match std::panic::catch_unwind(|| GameVersion::from_str(&text)) {
        Err(_) => { println!("panic"); 1 },
        Ok(Err(_)) => { println!("rejected"); 0 },
        Ok(Ok(v)) => {
            let mut code = 0;
            if v.major.is_finite() {
                let printed = v.to_string();
                match std::panic::catch_unwind(|| GameVersion::from_str(&printed)) {
                    Ok(Ok(w)) if w == v => {},
                    _ => { println!("not-reparseable\n{v:?} prints as {} bytes that do not parse back to it", printed.len()); code = 1; },
                }
            }
            if code == 0 { println!("parsed"); }
            code
        },
    };
    std::process::exit(code);
}
