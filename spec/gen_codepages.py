#!/usr/bin/env python3
"""Dump the ten Windows code pages LFS uses from CPython's codecs (independent of encoding_rs).
Output: spec/codepages.tbl, one line per defined cell:  <letter> <hex bytes> <hex code point>
Only bytes >= 0x80 (single) and (lead, trail) pairs are listed; ASCII is shared."""
import sys, codecs
PAGES = [("L","cp1252"),("G","cp1253"),("C","cp1251"),("E","cp1250"),("T","cp1254"),("B","cp1257"),
         ("J","cp932"),("S","cp936"),("K","cp949"),("H","cp950")]
out = []
for letter, name in PAGES:
    dec = codecs.getdecoder(name)
    n1 = n2 = 0
    for b in range(0x80, 0x100):
        try:
            s, _ = dec(bytes([b]), "strict")
            if len(s) == 1:
                out.append(f"{letter} {b:02x} {ord(s):x}"); n1 += 1
                continue
        except UnicodeDecodeError:
            pass
        if letter in "JSKH":
            for t in range(0x30, 0x100):
                try:
                    s, _ = dec(bytes([b, t]), "strict")
                except UnicodeDecodeError:
                    continue
                if len(s) == 1:
                    out.append(f"{letter} {b:02x}{t:02x} {ord(s):x}"); n2 += 1
    print(f"{letter} {name}: {n1} single, {n2} double", file=sys.stderr)
open(sys.argv[1] if len(sys.argv) > 1 else "/verif/spec/codepages.tbl", "w").write("\n".join(out) + "\n")
