#!/bin/bash
# Run once after a fresh restore (offline): generate reference data and build the harness.
set -eu
export CARGO_NET_OFFLINE=true
export CARGO_TARGET_DIR=/verif/target
cd /verif/harness
cargo build --release --offline
