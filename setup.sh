#!/bin/bash
# Run once after a fresh restore (offline): generate reference data and build the harness.
set -eu
export CARGO_NET_OFFLINE=true
export CARGO_TARGET_DIR=/verif/target
cd /verif/harness
cargo build --release --offline
# the one-case runner C16's very-long-runs site uses (dev profile; ./check C16 rebuilds it as well)
cd /verif/deepbin
CARGO_TARGET_DIR=/verif/target/deep cargo build --offline
